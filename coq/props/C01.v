(* C01 - write then read returns the same pose, or the write fails loudly.
   Only statements, closed by [exact], each followed by Print Assumptions. *)
From Coq Require Import ZArith NArith List String.
Require Import C01_Accepts.
Require Import ListN Result Bytes Prog Codec PoseRead CodecRT PoseReadLemmas CodecGenTie C01_Examples.
Import ListNotations.
Open Scope N_scope.

(* For EVERY pose handed to Pose.write (arbitrary integers, code points, shapes, binary64 values): if the
   writer accepts it, then Pose.read of the bytes - under every consistent state of the process-global
   header memo and whatever legacy decoders are plugged in - returns exactly [canon p]: the header field by
   field, fps / coordinates / confidences converted to float32 words, missing iff confidence is +-0.
   [wf_arrays] (an ndarray has as many cells as its shape says) and "at least one coordinate dimension"
   are the property's own quantifier, not restrictions of the proof. *)
Theorem C01_write_read_roundtrip :
  forall legacy (m : option memo) (p : wpose) (bs : bytes),
    MemoOK m -> write_pose p = Ok bs -> wf_arrays p -> 1 <= nth 3 (w_shape p) 0 ->
    fst (read_bytes legacy m bs no_args) = Ok (canon p).
Proof. exact read_bytes_written. Qed.
Print Assumptions C01_write_read_roundtrip.

(* the memo states over which the theorem quantifies are exactly the reachable ones *)
(* ... and WHICH poses are accepted: [representable] is a boolean test on the pose handed to Pose.write (16-bit ranges of dimensions,
   counts, limb and colour values; strings encodable in UTF-8 within 65535 bytes; shapes agreeing with the header; at most 2^32-1
   frames and 65535 people; a frame rate that fits float32).  The writer succeeds iff it holds: every other pose is refused with an
   exception - "or the write fails loudly" - and never written. *)
Theorem C01_write_accepts_iff : forall p, is_ok (write_pose p) = representable p.
Proof. exact write_accepts_iff. Qed.
Print Assumptions C01_write_accepts_iff.
Theorem C01_unrepresentable_refused : forall p, representable p = false -> exists e, write_pose p = Err e.
Proof. exact write_refuses. Qed.
Print Assumptions C01_unrepresentable_refused.
Theorem C01_representable_examples :
  representable ex_pose = true /\ representable ex_empty = true /\
  representable {| w_dims := (65536, 1, 0)%Z; w_comps := w_comps ex_empty; w_fps := 0; w_shape := [0; 0; 0; 3]; w_data := [];
                   w_cshape := [0; 0; 0]; w_conf := [] |} = false /\
  representable {| w_dims := (1, 1, 0)%Z;
                   w_comps := [ {| wc_name := [65]; wc_format := [88; 67]; wc_points := [[97]]; wc_limbs := [(0, 65536)%Z]; wc_colors := [] |} ];
                   w_fps := 0; w_shape := [1; 1; 1; 1]; w_data := [0]; w_cshape := [1; 1; 1]; w_conf := [0] |} = false.
Proof. exact representable_examples. Qed.
Print Assumptions C01_representable_examples.
Theorem C01_memo_initially_ok : MemoOK None.
Proof. exact I. Qed.
Print Assumptions C01_memo_initially_ok.
Theorem C01_memo_ok_preserved :
  forall legacy m buffer a, MemoOK m -> MemoOK (snd (read_bytes legacy m buffer a)).
Proof. exact read_bytes_memo_ok. Qed.
Print Assumptions C01_memo_ok_preserved.

(* non-vacuity *)
Theorem C01_example_accepted : exists bs, write_pose ex_pose = Ok bs /\ lenN bs = 148.
Proof. exact ex_pose_written. Qed.
Print Assumptions C01_example_accepted.
Theorem C01_example_hypotheses : wf_arrays ex_pose /\ 1 <= nth 3 (w_shape ex_pose) 0.
Proof. exact ex_pose_wf. Qed.
Print Assumptions C01_example_hypotheses.
Theorem C01_example_empty_accepted : exists bs, write_pose ex_empty = Ok bs.
Proof. exact ex_empty_written. Qed.
Print Assumptions C01_example_empty_accepted.
Theorem C01_example_memo : exists m, m <> None /\ MemoOK m.
Proof. exact ex_memo_ok. Qed.
Print Assumptions C01_example_memo.

(* ties to the current source: coq/gen/Gen_Codec.v is regenerated from /repo on every run; the expected values
   (the exp_ constants of proofs/CodecGenTie.v) are the literals the model was transcribed from *)
Theorem C01_tie_struct_table : Gen_Codec.struct_table = exp_struct_table.
Proof. exact struct_table_tie. Qed.
Print Assumptions C01_tie_struct_table.
Theorem C01_tie_version_literal : Gen_Codec.version_literal = exp_version_literal.
Proof. exact version_literal_tie. Qed.
Print Assumptions C01_tie_version_literal.
Theorem C01_tie_write_str_kind : Gen_Codec.write_str_kind = exp_write_str_kind.
Proof. exact write_str_kind_tie. Qed.
Print Assumptions C01_tie_write_str_kind.
Theorem C01_tie_component_write : Gen_Codec.component_write = exp_component_write.
Proof. exact component_write_tie. Qed.
Print Assumptions C01_tie_component_write.
Theorem C01_tie_dimensions_write : Gen_Codec.dimensions_write = exp_dimensions_write.
Proof. exact dimensions_write_tie. Qed.
Print Assumptions C01_tie_dimensions_write.
Theorem C01_tie_header_write : Gen_Codec.header_write = exp_header_write.
Proof. exact header_write_tie. Qed.
Print Assumptions C01_tie_header_write.
Theorem C01_tie_component_read : Gen_Codec.component_read = exp_component_read.
Proof. exact component_read_tie. Qed.
Print Assumptions C01_tie_component_read.
Theorem C01_tie_dimensions_read : Gen_Codec.dimensions_read = exp_dimensions_read.
Proof. exact dimensions_read_tie. Qed.
Print Assumptions C01_tie_dimensions_read.
Theorem C01_tie_dimensions_init : Gen_Codec.dimensions_init = exp_dimensions_init.
Proof. exact dimensions_init_tie. Qed.
Print Assumptions C01_tie_dimensions_init.
Theorem C01_tie_header_read : Gen_Codec.header_read = exp_header_read.
Proof. exact header_read_tie. Qed.
Print Assumptions C01_tie_header_read.
Theorem C01_tie_header_num_dims : Gen_Codec.header_num_dims = exp_header_num_dims.
Proof. exact header_num_dims_tie. Qed.
Print Assumptions C01_tie_header_num_dims.
Theorem C01_tie_header_total_points : Gen_Codec.header_total_points = exp_header_total_points.
Proof. exact header_total_points_tie. Qed.
Print Assumptions C01_tie_header_total_points.
Theorem C01_tie_body_write : Gen_Codec.body_write = exp_body_write.
Proof. exact body_write_tie. Qed.
Print Assumptions C01_tie_body_write.
Theorem C01_tie_numpy_body_init : Gen_Codec.numpy_body_init = exp_numpy_body_init.
Proof. exact numpy_body_init_tie. Qed.
Print Assumptions C01_tie_numpy_body_init.
Theorem C01_tie_body_read_dispatch : Gen_Codec.body_read_dispatch = exp_body_read_dispatch.
Proof. exact body_read_dispatch_tie. Qed.
Print Assumptions C01_tie_body_read_dispatch.
Theorem C01_tie_body_read_v0_2 : Gen_Codec.body_read_v0_2 = exp_body_read_v0_2.
Proof. exact body_read_v0_2_tie. Qed.
Print Assumptions C01_tie_body_read_v0_2.
Theorem C01_tie_body_read_frames : Gen_Codec.body_read_frames = exp_body_read_frames.
Proof. exact body_read_frames_tie. Qed.
Print Assumptions C01_tie_body_read_frames.
Theorem C01_tie_pose_write : Gen_Codec.pose_write = exp_pose_write.
Proof. exact pose_write_tie. Qed.
Print Assumptions C01_tie_pose_write.

(* ---------- class structure of the current source: overrides and attribute hooks (proofs/ClassesTie.v) ---------- *)
Require Import ClassesTie.
Theorem C01_tie_class_numpy_body : over_numpy_body = Some exp_over_numpy_body.
Proof. exact over_numpy_body_tie. Qed.
Print Assumptions C01_tie_class_numpy_body.
Theorem C01_tie_class_subclasses : subclasses = exp_subclasses.
Proof. exact subclasses_tie. Qed.
Print Assumptions C01_tie_class_subclasses.

