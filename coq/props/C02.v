(* C02 - written files follow the published v0.2 byte layout exactly.
   Only statements, closed by [exact], each followed by Print Assumptions. *)
From Coq Require Import ZArith NArith List Bool.
Require Import ListN Result Bytes Prog Codec PoseRead CodecRT PoseReadLemmas C02_SpecV02 C02_SpecProofs CodecGenTie C01_Examples.
Import ListNotations.
Open Scope N_scope.

(* Writer direction: for EVERY pose the writer accepts, the bytes are exactly those the independent encoder
   (model/C02_SpecV02.v: a flat field list transcribed from docs/specs/v0.2.md) produces for the pose's content
   [canon p] - little-endian fields in the documented order, 16-bit length-prefixed UTF-8 strings, float fps,
   32-bit frame count, 16-bit people count, coordinate block then confidence block. *)
Theorem C02_writer_matches_spec :
  forall p bs, write_pose p = Ok bs -> spec_encode (canon p) = Some bs.
Proof. exact writer_matches_spec. Qed.
Print Assumptions C02_writer_matches_spec.

(* Reader direction, partial: for the content of every accepted pose, the spec encoder's output is read back to
   exactly that content under every memo state.  (Not proved: contents that are not the image of an accepted
   pose - the converse "spec-encodable => accepted" - and byte-for-byte re-writing of a pose just read, which
   needs float32 -> double -> float32 to be the identity; both are covered by the correspondence run.) *)
Theorem C02_reader_reads_spec_partial :
  forall legacy m p bs, MemoOK m -> write_pose p = Ok bs -> wf_arrays p -> 1 <= nth 3 (w_shape p) 0 ->
    exists sb, spec_encode (canon p) = Some sb /\ fst (read_bytes legacy m sb no_args) = Ok (canon p).
Proof. exact reader_reads_spec_of_written. Qed.
Print Assumptions C02_reader_reads_spec_partial.

(* non-vacuity *)
Theorem C02_example : exists bs, write_pose ex_pose = Ok bs /\ lenN bs = 148.
Proof. exact ex_pose_written. Qed.
Print Assumptions C02_example.

(* ties to the current source *)
Theorem C02_tie_struct_table : Gen_Codec.struct_table = exp_struct_table.
Proof. exact struct_table_tie. Qed.
Print Assumptions C02_tie_struct_table.
Theorem C02_tie_version_literal : Gen_Codec.version_literal = exp_version_literal.
Proof. exact version_literal_tie. Qed.
Print Assumptions C02_tie_version_literal.
Theorem C02_tie_write_str_kind : Gen_Codec.write_str_kind = exp_write_str_kind.
Proof. exact write_str_kind_tie. Qed.
Print Assumptions C02_tie_write_str_kind.
Theorem C02_tie_component_write : Gen_Codec.component_write = exp_component_write.
Proof. exact component_write_tie. Qed.
Print Assumptions C02_tie_component_write.
Theorem C02_tie_dimensions_write : Gen_Codec.dimensions_write = exp_dimensions_write.
Proof. exact dimensions_write_tie. Qed.
Print Assumptions C02_tie_dimensions_write.
Theorem C02_tie_header_write : Gen_Codec.header_write = exp_header_write.
Proof. exact header_write_tie. Qed.
Print Assumptions C02_tie_header_write.
Theorem C02_tie_body_write : Gen_Codec.body_write = exp_body_write.
Proof. exact body_write_tie. Qed.
Print Assumptions C02_tie_body_write.
Theorem C02_tie_pose_write : Gen_Codec.pose_write = exp_pose_write.
Proof. exact pose_write_tie. Qed.
Print Assumptions C02_tie_pose_write.
Theorem C02_tie_component_read : Gen_Codec.component_read = exp_component_read.
Proof. exact component_read_tie. Qed.
Print Assumptions C02_tie_component_read.
Theorem C02_tie_body_read_v0_2 : Gen_Codec.body_read_v0_2 = exp_body_read_v0_2.
Proof. exact body_read_v0_2_tie. Qed.
Print Assumptions C02_tie_body_read_v0_2.
