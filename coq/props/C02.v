(* C02 - written files follow the published v0.2 byte layout exactly.
   Only statements, closed by [exact], each followed by Print Assumptions. *)
From Coq Require Import ZArith NArith List Bool.
Require Import ListN Result Bytes F32 Prog Codec PoseRead CodecRT PoseReadLemmas C02_SpecV02 C02_SpecProofs CodecGenTie C01_Examples
  C02_Content C02_F32RT C02_Converse C02_Examples C04_Spec C04_SpecRT.
Import ListNotations.
Open Scope N_scope.

(* Writer direction: for EVERY pose the writer accepts, the bytes are exactly those the independent encoder
   (model/C02_SpecV02.v: a flat field list transcribed from docs/specs/v0.2.md) produces for the pose's content
   [canon p] - little-endian fields in the documented order, 16-bit length-prefixed UTF-8 strings, float fps,
   32-bit frame count, 16-bit people count, coordinate block then confidence block. *)
Theorem C02_writer_matches_spec :
  forall p bs, write_pose p = Ok bs -> spec_encode (canon p) = Some bs.
Proof. exact writer_matches_spec. Qed.
Print Assumptions C02_writer_matches_spec.

(* Reader direction for the content of an accepted pose (kept from the first version of this check; it is the special
   case c = canon p of C02_reader_reads_spec below, which has no "accepted pose" hypothesis any more). *)
Theorem C02_reader_reads_spec_partial :
  forall legacy m p bs, MemoOK m -> write_pose p = Ok bs -> wf_arrays p -> 1 <= nth 3 (w_shape p) 0 ->
    exists sb, spec_encode (canon p) = Some sb /\ fst (read_bytes legacy m sb no_args) = Ok (canon p).
Proof. exact reader_reads_spec_of_written. Qed.
Print Assumptions C02_reader_reads_spec_partial.

(* non-vacuity *)
Theorem C02_example : exists bs, write_pose ex_pose = Ok bs /\ lenN bs = 148.
Proof. exact ex_pose_written. Qed.
Print Assumptions C02_example.

(* What the independent encoder's success means for a content: every count and value fits its field, every string is
   UTF-8 encodable in at most 65535 bytes, every float is a 32-bit word - and the file is the header bytes followed by
   fps, frame count, people count, the coordinate block and the confidence block.  So "spec_encode c = Some sb" is the
   only range hypothesis the theorems below need. *)
Theorem C02_spec_encode_success :
  forall c sb, spec_encode c = Some sb ->
    wf_header (p_header c) /\ b_fps (p_body c) < 4294967296 /\ nth 0 (b_shape (p_body c)) 0 < 4294967296 /\
    u16 (nth 1 (b_shape (p_body c)) 0) /\ all_words (b_data (p_body c)) /\ all_words (b_conf (p_body c)) /\
    sb = spec_header (p_header c) ++ spec_body_bytes (p_body c).
Proof. exact spec_encode_inv. Qed.
Print Assumptions C02_spec_encode_success.

(* Reader direction (the converse): for EVERY content c the independent encoder encodes - not only the images of
   accepted poses - whose shape is coherent with its header (model/C02_Content.v [coherent]: version read as 0.2,
   shape = (frames, people, points of the header, dimensions of the header >= 1), block lengths = the shape's), under
   every legacy decoder and every consistent memo state, Pose.read returns exactly c; the only derived field is the
   mask (missing iff the confidence word is +0 or -0).  NaN payloads, infinities, any version word that rounds to 0.2
   are read back bit for bit.  Trailing bytes after the file do not matter. *)
Theorem C02_reader_reads_spec :
  forall legacy m c sb, MemoOK m -> coherent c = true -> spec_encode c = Some sb ->
    fst (read_bytes legacy m sb no_args) = Ok (with_derived_mask c).
Proof. exact reader_reads_spec. Qed.
Print Assumptions C02_reader_reads_spec.
Theorem C02_reader_reads_spec_trailing :
  forall legacy m c sb x, MemoOK m -> coherent c = true -> spec_encode c = Some sb ->
    fst (read_bytes legacy m (sb ++ x) no_args) = Ok (with_derived_mask c).
Proof. exact reader_reads_spec_trailing. Qed.
Print Assumptions C02_reader_reads_spec_trailing.
(* non-vacuity: a coherent, encodable content that is the image of NO written pose (foreign version word, NaN payloads,
   infinite frame rate, no mask), with a memo holding another file's header *)
Theorem C02_reader_example :
  exists m sb, m <> None /\ MemoOK m /\ coherent ex_foreign = true /\ spec_encode ex_foreign = Some sb /\
    lenN sb = 148 /\ (forall p, canon p <> ex_foreign) /\ with_derived_mask ex_foreign <> ex_foreign.
Proof. exact ex_foreign_ok. Qed.
Print Assumptions C02_reader_example.

(* the coherence hypothesis cannot be dropped: the encoding does not determine where the coordinate block ends *)
Theorem C02_coherence_needed :
  exists c1 c2 sb, coherent c1 = true /\ coherent c2 = false /\ b_conf (p_body c1) <> b_conf (p_body c2) /\
    spec_encode c1 = Some sb /\ spec_encode c2 = Some sb.
Proof. exact ex_coherence_needed. Qed.
Print Assumptions C02_coherence_needed.

(* float32 -> Python float / float64 -> float32 is the identity on EVERY 32-bit word that is not a NaN, and maps every
   NaN to the quiet NaN 0x7fc00000 (all 2^32 words, from the definitions of F32.v / SpecFloat, no sweep);
   struct.pack('<f') of the widened frame rate never overflows. *)
Theorem C02_f32_widen_narrow :
  forall w, w < 4294967296 -> f64_to_f32 (f32_to_f64 w) = canon_nan32 w /\ pack_f32 (f32_to_f64 w) = Some (canon_nan32 w).
Proof. exact f32_widen_both. Qed.
Print Assumptions C02_f32_widen_narrow.

(* Re-writing a pose that was just read from such a file: Pose.write accepts it, and its bytes are the independent
   encoding of the same content with the writer's version word 0.2 and every NaN replaced by the quiet NaN. *)
Theorem C02_rewrite_canonical :
  forall legacy m c sb q, MemoOK m -> coherent c = true -> spec_encode c = Some sb ->
    fst (read_bytes legacy m sb no_args) = Ok q ->
    exists sb', write_pose (wpose_of_read q) = Ok sb' /\ spec_encode (rewritten c) = Some sb'.
Proof. exact rewrite_canonical. Qed.
Print Assumptions C02_rewrite_canonical.
(* Re-write identity: when the file carries the version word 0.2 (what an encoder of the v0.2 document writes) and no
   NaN other than the quiet NaN, re-writing the pose just read reproduces the file byte for byte.
   The NaN hypothesis is necessary in the model (C02_rewrite_nan_exception): F32.v canonicalises NaN payloads, as the
   harness does when it compares float words; on hardware a quiet NaN keeps its payload, a signalling NaN is quieted. *)
Theorem C02_rewrite_identity :
  forall legacy m c sb q, MemoOK m -> coherent c = true ->
    h_version (p_header c) = version_word -> nans_canonical c = true -> spec_encode c = Some sb ->
    fst (read_bytes legacy m sb no_args) = Ok q -> write_pose (wpose_of_read q) = Ok sb.
Proof. exact rewrite_identity. Qed.
Print Assumptions C02_rewrite_identity.
(* non-vacuity: the content of the C01 example pose (148 bytes; NaN, -0.0, subnormal data) satisfies every hypothesis *)
Theorem C02_rewrite_example :
  exists sb, coherent ex_content = true /\ h_version (p_header ex_content) = version_word /\
    nans_canonical ex_content = true /\ spec_encode ex_content = Some sb /\ lenN sb = 148.
Proof. exact ex_content_ok. Qed.
Print Assumptions C02_rewrite_example.
Theorem C02_rewrite_nan_exception :
  exists c sb q, coherent c = true /\ h_version (p_header c) = version_word /\ spec_encode c = Some sb /\
    fst (read_bytes no_legacy None sb no_args) = Ok q /\
    exists sb', write_pose (wpose_of_read q) = Ok sb' /\ sb' <> sb /\ lenN sb' = lenN sb.
Proof. exact ex_nan_payload_rewritten. Qed.
Print Assumptions C02_rewrite_nan_exception.

(* ties to the current source *)
Theorem C02_tie_struct_table : Gen_Codec.struct_table = exp_struct_table.
Proof. exact struct_table_tie. Qed.
Print Assumptions C02_tie_struct_table.
Theorem C02_tie_version_literal : Gen_Codec.version_literal = exp_version_literal.
Proof. exact version_literal_tie. Qed.
Print Assumptions C02_tie_version_literal.
Theorem C02_tie_write_str_kind : Gen_Codec.write_str_kind = exp_write_str_kind.
Proof. exact write_str_kind_tie. Qed.
Print Assumptions C02_tie_write_str_kind.
Theorem C02_tie_component_write : Gen_Codec.component_write = exp_component_write.
Proof. exact component_write_tie. Qed.
Print Assumptions C02_tie_component_write.
Theorem C02_tie_dimensions_write : Gen_Codec.dimensions_write = exp_dimensions_write.
Proof. exact dimensions_write_tie. Qed.
Print Assumptions C02_tie_dimensions_write.
Theorem C02_tie_header_write : Gen_Codec.header_write = exp_header_write.
Proof. exact header_write_tie. Qed.
Print Assumptions C02_tie_header_write.
Theorem C02_tie_body_write : Gen_Codec.body_write = exp_body_write.
Proof. exact body_write_tie. Qed.
Print Assumptions C02_tie_body_write.
Theorem C02_tie_pose_write : Gen_Codec.pose_write = exp_pose_write.
Proof. exact pose_write_tie. Qed.
Print Assumptions C02_tie_pose_write.
Theorem C02_tie_component_read : Gen_Codec.component_read = exp_component_read.
Proof. exact component_read_tie. Qed.
Print Assumptions C02_tie_component_read.
Theorem C02_tie_body_read_v0_2 : Gen_Codec.body_read_v0_2 = exp_body_read_v0_2.
Proof. exact body_read_v0_2_tie. Qed.
Print Assumptions C02_tie_body_read_v0_2.
