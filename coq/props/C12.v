(* C12 - every pose reachable through the API stays well-formed and serialisable.
   Model: model/C12_Model.v (abstract pose state + operation language).
   [Inv] (proofs/C12_Inv.v): header non-empty, every component has format length D+1, body shape
   (F, P, total header points, D), confidence shape (F, P, total header points), and a cell is masked - in every
   dimension - iff its confidence is zero.  [pre] holds the property's preconditions the invariant depends on
   (selection keeps a component; normalisation's reference points observed; non-zero deviation); the remaining ones
   (two frames for interpolation, an observed point for focus, valid arguments) make [step] return [Err]. *)
From Coq Require Import String List Arith Bool ZArith NArith.
Require Import ListN Result Bytes F32 Tensor Codec.
Require Import C12_Model C12_Tab C12_Inv C12_Reach C12_Ser C12_Progress C12_Examples C12_GenTie Gen_C12.
Import ListNotations.
Open Scope nat_scope.

(* ---- clause 1-3: one step, then any number of steps (no length bound) ---- *)
Theorem inv_preserved : forall st o st', Inv st -> pre st o = true -> step st o = Ok st' -> Inv st'.
Proof. exact C12_Reach.inv_preserved. Qed.
Print Assumptions inv_preserved.

Theorem reachable_inv : forall s0 st, Inv s0 -> reachable s0 st -> Inv st.
Proof. exact C12_Reach.reachable_inv. Qed.
Print Assumptions reachable_inv.

Theorem run_inv : forall ops st st', Inv st -> run st ops = Ok st' -> Inv st'.
Proof. exact C12_Reach.run_inv. Qed.
Print Assumptions run_inv.

(* well-formed start poses: whatever the NumPy constructor builds over a header with equal format lengths *)
Theorem start_state_inv : forall h F P T D cz st,
  h <> [] -> Forall (fun c => c_fmt c = S D) h -> total_points h = T -> length cz = F * P * T ->
  start_state h F P T D cz = Ok st -> Inv st.
Proof. exact C12_Reach.start_state_inv. Qed.
Print Assumptions start_state_inv.

(* [Inv] gives the statement's wording: header dims (max format length - 1) and header points are the body's *)
Theorem inv_as_stated : forall st, Inv st -> exists F P D, num_dims (s_hdr st) = Some (Z.of_nat D) /\
  shape (s_mask st) = [F; P; total_points (s_hdr st); D] /\ shape (s_cz st) = [F; P; total_points (s_hdr st)].
Proof. exact C12_Reach.inv_num_dims. Qed.
Print Assumptions inv_as_stated.

(* the predicate the runner evaluates after every step is the invariant *)
Theorem invb_sound : forall st, invb st = true -> Inv st.
Proof. exact C12_Reach.invb_sound. Qed.
Print Assumptions invb_sound.
Theorem invb_complete : forall st, Inv st -> invb st = true.
Proof. exact C12_Examples.invb_complete. Qed.
Print Assumptions invb_complete.

(* ---- no exception under the property's preconditions (NumPy bodies; selection's name arguments excepted: C11) ---- *)
Theorem progress_np : forall st o, Inv st -> s_be st = Np -> expects_ok_np st o = true -> exists st', step st o = Ok st'.
Proof. exact C12_Progress.progress_np. Qed.
Print Assumptions progress_np.
Example bbox_3d_ok : Inv ex3_st /\ s_be ex3_st = Np /\ expects_ok_np ex3_st BBox = true
                     /\ exists st', step ex3_st BBox = Ok st' /\ Inv st' /\ shape (s_mask st') = [2; 1; 4; 3].
Proof. exact C12_Examples.bbox_3d_ok. Qed.
Print Assumptions bbox_3d_ok.

(* ---- clause 4 (NumPy bodies): serialisable.  Against Codec.write_pose (model of Pose.write): all four sanity checks
   pass for every concrete pose over a reachable state, and the mask a reader derives from the written confidences
   (Codec.mk_body, float32 zero test) is the pose's mask.  PARTIAL: that decoding the written bytes returns the
   float32-rounded values themselves is C01's write_read_roundtrip (props/C01.v), not re-proved here. *)
Theorem reachable_serialisable_partial : forall s0 st wp,
  Inv s0 -> reachable s0 st -> abstracts st wp ->
  write_pose wp = (do h <- write_header (w_dims wp) (w_comps wp); do b <- write_body wp; Ok (h ++ b)%list)
  /\ forall F P T D, shape (s_mask st) = [F; P; T; D] ->
     forall fps dat b, mk_body fps (N.of_nat F) (N.of_nat P) (N.of_nat T) (Z.of_nat D) dat (map f64_to_f32 (w_conf wp)) = Ok b ->
     forall f p t d, f < F -> p < P -> t < T -> d < D ->
       get4 (s_mask st) f p t d = nth (ravel [F; P; T] [f; p; t]) (b_mask b) false.
Proof. exact C12_Ser.reachable_serialisable. Qed.
Print Assumptions reachable_serialisable_partial.

(* ---- non-vacuity ---- *)
Example ex_start : start_state ex_hdr 3 1 3 2 ex_cz = Ok ex_st /\ Inv ex_st.
Proof. exact C12_Examples.ex_start. Qed.
Print Assumptions ex_start.
Example ex_run : exists st', run ex_st ex_ops = Ok st' /\ reachable ex_st st' /\ Inv st' /\ s_be st' = Torch /\ shape (s_mask st') = [2; 1; 2; 2].
Proof. exact C12_Examples.ex_run. Qed.
Print Assumptions ex_run.
Example ex_tf : exists st', run ex_st [ToTensorflow; Normalize 0 1; NormalizeDistribution false [false; false]; SliceStep (-1)%Z; DropoutNormal []] = Ok st'
                            /\ Inv st' /\ s_be st' = Tf.
Proof. exact C12_Examples.ex_tf. Qed.
Print Assumptions ex_tf.
Example ex_abstracts : abstracts ex_st ex_wp.
Proof. exact C12_Examples.ex_abstracts. Qed.
Print Assumptions ex_abstracts.
Example ex_serialisable : exists bs, write_pose ex_wp = Ok bs /\ bs <> [].
Proof. exact C12_Examples.ex_serialisable. Qed.
Print Assumptions ex_serialisable.

(* ---- the preconditions are needed (each operation *can* leave mask and confidence disagreeing outside them) ---- *)
Example normalize_needs_observed_points :
  exists st', Inv ex2_st /\ pre ex2_st (Normalize 1 2) = false /\ step ex2_st (Normalize 1 2) = Ok st' /\ ~ Inv st'.
Proof. exact C12_Examples.normalize_needs_observed_points. Qed.
Print Assumptions normalize_needs_observed_points.
Example normalize_distribution_needs_deviation :
  exists st', Inv ex_st /\ step ex_st (NormalizeDistribution true [false; true; false; false; false; false]) = Ok st' /\ ~ Inv st'.
Proof. exact C12_Examples.normalize_distribution_needs_deviation. Qed.
Print Assumptions normalize_distribution_needs_deviation.
Example selection_needs_a_component :
  exists st', step ex_st (GetComponents [] None) = Ok st' /\ ~ Inv st' /\ num_dims (s_hdr st') = None.
Proof. exact C12_Examples.selection_needs_a_component. Qed.
Print Assumptions selection_needs_a_component.

(* ---- refuted for headers mixing format lengths: the invariant as literally stated (header dims = max format
   length - 1) is not preserved by selection; hence "equal format lengths" in [Inv] (2-D poses, 3-D poses) ---- *)
Theorem selection_mixed_formats_refuted :
  exists st o st', inv_stmt_b st = true /\ pre st o = true /\ step st o = Ok st' /\ inv_stmt_b st' = false
                   /\ num_dims (s_hdr st') = Some 2%Z /\ shape (s_mask st') = [1; 1; 1; 3].
Proof. exact C12_Examples.selection_mixed_formats_refuted. Qed.
Print Assumptions selection_mixed_formats_refuted.

(* ---- ties to the facts regenerated from the source on this run (gen/Gen_C12.v) ---- *)
Theorem pass_through_tie : map nm Gen_C12.pass_through_methods = C12_Model.pass_through_methods.
Proof. exact C12_GenTie.pass_through_tie. Qed.
Print Assumptions pass_through_tie.
Theorem pass_through_ops_tie :
  map meth_name [M_augment2d; M_flip; M_interpolate; M_slice_step; M_tensorflow; M_torch] = map nm Gen_C12.pass_through_methods.
Proof. exact C12_GenTie.pass_through_ops_tie. Qed.
Print Assumptions pass_through_ops_tie.
Theorem header_attrs_tie : map nm Gen_C12.header_attrs = C12_Model.header_attrs.
Proof. exact C12_GenTie.header_attrs_tie. Qed.
Print Assumptions header_attrs_tie.
Theorem dispatcher_keeps_header :
  forallb (fun m => negb (mem (nm m) (map nm Gen_C12.header_attrs))) Gen_C12.pass_through_methods = true.
Proof. exact C12_GenTie.dispatcher_keeps_header. Qed.
Print Assumptions dispatcher_keeps_header.
Theorem box_points_tie : map nm Gen_C12.box_points = C12_Model.box_points.
Proof. exact C12_GenTie.box_points_tie. Qed.
Print Assumptions box_points_tie.
Theorem bbox_rows_tie : length Gen_C12.bbox_stack = bbox_rows /\ length Gen_C12.box_points = bbox_rows.
Proof. exact C12_GenTie.bbox_rows_tie. Qed.
Print Assumptions bbox_rows_tie.
Theorem points_dims_tie : Gen_C12.points_dims = [2; 1; 0; 3] /\ Gen_C12.confidence_reshape = [2; 1; 0].
Proof. exact C12_GenTie.points_dims_tie. Qed.
Print Assumptions points_dims_tie.
Theorem numpy_mask_rule_tie :
  Gen_C12.numpy_mask_rule = ["=="; "0"; "data.shape[-1]"]%string /\ Gen_C12.numpy_body_init_guard = ["isinstance(data, np.ndarray)"]%string.
Proof. exact C12_GenTie.numpy_mask_rule_tie. Qed.
Print Assumptions numpy_mask_rule_tie.
Theorem torch_mask_rule_tie : Gen_C12.torch_mask_rule = ["!="; "0"; "data.shape[-1]"]%string.
Proof. exact C12_GenTie.torch_mask_rule_tie. Qed.
Print Assumptions torch_mask_rule_tie.
Theorem tf_mask_rule_tie : Gen_C12.tf_mask_rule = ["!="; "0"; "data.shape[-1]"]%string.
Proof. exact C12_GenTie.tf_mask_rule_tie. Qed.
Print Assumptions tf_mask_rule_tie.
Theorem pose_write_checks_tie :
  Gen_C12.pose_write_checks =
    ["len(self.body.data.shape) != 4"; "header_dims != body_dims"; "header_points != body_points";
     "tuple(self.body.confidence.shape) != tuple(self.body.data.shape[:3])"]%string.
Proof. exact (proj1 C12_GenTie.pose_write_checks_tie). Qed.
Print Assumptions pose_write_checks_tie.
Theorem pose_bbox_tie : Gen_C12.pose_bbox =
  ["body = self.body.bbox(self.header)"; "header = self.header.bbox()"; "return Pose(header=header, body=body)"]%string.
Proof. exact C12_GenTie.pose_bbox_tie. Qed.
Print Assumptions pose_bbox_tie.
Theorem transcribed_methods_tie :
  Gen_C12.pose_getattr = C12_GenTie.getattr_literal /\ Gen_C12.bbox_stack = ["ma.min(c, axis=0)"; "ma.max(c, axis=0)"]%string
  /\ Gen_C12.header_bbox_component_args = ["c.name"; "box_points"; "box_limbs"; "box_colors"; "c.format"]%string
  /\ Gen_C12.header_total_points = ["return sum(map(lambda c: len(c.points), self.components))"]%string
  /\ Gen_C12.header_num_dims = ["return max([len(c.format) for c in self.components]) - 1"]%string
  /\ Gen_C12.pose_copy = ["return self.__class__(deepcopy(self.header), self.body.copy())"]%string
  /\ Gen_C12.body_slice_step = C12_GenTie.slice_step_literal /\ Gen_C12.body_select_frames = C12_GenTie.select_frames_literal
  /\ Gen_C12.body_frame_dropout_given_percent = C12_GenTie.dropout_literal
  /\ Gen_C12.numpy_body_flip = C12_GenTie.flip_literal /\ Gen_C12.numpy_body_get_points = C12_GenTie.get_points_literal
  /\ Gen_C12.numpy_body_matmul = ["data = ma.dot(self.data, matrix)"; "return NumPyPoseBody(self.fps, data, self.confidence)"]%string
  /\ Gen_C12.numpy_body_copy = ["return type(self)(fps=self.fps, data=self.data.copy(), confidence=self.confidence.copy())"]%string.
Proof. exact C12_GenTie.transcribed_methods_tie. Qed.
Print Assumptions transcribed_methods_tie.
Theorem in_place_methods_tie :
  Gen_C12.pose_focus = C12_GenTie.focus_literal /\ Gen_C12.pose_normalize = C12_GenTie.normalize_literal
  /\ Gen_C12.pose_normalize_distribution = C12_GenTie.normalize_distribution_literal.
Proof. exact C12_GenTie.in_place_methods_tie. Qed.
Print Assumptions in_place_methods_tie.

(* ---------- class structure of the current source: overrides and attribute hooks (proofs/ClassesTie.v) ---------- *)
Require Import ClassesTie.
Theorem C12_tie_class_numpy_body : over_numpy_body = Some exp_over_numpy_body.
Proof. exact over_numpy_body_tie. Qed.
Print Assumptions C12_tie_class_numpy_body.
Theorem C12_tie_class_torch_body : over_torch_body = Some exp_over_torch_body.
Proof. exact over_torch_body_tie. Qed.
Print Assumptions C12_tie_class_torch_body.
Theorem C12_tie_class_tf_body : over_tf_body = Some exp_over_tf_body.
Proof. exact over_tf_body_tie. Qed.
Print Assumptions C12_tie_class_tf_body.
Theorem C12_tie_class_subclasses : subclasses = exp_subclasses.
Proof. exact subclasses_tie. Qed.
Print Assumptions C12_tie_class_subclasses.
Theorem C12_tie_class_attr_hooks : Gen_Classes.attr_hooks = exp_attr_hooks.
Proof. exact attr_hooks_tie. Qed.
Print Assumptions C12_tie_class_attr_hooks.

(* ---- the write / read round trip of the last clause goes through the Python writer and reader: their statement lists are tied
   here as in C01 (an edit of Pose.write, PoseHeader.read, PoseBody.read ... re-opens this property too) ---- *)
Require Import CodecGenTie.
Theorem C12_tie_py_pose_write : Gen_Codec.pose_write = exp_pose_write.
Proof. exact pose_write_tie. Qed.
Print Assumptions C12_tie_py_pose_write.
Theorem C12_tie_py_header_write : Gen_Codec.header_write = exp_header_write.
Proof. exact header_write_tie. Qed.
Print Assumptions C12_tie_py_header_write.
Theorem C12_tie_py_body_write : Gen_Codec.body_write = exp_body_write.
Proof. exact body_write_tie. Qed.
Print Assumptions C12_tie_py_body_write.
Theorem C12_tie_py_pose_read : Gen_Codec.pose_read = exp_pose_read.
Proof. exact pose_read_tie. Qed.
Print Assumptions C12_tie_py_pose_read.
Theorem C12_tie_py_header_read : Gen_Codec.header_read = exp_header_read.
Proof. exact header_read_tie. Qed.
Print Assumptions C12_tie_py_header_read.
Theorem C12_tie_py_body_read_dispatch : Gen_Codec.body_read_dispatch = exp_body_read_dispatch.
Proof. exact body_read_dispatch_tie. Qed.
Print Assumptions C12_tie_py_body_read_dispatch.
Theorem C12_tie_py_body_read_v0_2 : Gen_Codec.body_read_v0_2 = exp_body_read_v0_2.
Proof. exact body_read_v0_2_tie. Qed.
Print Assumptions C12_tie_py_body_read_v0_2.
