Require Import C12_Model.
Theorem placeholder : True. Proof. exact I. Qed.
Print Assumptions placeholder.
