(* C16 - Frame selection, stepping and dropout return real frames in order.
   Theorems about the model coq/model/C16_Frames.v (statement by statement after pose_body.py:360-378,530-620,
   tensorflow/pose_body.py:52-143 as repaired by proposed-fixes/F10-tf-dropout.diff, pose.py:191-227,346-383).
   A body is fps + three parallel per-frame channels (values, validity, confidence); [body_at x b idx] is the body made of
   the frames idx of b, in that order, on all three channels, with b's frame rate.  Randomness is an argument:
   [s] = what random.sample returned ([possible_draw]: right size, duplicate-free, in range), [perm] = what
   tf.random.shuffle returned (a permutation of range n).  No bound on the number of frames except where stated. *)
From Coq Require Import ZArith List Bool Arith Sorted Permutation SpecFloat QArith_base.
Require Import Result F32 C16_Frames C16_Run C16_Lists C16_Select C16_Dropout C16_Cap C16_CapAll C16_TF C16_GenTie Gen_C16.
Import ListNotations.
Local Open Scope nat_scope.

(* ---- selecting frames: exactly the requested frames, in the requested order, on every backend ---- *)
Theorem select_exact : forall A (x : A) be (b : body A) idx,
  wf_body b -> Forall (fun i => i < frames b) idx -> (be = TF -> idx <> []) ->
  select_frames be b (map Z.of_nat idx) = Ok (body_at x b idx).
Proof. exact @C16_Select.select_exact. Qed.
Print Assumptions select_exact.
(* (tf.gather of an empty Python list raises: the only excluded case.)  Whatever is returned is the requested frames: *)
Theorem select_returns_only_requested : forall A (x : A) be (b : body A) idx r,
  select_frames be b (map Z.of_nat idx) = Ok r -> r = body_at x b idx /\ Forall (fun i => i < frames b) idx.
Proof. exact @C16_Select.select_ok_inv. Qed.
Print Assumptions select_returns_only_requested.
Theorem select_out_of_range_refused : forall A be (b : body A) idx i,
  wf_body b -> In i idx -> frames b <= i -> exists e, select_frames be b (map Z.of_nat idx) = Err e.
Proof. exact @C16_Select.select_out_of_range. Qed.
Print Assumptions select_out_of_range_refused.
Example select_example :
  select_frames Torch (mkB (sf64_of_Z 30) [10;11;12;13] [20;21;22;23] [30;31;32;33]) [3;1;1]%Z
  = Ok (mkB (sf64_of_Z 30) [13;11;11] [23;21;21] [33;31;31]).
Proof. exact C16_Select.select_example. Qed.
Print Assumptions select_example.

(* ---- stepping by k >= 1: frames 0, k, 2k, ... (all multiples of k below n) and fps / k in binary64 ---- *)
Theorem step_frames_and_fps : forall A (x : A) be (b : body A) (k : positive) r,
  wf_body b -> slice_step be b (Zpos k) = Ok r ->
  r = body_at x (mkB (sf64_div (fps b) (sf64_of_Z (Zpos k))) (dat b) (msk b) (cnf b)) (step_indexes (frames b) (Pos.to_nat k)).
Proof. exact @C16_Select.step_frames_and_fps. Qed.
Print Assumptions step_frames_and_fps.
Theorem step_indexes_are_the_multiples : forall n k, 1 <= k ->
  forall i, In i (step_indexes n k) <-> (exists j, i = j * k /\ i < n).
Proof. exact C16_Select.step_indexes_spec. Qed.
Print Assumptions step_indexes_are_the_multiples.
Theorem step_returns : forall A be (b : body A) (k : positive),
  is_inf_sf (sf64_of_Z (Zpos k)) = false -> exists r, slice_step be b (Zpos k) = Ok r.
Proof. exact @C16_Select.step_ok. Qed.
Print Assumptions step_returns.
Example step_example :
  slice_step TF (mkB (sf64_of_Z 30) [10;11;12;13;14] [20;21;22;23;24] [30;31;32;33;34]) 2
  = Ok (mkB (sf64_of_Z 15) [10;12;14] [20;22;24] [30;32;34]).
Proof. exact C16_Select.step_example. Qed.
Print Assumptions step_example.

(* ---- generic dropout (NumPy, PyTorch): given / uniform / normal variants ([d : draw]), cap constant c ---- *)
Theorem kept_sorted_in_range : forall A c be (b : body A) d s r kept,
  dropout c be b d s = Ok (r, kept) -> StronglySorted lt kept /\ Forall (fun i => i < frames b) kept.
Proof. exact @C16_Dropout.kept_sorted_in_range. Qed.
Print Assumptions kept_sorted_in_range.
Theorem pose_is_those_frames : forall A (x : A) c be (b : body A) d s r kept,
  dropout c be b d s = Ok (r, kept) -> r = body_at x b kept.
Proof. exact @C16_Dropout.pose_is_those_frames. Qed.
Print Assumptions pose_is_those_frames.
Theorem zero_fraction_drops_nothing : forall A c be (b : body A) d sg s r kept,
  fraction d = S754_zero sg -> possible_draw c (frames b) (fraction d) s ->
  dropout c be b d s = Ok (r, kept) -> kept = seq 0 (frames b).
Proof. exact @C16_Dropout.zero_fraction_drops_nothing. Qed.
Print Assumptions zero_fraction_drops_nothing.
(* the kept frames are exactly the ones not drawn; their number is n - min(int(n*p), int(n*c)) *)
Theorem dropped_are_the_drawn : forall A c be (b : body A) d s r kept,
  possible_draw c (frames b) (fraction d) s -> dropout c be b d s = Ok (r, kept) ->
  exists a kc, asked_count (frames b) (fraction d) = Ok a /\ cap_count c (frames b) = Ok kc /\
               (0 <= Z.min a kc <= Z.of_nat (frames b))%Z /\
               Z.of_nat (length kept) = (Z.of_nat (frames b) - Z.min a kc)%Z /\
               forall i, In i kept <-> i < frames b /\ ~ In i s.
Proof. exact @C16_Dropout.dropped_count. Qed.
Print Assumptions dropped_are_the_drawn.
(* x = the binary64 product n * p (bit-exact); unless capped, dropped = a with a <= x < a + 1, i.e. |dropped - n*p| < 1;
   when capped, dropped = int(n * c) *)
Theorem drops_about_the_fraction : forall A c be (b : body A) d s r kept x,
  possible_draw c (frames b) (fraction d) s -> dropout c be b d s = Ok (r, kept) ->
  int_times_float (frames b) (fraction d) = Ok x -> sf_nonneg x = true ->
  exists a kc, cap_count c (frames b) = Ok kc /\ asked_count (frames b) (fraction d) = Ok a /\
    Qle (inject_Z a) (sf_Q x) /\ Qlt (sf_Q x) (inject_Z (a + 1)) /\
    ((a <= kc)%Z -> Z.of_nat (frames b - length kept) = a) /\
    ((kc < a)%Z -> Z.of_nat (frames b - length kept) = kc).
Proof. exact @C16_Dropout.drops_about_the_fraction. Qed.
Print Assumptions drops_about_the_fraction.
(* at least one frame is kept.  The cap constant is the one regenerated from the source (cap_c = Gen_C16.dropout_cap_bits).
   (i) closed proof for 1 <= n <= 65536 (finite sweep of the binary64 computation in the kernel's VM);
   (ii) for any n under the hypothesis 0 <= int(n * c) < n;  (iii) for every n, using Flocq (real-number axioms). *)
Theorem keeps_at_least_one : forall A be (b : body A) d s r kept,
  1 <= frames b -> (Z.of_nat (frames b) <= CAP_BOUND)%Z ->
  possible_draw cap_c (frames b) (fraction d) s -> dropout cap_c be b d s = Ok (r, kept) -> 1 <= length kept.
Proof. exact @C16_Cap.keeps_one_upto_bound. Qed.
Print Assumptions keeps_at_least_one.
Theorem keeps_at_least_one_beyond : forall A c be (b : body A) d s r kept,
  cap_ok c (frames b) -> possible_draw c (frames b) (fraction d) s -> dropout c be b d s = Ok (r, kept) -> 1 <= length kept.
Proof. exact @C16_Dropout.keeps_one_if_cap_ok. Qed.
Print Assumptions keeps_at_least_one_beyond.
Theorem keeps_at_least_one_every_n : forall A be (b : body A) d s r kept,
  1 <= frames b -> possible_draw cap_c (frames b) (fraction d) s -> dropout cap_c be b d s = Ok (r, kept) -> 1 <= length kept.
Proof. exact @C16_CapAll.keeps_one_every_n. Qed.
Print Assumptions keeps_at_least_one_every_n.
Example possible_draw_example : possible_draw c99 10 p03 [7; 2; 5].
Proof. exact C16_Dropout.possible_draw_example. Qed.
Print Assumptions possible_draw_example.
Example dropout_example :
  dropout c99 NumPy ex_body (Given p03) [7; 2; 5]
  = Ok (mkB (sf64_of_Z 30) [10;11;13;14;16;18;19] [20;21;23;24;26;28;29] [30;31;33;34;36;38;39], [0;1;3;4;6;8;9]).
Proof. exact C16_Dropout.dropout_example. Qed.
Print Assumptions dropout_example.
Example zero_draw_example : possible_draw c99 10 (S754_zero true) [].
Proof. exact C16_Dropout.zero_draw_example. Qed.
Print Assumptions zero_draw_example.
Example cap_ok_example : cap_ok c99 200.
Proof. exact C16_Dropout.cap_ok_example. Qed.
Print Assumptions cap_ok_example.
Example capped_example : drop_count c99 200 (sf64_of_Z 1) = Ok 198%Z.
Proof. exact C16_Dropout.capped_example. Qed.
Print Assumptions capped_example.
Example nonneg_example : exists x, int_times_float 10 p03 = Ok x /\ sf_nonneg x = true /\ sf_trunc x = Some 3%Z.
Proof. exact C16_Dropout.nonneg_example. Qed.
Print Assumptions nonneg_example.

(* ---- pose level: the wrappers pass the header on and do what the body does ---- *)
Theorem pose_dropout_keeps_header : forall H A (ps : pose H A) res ps' kept,
  with_header ps res = Ok (ps', kept) -> header ps' = header ps /\ res = Ok (pbody ps', kept).
Proof. exact @C16_Dropout.with_header_inv. Qed.
Print Assumptions pose_dropout_keeps_header.
Theorem pose_slice_step_keeps_header : forall H A be (ps : pose H A) by' ps',
  pose_slice_step listed_slice_step header_has_slice_step be ps by' = Ok ps' ->
  header ps' = header ps /\ slice_step be (pbody ps) by' = Ok (pbody ps').
Proof. exact @C16_Dropout.pose_slice_step_inv. Qed.
Print Assumptions pose_slice_step_keeps_header.

(* ---- TensorFlow dropout (float32), as repaired by F10; every n ---- *)
Theorem tf_kept_sorted_in_range : forall A (b : body A) d perm r kept,
  Permutation perm (seq 0 (frames b)) -> tf_dropout b d perm = Ok (r, kept) ->
  StronglySorted lt kept /\ Forall (fun i => i < frames b) kept.
Proof. exact @C16_TF.tf_kept_sorted_in_range. Qed.
Print Assumptions tf_kept_sorted_in_range.
Theorem tf_pose_is_those_frames : forall A (x : A) (b : body A) d perm r kept,
  tf_dropout b d perm = Ok (r, kept) -> r = body_at x b kept.
Proof. exact @C16_TF.tf_pose_is_those_frames. Qed.
Print Assumptions tf_pose_is_those_frames.
Theorem tf_zero_fraction_drops_nothing : forall A (b : body A) d sg perm r kept,
  tf_fraction d = S754_zero sg -> Permutation perm (seq 0 (frames b)) ->
  tf_dropout b d perm = Ok (r, kept) -> kept = seq 0 (frames b).
Proof. exact @C16_TF.tf_zero_fraction_drops_nothing. Qed.
Print Assumptions tf_zero_fraction_drops_nothing.
Theorem tf_drops_about_the_fraction : forall A (b : body A) d perm r kept,
  1 <= frames b -> Permutation perm (seq 0 (frames b)) -> tf_dropout b d perm = Ok (r, kept) ->
  let x := sf32_mul (sf32_of_Z (Z.of_nat (frames b))) (tf_fraction d) in
  sf_nonneg x = true ->
  exists dd, sf_trunc x = Some dd /\ Qle (inject_Z dd) (sf_Q x) /\ Qlt (sf_Q x) (inject_Z (dd + 1)) /\
    ((dd <= Z.of_nat (frames b) - 1)%Z -> Z.of_nat (frames b - length kept) = dd) /\
    ((Z.of_nat (frames b) - 1 < dd)%Z -> length kept = 1).
Proof. exact @C16_TF.tf_drops_about_the_fraction. Qed.
Print Assumptions tf_drops_about_the_fraction.
Theorem tf_keeps_at_least_one : forall A (b : body A) d perm r kept,
  1 <= frames b -> Permutation perm (seq 0 (frames b)) -> tf_dropout b d perm = Ok (r, kept) -> 1 <= length kept.
Proof. exact @C16_TF.tf_keeps_one. Qed.
Print Assumptions tf_keeps_at_least_one.
Example tf_dropout_example :
  tf_dropout b10 (Given p03f) [3;1;4;0;5;9;2;6;8;7]
  = Ok (mkB (sf64_of_Z 30) [100;101;102;103;104;105;109] [200;201;202;203;204;205;209] [300;301;302;303;304;305;309],
        [0;1;2;3;4;5;9]).
Proof. exact C16_TF.tf_dropout_example. Qed.
Print Assumptions tf_dropout_example.
Example tf_perm_example : Permutation [3;1;4;0;5;9;2;6;8;7] (seq 0 (frames b10)).
Proof. exact C16_TF.tf_perm_example. Qed.
Print Assumptions tf_perm_example.
Example tf_nonneg_example : sf_nonneg (sf32_mul (sf32_of_Z 10) p03f) = true /\ sf_trunc (sf32_mul (sf32_of_Z 10) p03f) = Some 3%Z.
Proof. exact C16_TF.tf_nonneg_example. Qed.
Print Assumptions tf_nonneg_example.
Example tf_all_example : exists r k, tf_dropout b10 (Uniform (sf32_of_Z 1)) [3;1;4;0;5;9;2;6;8;7] = Ok (r, [k]).
Proof. exact C16_TF.tf_all_example. Qed.
Print Assumptions tf_all_example.

(* ---- F10: what the pinned TensorFlow code did (model [tf_pinned_dropout_given]); witnesses replayed by the harness ---- *)
Theorem tf_pinned_keeps_nothing_refuted :
  exists (b : body nat) p perm1 r, frames b = 1 /\ valid_perm (frames b - 1) perm1 = true /\
    tf_pinned_dropout_given b p perm1 = Ok (r, []).
Proof. exact C16_TF.tf_pinned_keeps_nothing_refuted. Qed.
Print Assumptions tf_pinned_keeps_nothing_refuted.
Theorem tf_pinned_zero_fraction_refuted :
  exists (b : body nat) perm1 r kept, valid_perm (frames b - 1) perm1 = true /\
    tf_pinned_dropout_given b (S754_zero false) perm1 = Ok (r, kept) /\ length kept = 1 /\ frames b = 10.
Proof. exact C16_TF.tf_pinned_zero_fraction_refuted. Qed.
Print Assumptions tf_pinned_zero_fraction_refuted.
Theorem tf_pinned_keeps_the_fraction_refuted :
  exists (b : body nat) perm1 r kept, valid_perm (frames b - 1) perm1 = true /\
    tf_pinned_dropout_given b (f32 4606281698874543309) perm1 = Ok (r, kept) /\ length kept = 9 /\ frames b = 10.
Proof. exact C16_TF.tf_pinned_keeps_the_fraction_refuted. Qed.
Print Assumptions tf_pinned_keeps_the_fraction_refuted.
Theorem tf_pinned_never_last_frame : forall A (b : body A) p perm1 r kept,
  Permutation perm1 (seq 0 (frames b - 1)) -> tf_pinned_dropout_given b p perm1 = Ok (r, kept) -> ~ In (frames b - 1) kept.
Proof. exact @C16_TF.tf_pinned_never_last_frame. Qed.
Print Assumptions tf_pinned_never_last_frame.

(* ---- ties: the facts regenerated from /repo on this run equal what the model was written from ---- *)
From Coq Require Import String.
Local Open Scope string_scope.
Theorem generic_dropout_stmts_tie : Gen_C16.generic_dropout_stmts =
  [ "data_len = len(self.data)";
    "dropout_number = min(int(data_len * dropout_percent), int(data_len * CAP))";
    "dropout_indexes = set(sample(range(0, data_len), dropout_number))";
    "select_indexes = [i for i in range(0, data_len) if i not in dropout_indexes]";
    "return (self.select_frames(select_indexes), select_indexes)" ].
Proof. exact C16_GenTie.generic_dropout_stmts_tie. Qed.
Print Assumptions generic_dropout_stmts_tie.
Theorem generic_select_stmts_tie : Gen_C16.generic_select_stmts =
  [ "data = self.data[frame_indexes]";
    "confidence = self.confidence[frame_indexes]";
    "return self.__class__(fps=self.fps, data=data, confidence=confidence)" ].
Proof. exact C16_GenTie.generic_select_stmts_tie. Qed.
Print Assumptions generic_select_stmts_tie.
Theorem uniform_stmts_tie : Gen_C16.uniform_stmts =
  [ "dropout_percent = np.random.uniform(low=dropout_min, high=dropout_max, size=1)[0]";
    "return self.frame_dropout_given_percent(dropout_percent)" ].
Proof. exact C16_GenTie.uniform_stmts_tie. Qed.
Print Assumptions uniform_stmts_tie.
Theorem normal_stmts_tie : Gen_C16.normal_stmts =
  [ "dropout_percent = np.abs(np.random.normal(loc=dropout_mean, scale=dropout_std, size=1))[0]";
    "return self.frame_dropout_given_percent(dropout_percent)" ].
Proof. exact C16_GenTie.normal_stmts_tie. Qed.
Print Assumptions normal_stmts_tie.
Theorem slice_step_stmts_tie : Gen_C16.slice_step_stmts =
  [ "new_data = self.data[::by]";
    "new_confidence = self.confidence[::by]";
    "new_fps = self.fps / by";
    "return self.__class__(fps=new_fps, data=new_data, confidence=new_confidence)" ].
Proof. exact C16_GenTie.slice_step_stmts_tie. Qed.
Print Assumptions slice_step_stmts_tie.
Theorem tf_dropout_stmts_tie : Gen_C16.tf_dropout_stmts =
  [ "data_len = tf.shape(self.data.tensor)[0]";
    "number_drop = tf.squeeze(tf.cast(data_len, dtype=tf.float32) * dropout_percent)";
    "number_drop = tf.cast(number_drop, dtype=tf.int32)";
    "number_sample = tf.maximum(1, data_len - number_drop)";
    "idxs = tf.range(data_len, dtype=tf.int32)";
    "select_indexes = tf.sort(tf.random.shuffle(idxs)[:number_sample])";
    "select_indexes = tf.cast(select_indexes, dtype=tf.int32)";
    "return (self.select_frames(select_indexes), select_indexes)" ].
Proof. exact C16_GenTie.tf_dropout_stmts_tie. Qed.
Print Assumptions tf_dropout_stmts_tie.
Theorem tf_select_stmts_tie : Gen_C16.tf_select_stmts =
  [ "data = self.data.gather(frame_indexes)";
    "confidence = tf.gather(self.confidence, frame_indexes)";
    "return self.__class__(fps=self.fps, data=data, confidence=confidence)" ].
Proof. exact C16_GenTie.tf_select_stmts_tie. Qed.
Print Assumptions tf_select_stmts_tie.
Theorem tf_uniform_stmts_tie : Gen_C16.tf_uniform_stmts =
  [ "dropout_percent = tf.random.uniform([1], minval=dropout_min, maxval=dropout_max)[0]";
    "return self.frame_dropout_given_percent(dropout_percent)" ].
Proof. exact C16_GenTie.tf_uniform_stmts_tie. Qed.
Print Assumptions tf_uniform_stmts_tie.
Theorem tf_normal_stmts_tie : Gen_C16.tf_normal_stmts =
  [ "dropout_percent = tf.random.normal([1], mean=dropout_mean, stddev=dropout_std)[0]";
    "dropout_percent = tf.maximum(dropout_percent, tf.constant([0.0]))";
    "return self.frame_dropout_given_percent(dropout_percent)" ].
Proof. exact C16_GenTie.tf_normal_stmts_tie. Qed.
Print Assumptions tf_normal_stmts_tie.
Theorem tf_gather_stmts_tie : Gen_C16.tf_gather_stmts =
  [ "tensor = tf.gather(self.tensor, indexes)";
    "mask = tf.gather(self.mask, indexes)";
    "return MaskedTensor(tensor=tensor, mask=mask)" ].
Proof. exact C16_GenTie.tf_gather_stmts_tie. Qed.
Print Assumptions tf_gather_stmts_tie.
Theorem tf_getitem_stmts_tie : Gen_C16.tf_getitem_stmts =
  [ "if isinstance(key, list):\n    key = tf.constant(key, dtype=tf.int32)\n    tensor = tf.gather(self.tensor, key)\n    mask = tf.gather(self.mask, key)\nelse:\n    tensor = self.tensor[key]\n    mask = self.mask[key]";
    "return MaskedTensor(tensor=tensor, mask=mask)" ].
Proof. exact C16_GenTie.tf_getitem_stmts_tie. Qed.
Print Assumptions tf_getitem_stmts_tie.
Theorem torch_getitem_stmts_tie : Gen_C16.torch_getitem_stmts =
  [ "tensor = self.tensor[key]";
    "mask = self.mask[key]";
    "return MaskedTensor(tensor=tensor, mask=mask)" ].
Proof. exact C16_GenTie.torch_getitem_stmts_tie. Qed.
Print Assumptions torch_getitem_stmts_tie.
Theorem torch_len_stmts_tie : Gen_C16.torch_len_stmts =
  [ "return self.tensor.shape[0]" ].
Proof. exact C16_GenTie.torch_len_stmts_tie. Qed.
Print Assumptions torch_len_stmts_tie.
Theorem pose_uniform_stmts_tie : Gen_C16.pose_uniform_stmts =
  [ "body, selected_indexes = self.body.frame_dropout_uniform(dropout_min=dropout_min, dropout_max=dropout_max)";
    "return (Pose(header=self.header, body=body), selected_indexes)" ].
Proof. exact C16_GenTie.pose_uniform_stmts_tie. Qed.
Print Assumptions pose_uniform_stmts_tie.
Theorem pose_normal_stmts_tie : Gen_C16.pose_normal_stmts =
  [ "body, selected_indexes = self.body.frame_dropout_normal(dropout_mean=dropout_mean, dropout_std=dropout_std)";
    "return (Pose(header=self.header, body=body), selected_indexes)" ].
Proof. exact C16_GenTie.pose_normal_stmts_tie. Qed.
Print Assumptions pose_normal_stmts_tie.
Theorem getattr_stmts_tie : Gen_C16.getattr_stmts =
  [ "if attr not in Pose.pass_through_methods:\n    raise AttributeError(""Attribute '%s' doesn't exist on class Pose"" % attr)";
    "def func(*args, **kwargs):\n    prop = getattr(self.body, attr)\n    body_res = prop(*args, **kwargs)\n    if isinstance(body_res, PoseBody):\n        header = self.header\n        if hasattr(header, attr):\n            header_res = getattr(header, attr)(*args, **kwargs)\n            if isinstance(header_res, PoseHeader):\n                header = header_res\n        return Pose(header, body_res)\n    return body_res";
    "return func" ].
Proof. exact C16_GenTie.getattr_stmts_tie. Qed.
Print Assumptions getattr_stmts_tie.
Theorem body_overrides_tie : Gen_C16.body_overrides =
  [ "TensorflowPoseBody.select_frames";
    "TensorflowPoseBody.frame_dropout_given_percent";
    "TensorflowPoseBody.frame_dropout_uniform";
    "TensorflowPoseBody.frame_dropout_normal" ].
Proof. exact C16_GenTie.body_overrides_tie. Qed.
Print Assumptions body_overrides_tie.

(* ---------- class structure of the current source: overrides and attribute hooks (proofs/ClassesTie.v) ---------- *)
Require Import ClassesTie.
Theorem C16_tie_class_numpy_body : over_numpy_body = Some exp_over_numpy_body.
Proof. exact over_numpy_body_tie. Qed.
Print Assumptions C16_tie_class_numpy_body.
Theorem C16_tie_class_torch_body : over_torch_body = Some exp_over_torch_body.
Proof. exact over_torch_body_tie. Qed.
Print Assumptions C16_tie_class_torch_body.
Theorem C16_tie_class_tf_body : over_tf_body = Some exp_over_tf_body.
Proof. exact over_tf_body_tie. Qed.
Print Assumptions C16_tie_class_tf_body.
Theorem C16_tie_class_subclasses : subclasses = exp_subclasses.
Proof. exact subclasses_tie. Qed.
Print Assumptions C16_tie_class_subclasses.
Theorem C16_tie_class_attr_hooks : Gen_Classes.attr_hooks = exp_attr_hooks.
Proof. exact attr_hooks_tie. Qed.
Print Assumptions C16_tie_class_attr_hooks.

