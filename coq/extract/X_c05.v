Require Import C05_Run.
From Coq Require Import Extraction ExtrOcamlBasic.
Extraction Language OCaml.
Extraction "../runner/build/c05/model.ml" dispatch.
