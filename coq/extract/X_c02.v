Require Import C02_Run.
From Coq Require Import Extraction ExtrOcamlBasic.
Extraction Language OCaml.
Definition dispatch := dispatch_c02.
Extraction "../runner/build/c02/model.ml" dispatch.
