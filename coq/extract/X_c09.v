Require Import C09_Run.
From Coq Require Import Extraction ExtrOcamlBasic ExtrOCamlFloats ExtrOCamlInt63.
Extraction Language OCaml.
Definition dispatch := c09_dispatch.
Extraction "../runner/build/c09/model.ml" dispatch.
