Require Import C17_Run.
From Coq Require Import Extraction ExtrOcamlBasic ExtrOCamlFloats ExtrOCamlInt63.
Extraction Language OCaml.
Definition dispatch := C17_Run.dispatch.
Extraction "../runner/build/c17/model.ml" dispatch.
