Require Import C12_Run.
From Coq Require Import Extraction ExtrOcamlBasic.
Extraction Language OCaml.
Definition dispatch := C12_Run.dispatch.
Extraction "../runner/build/c12/model.ml" dispatch.
