Require Import C11_Run Gen_C11.
From Coq Require Import Extraction ExtrOcamlBasic.
Extraction Language OCaml.
Definition dispatch := dispatch_with Gen_C11.tables.
Extraction "../runner/build/c11/model.ml" dispatch.
