Require Import C19_Run.
From Coq Require Import Extraction ExtrOcamlBasic.
Extraction Language OCaml.
Definition dispatch := C19_Run.dispatch.
Extraction "../runner/build/c19/model.ml" dispatch.
