Require Import C20_Run.
From Coq Require Import Extraction ExtrOcamlBasic.
Extraction Language OCaml.
Definition dispatch := C20_Run.dispatch.
Extraction "../runner/build/c20/model.ml" dispatch.
