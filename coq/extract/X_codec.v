Require Import Tree CodecRun PoseRead C06_GraphRun.
From Coq Require Import ZArith.
From Coq Require Import Extraction ExtrOcamlBasic.
Extraction Language OCaml.
Definition dispatch (t : tree) : tree :=
  if (t_z (t_nth 0 t) =? 9)%Z then graph_dispatch no_legacy t else dispatch_with no_legacy t.
Extraction "../runner/build/codec/model.ml" dispatch.
