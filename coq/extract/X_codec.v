Require Import CodecRun PoseRead.
From Coq Require Import Extraction ExtrOcamlBasic.
Extraction Language OCaml.
Definition dispatch := dispatch_with no_legacy.
Extraction "../runner/build/codec/model.ml" dispatch.
