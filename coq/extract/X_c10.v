Require Import C10_Masked C10_Run Gen_C10.
From Coq Require Import Extraction ExtrOcamlBasic ExtrOCamlFloats ExtrOCamlInt63.
Extraction Language OCaml.
(* the five switches are regenerated from the source on every run (gen/Gen_C10.v) *)
Definition c_torch : cfg := {| matmul_rowall := torch_matmul_rowall; plain_bcast := torch_plain_bcast; unsq_listed := torch_unsq_listed;
                               var_keepdims := torch_var_keepdims; zf_where := torch_zf_where |}.
Definition c_tf : cfg := {| matmul_rowall := tf_matmul_rowall; plain_bcast := tf_plain_bcast; unsq_listed := tf_unsq_listed;
                            var_keepdims := tf_var_keepdims; zf_where := tf_zf_where |}.
Definition dispatch := dispatch_with c_torch c_tf.
Extraction "../runner/build/c10/model.ml" dispatch.
