Require Import C15_Run Gen_C15.
From Coq Require Import Extraction ExtrOcamlBasic ExtrOCamlFloats ExtrOCamlInt63.
Extraction Language OCaml.
Definition dispatch := dispatch_with Gen_C15.box_colors.
Extraction "../runner/build/c15/model.ml" dispatch.
