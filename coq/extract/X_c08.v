Require Import C08_Run.
From Coq Require Import Extraction ExtrOcamlBasic.
Extraction Language OCaml.
Definition dispatch := C08_Run.dispatch.
Extraction "../runner/build/c08/model.ml" dispatch.
