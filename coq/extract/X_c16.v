Require Import C16_Run.
From Coq Require Import Extraction ExtrOcamlBasic.
Extraction Language OCaml.
Extraction "../runner/build/c16/model.ml" dispatch.
