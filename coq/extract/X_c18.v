Require Import C18_Threads.
From Coq Require Import Extraction ExtrOcamlBasic.
Extraction Language OCaml.
Extraction "../runner/build/c18/model.ml" dispatch.
