Require Import C13_Run.
From Coq Require Import Extraction ExtrOcamlBasic ExtrOCamlFloats ExtrOCamlInt63.
Extraction Language OCaml.
Extraction "../runner/build/c13/model.ml" dispatch.
