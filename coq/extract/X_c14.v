Require Import C14_Run.
From Coq Require Import Extraction ExtrOcamlBasic ExtrOCamlFloats ExtrOCamlInt63.
Extraction Language OCaml.
Definition dispatch := C14_Run.dispatch.
Extraction "../runner/build/c14/model.ml" dispatch.
