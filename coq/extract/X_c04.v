Require Import C04_Run.
From Coq Require Import Extraction ExtrOcamlBasic.
Extraction Language OCaml.
Definition dispatch := dispatch04.
Extraction "../runner/build/c04/model.ml" dispatch.
