(* C13 - the 3-D plane / line normaliser PoseNormalizer (utils/normalization_3d.py:10-219), written once
   over [Num.ops], statement by statement.  Definitions only.

   __call__ reshapes (frames, people, joints, 3) to (frames*people, joints, 3), normalises and reshapes
   back; every step of normalize_pose is batched over the first axis, so the model is a [map] of the
   per-row function over the row-major list of (frame, person) rows.

   numpy.ma facts the model reproduces (the mask of a pose body is per point): a masked binary operation
   leaves the first operand's raw value under the mask; np.cross / np.stack / np.einsum / np.arctan2 /
   Rotation.from_euler read the raw data and ignore masks; in-place operations leave data under the mask
   untouched; [size / current_size] is masked where current_size = 0.

   External numerics: Rotation.from_euler('z', -(90 + degrees(arctan2(vy, vx))), degrees=True).as_matrix()
   enters as the section variable [zrot] giving the (cos, sin) entries of that matrix; the proofs state
   what they need of it as a hypothesis, the runner instantiates it with [zrot_closed] = (-vy/r, -vx/r). *)
From Coq Require Import List ZArith Bool Arith.
Require Import Num C13_Normalize.
Import ListNotations.

Section C13Norm3d.
Variable O : ops.
Local Notation F := (T O).
Local Notation "x + y" := (add O x y) : num_scope.
Local Notation "x - y" := (sub O x y) : num_scope.
Local Notation "x * y" := (mul O x y) : num_scope.
Local Notation "x / y" := (div O x y) : num_scope.
Local Open Scope num_scope.
Variable zrot : F -> F -> F * F.

Record vec3 := V3 { vx : F; vy : F; vz : F }.
Record p3 := mkp3 { m3 : bool; c3 : vec3 }.
Definition z0 : F := zero O.
Definition vsub (a b : vec3) : vec3 := V3 (vx a - vx b) (vy a - vy b) (vz a - vz b).
Definition vscale (a : vec3) (s : F) : vec3 := V3 (vx a * s) (vy a * s) (vz a * s).
Definition vdiv (a : vec3) (s : F) : vec3 := V3 (vx a / s) (vy a / s) (vz a / s).
(* np.cross: c0 = a1*b2 - a2*b1, c1 = a2*b0 - a0*b2, c2 = a0*b1 - a1*b0 *)
Definition cross (a b : vec3) : vec3 :=
  V3 (vy a * vz b - vz a * vy b) (vz a * vx b - vx a * vz b) (vx a * vy b - vy a * vx b).
(* one output entry of np.einsum('...ij,...kj->...ik', pose, M): sum over j of pose_j * M_kj *)
Definition dot (a b : vec3) : F := (vx a * vx b + vy a * vy b) + vz a * vz b.
Definition norm (a : vec3) : F := sqrt O (dot a a).
Definition get3 (r : list p3) (i : nat) : p3 := nth i r (mkp3 true (V3 z0 z0 z0)).
(* masked subtraction a - b *)
Definition msub (a b : p3) : p3 :=
  let m := m3 a || m3 b in mkp3 m (if m then c3 a else vsub (c3 a) (c3 b)).

(* get_normal (normalization_3d.py:72-101): triangle = pose[:, [p1, p2, p3]]; v1, v2 masked differences;
   np.cross on the raw data; normal /= np.linalg.norm(normal).  The mask given to the normal
   (pose[:, 0].mask) is never read downstream. *)
Definition get_normal (pl1 pl2 pl3 : nat) (r : list p3) : vec3 * p3 :=
  let a := get3 r pl1 in
  let v1 := msub (get3 r pl2) a in
  let v2 := msub (get3 r pl3) a in
  let n := cross (c3 v1) (c3 v2) in
  (vdiv n (norm n), a).
(* rotate_to_normal (normalization_3d.py:28-70): the basis is NOT normalised:
   y_axis = [1,0,0] x normal, x_axis = normal x y_axis, both of norm sqrt(1 - normal_x^2) *)
Definition rotate_to_normal (r : list p3) (normal : vec3) (around : p3) : list p3 :=
  let r1 := map (fun p => msub p around) r in
  let y_axis := cross (V3 (one O) z0 z0) normal in
  let x_axis := cross normal y_axis in
  map (fun p => mkp3 (m3 p) (V3 (dot (c3 p) x_axis) (dot (c3 p) y_axis) (dot (c3 p) normal))) r1.
(* get_rotation_angle + rotate (normalization_3d.py:103-141): vec = p2 - p1 (raw data);
   M = [[c, -s, 0], [s, c, 0], [0, 0, 1]] with (c, s) = zrot vec_x vec_y; rotated = M . p *)
Definition rotate_in_plane (l1 l2 : nat) (r : list p3) : list p3 :=
  let vec := c3 (msub (get3 r l2) (get3 r l1)) in
  let cs := zrot (vx vec) (vy vec) in
  let c := fst cs in let s := snd cs in
  map (fun p => let q := c3 p in
                mkp3 (m3 p) (V3 ((c * vx q + (opp O s) * vy q) + z0 * vz q)
                                ((s * vx q + c * vy q) + z0 * vz q)
                                ((z0 * vx q + z0 * vy q) + (one O) * vz q))) r.
(* scale (normalization_3d.py:143-163) *)
Definition scale3 (l1 l2 : nat) (size : F) (r : list p3) : list p3 :=
  let d := msub (get3 r l2) (get3 r l1) in
  let current_size := sqrt O (dot (c3 d) (c3 d)) in
  let sm := m3 d || eqb O current_size z0 in
  let sc := size / current_size in
  let r1 := map (fun p => let m := m3 p || sm in mkp3 m (if m then c3 p else vscale (c3 p) sc)) r in
  let o := get3 r1 l1 in
  map (fun p => let m := m3 p || m3 o in mkp3 m (if m then c3 p else vsub (c3 p) (c3 o))) r1.
(* ma.array(pose.filled(0), mask=pose.mask) (normalization_3d.py:192) *)
Definition fill3 (r : list p3) : list p3 :=
  map (fun p => if m3 p then mkp3 true (V3 z0 z0 z0) else p) r.
(* normalize_pose for one (frame, person) (normalization_3d.py:165-194) *)
Definition normalize_row (pl1 pl2 pl3 l1 l2 : nat) (size : F) (r : list p3) : list p3 :=
  let nb := get_normal pl1 pl2 pl3 r in
  let r1 := rotate_to_normal r (fst nb) (snd nb) in
  let r2 := rotate_in_plane l1 l2 r1 in
  let r3 := scale3 l1 l2 size r2 in
  fill3 r3.
(* __call__ (normalization_3d.py:196-219) *)
Definition normalize3d (pl1 pl2 pl3 l1 l2 : nat) (size : F) (b : list (list p3)) : list (list p3) :=
  map (normalize_row pl1 pl2 pl3 l1 l2 size) b.
End C13Norm3d.
Arguments V3 {O}. Arguments vx {O}. Arguments vy {O}. Arguments vz {O}.
Arguments mkp3 {O}. Arguments m3 {O}. Arguments c3 {O}.

(* the instance the runner executes: (cos, sin) of -(90deg + atan2(y, x)) = (-y / r, -x / r); at the origin
   np.arctan2(0, 0) = 0, so the angle is -90deg and (cos, sin) = (0, -1) *)
Definition zrot_closed (O : ops) (x y : T O) : T O * T O :=
  let r := sqrt O (add O (mul O x x) (mul O y y)) in
  if eqb O r (zero O) then (zero O, opp O (one O)) else (div O (opp O y) r, div O (opp O x) r).
