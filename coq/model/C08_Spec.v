(* C08 - what the theorems are stated against: the content of a pose body independent of the backend
   ([core]: every point with its confidence and coordinates), its representation as a body of each backend
   ([rep]), the backend-independent observation ([obs_core]) and the reference result of every shared
   operation on cores.  Definitions only. *)
From Coq Require Import ZArith NArith List Bool.
Require Import Result F32 Codec C08_Body C08_Read.
Import ListNotations.
Local Open Scope nat_scope.

Record core := { k_fps : N; kF : nat; kP : nat; kT : nat; kD : nat; k_pts : t3 point }.
Definition kshape (k : core) : list nat := [kF k; kP k; kT k; kD k].
Definition kcshape (k : core) : list nat := [kF k; kP k; kT k].
(* the stored mask bit of a point, in the backend's own polarity *)
Definition stored (b : bk) (w : N) : bool :=
  match b with Np => is_zero32 w | Torch => negb (is_zero32 w) | Tf => negb (is_zero32_daz w) end.
Definition rows {X} (g : N -> X) (d : nat) : t3 point -> t4 X := map3 (fun x : point => repeat (g (fst x)) d).
Definition rep (b : bk) (k : core) : body :=
  {| g_fps := k_fps k;
     g_data := Masked (kshape k) (map3 snd (k_pts k)) (kshape k) (rows (stored b) (kD k) (k_pts k));
     g_cs := kcshape k; g_conf := map3 fst (k_pts k) |}.
(* a point is valid in all of its dimensions exactly when its confidence is not 0 *)
Definition obs_core (k : core) : obs :=
  {| o_fps := k_fps k; o_shape := kshape k; o_val := map3 snd (k_pts k);
     o_valid := Some (kshape k, rows (fun w => negb (is_zero32 w)) (kD k) (k_pts k));
     o_cshape := kcshape k; o_conf := map3 fst (k_pts k) |}.
(* TensorFlow reads a subnormal confidence as 0; the TensorFlow clauses assume there is none *)
Definition tf_safe_pts (pts : t3 point) : Prop :=
  map3 (fun x : point => is_zero32_daz (fst x)) pts = map3 (fun x : point => is_zero32 (fst x)) pts.
Definition ok_for (b : bk) (pts : t3 point) : Prop := match b with Tf => tf_safe_pts pts | _ => True end.

Definition core_of_raw (r : raw) : core :=
  {| k_fps := f32_to_f64 (r_fps r); kF := r_F r; kP := r_P r; kT := r_T r; kD := r_D r; k_pts := raw_points r |}.
Definition read_core (buffer : list N) (a : rargs) : result core :=
  do r <- read_raw_file buffer a; if Nat.eqb (r_D r) 0 then Err Value else Ok (core_of_raw r).

(* one frame *)
Record fcore := { q_fps : N; qP : nat; qT : nat; qD : nat; q_pts : t2 point }.
Definition frep (b : bk) (q : fcore) : fbody :=
  {| g_fps := q_fps q;
     g_data := Masked [qP q; qT q; qD q] (map2n snd (q_pts q)) [qP q; qT q; qD q]
                      (map2n (fun x : point => repeat (stored b (fst x)) (qD q)) (q_pts q));
     g_cs := [qP q; qT q]; g_conf := map2n fst (q_pts q) |}.
Definition fobs_core (q : fcore) : fobs :=
  {| o_fps := q_fps q; o_shape := [qP q; qT q; qD q]; o_val := map2n snd (q_pts q);
     o_valid := Some ([qP q; qT q; qD q], map2n (fun x : point => repeat (negb (is_zero32 (fst x))) (qD q)) (q_pts q));
     o_cshape := [qP q; qT q]; o_conf := map2n fst (q_pts q) |}.

(* ---- reference results ---- *)
Definition in_range (n : nat) (idx : list Z) : Prop := Forall (fun i => (0 <= i < Z.of_nat n)%Z) idx.
Definition ref_frames (fps : N) (ix : list nat) (k : core) : core :=
  {| k_fps := fps; kF := length ix; kP := kP k; kT := kT k; kD := kD k; k_pts := gat ix (k_pts k) |}.
Definition ref_points (ix : list nat) (k : core) : core :=
  {| k_fps := k_fps k; kF := kF k; kP := kP k; kT := length ix; kD := kD k; k_pts := map (map (gat ix)) (k_pts k) |}.
Definition ref_frame (i : nat) (k : core) : fcore :=
  {| q_fps := k_fps k; qP := kP k; qT := kT k; qD := kD k; q_pts := nth i (k_pts k) [] |}.
Definition pos_step (s : pyslice) : Prop := match s_step s with Some k => (0 < k)%Z | None => True end.
Definition every (by_ : Z) : pyslice := {| s_start := None; s_stop := None; s_step := Some by_ |}.
(* zero_filled: coordinates of missing points become +0.0 *)
Definition ref_zero (k : core) : core :=
  {| k_fps := k_fps k; kF := kF k; kP := kP k; kT := kT k; kD := kD k;
     k_pts := map3 (fun x : point => (fst x, zipw (fun w (miss : bool) => if miss then zero32 else w) (snd x) (repeat (is_zero32 (fst x)) (kD k)))) (k_pts k) |}.
(* matmul with a (D, E) matrix: every valid point's coordinates times the matrix; a missing point's are +0.0 *)
Section Kernel.
Variable dot : list N -> list N -> N.
Definition ref_matmul (m : matrix) (k : core) : core :=
  {| k_fps := k_fps k; kF := kF k; kP := kP k; kT := kT k; kD := m_cols m;
     k_pts := map3 (fun x : point => (fst x, if is_zero32 (fst x) then repeat zero32 (m_cols m) else vecmat dot m (snd x))) (k_pts k) |}.
End Kernel.
Definition rows_ok (k : core) : Prop :=
  Forall (Forall (Forall (fun x : point => length (snd x) = kD k))) (k_pts k).
(* flatten: one row per point whose confidence is not 0, in row-major order *)
Definition ref_flatten (k : core) : N * list frow :=
  (k_fps k, filter (fun r => negb (is_zero32 (row_conf r))) (flat_rows (map3 snd (k_pts k)) (map3 fst (k_pts k)))).
Definition fps_zero (w : N) : bool := (w mod 9223372036854775808 =? 0)%N.
