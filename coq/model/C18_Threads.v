(* C18 - reader threads over the process-global header memo.
   Each thread executes Pose.read (pose.py:34-64) -> PoseHeader.read (pose_header.py:305-336) ->
   PoseHeaderCache.check_cache / calc_hash / set_cache (pose_header.py:232-262).  One atomic step of a
   thread is ONE access to one of the memo's four class attributes (or one lock operation); everything
   else a thread does (building its reader, parsing its own header, decoding the body) touches only
   thread-local objects and is folded into the step that precedes it.  md5 is modelled as injective: the
   hash IS the hashed slice (as in PoseRead.v).
   [locked = false] is the code without the lock (defect F13), [locked = true] the code with
   `with PoseHeaderCache.lock:` around the lookup-and-offset of PoseHeader.read and around set_cache.
   Definitions only. *)
From Coq Require Import ZArith NArith List Bool.
Require Import ListN Result Tree Bytes Prog Codec CodecTree PoseRead.
Import ListNotations.
Open Scope N_scope.

(* ---------- shared state: the four class attributes and the lock ---------- *)
Record gmemo := { g_start : option N; g_end : option N; g_hash : option bytes; g_header : option header }.
Definition g_empty : gmemo := {| g_start := None; g_end := None; g_hash := None; g_header := None |}.
Record shared := { sh_memo : gmemo; sh_lock : option nat }.
Definition with_lock (s : shared) (l : option nat) : shared := {| sh_memo := sh_memo s; sh_lock := l |}.
Definition with_memo (s : shared) (m : gmemo) : shared := {| sh_memo := m; sh_lock := sh_lock s |}.
Definition set_start (m : gmemo) v := {| g_start := v; g_end := g_end m; g_hash := g_hash m; g_header := g_header m |}.
Definition set_end (m : gmemo) v := {| g_start := g_start m; g_end := v; g_hash := g_hash m; g_header := g_header m |}.
Definition set_hash (m : gmemo) v := {| g_start := g_start m; g_end := g_end m; g_hash := v; g_header := g_header m |}.
Definition set_header (m : gmemo) v := {| g_start := g_start m; g_end := g_end m; g_hash := g_hash m; g_header := v |}.

(* buffer[start_offset:end_offset] where either bound may still be None (pose_header.py:241) *)
Definition slice_opt (s e : option N) (b : bytes) : bytes :=
  let s' := match s with Some x => x | None => 0 end in
  match e with Some e' => takeN (e' - s') (dropN s' b) | None => dropN s' b end.
(* PoseHeaderCache.hash == md5(slice).hexdigest(), md5 injective *)
Definition hash_eqb (hv : option bytes) (k : bytes) : bool :=
  match hv with Some x => bytes_eqb x k | None => false end.

(* ---------- what a thread is asked to read ---------- *)
Record job := { j_stream : bool;      (* a seekable stream at position 0 (otherwise a bytes object) *)
                j_file : bytes; j_args : rargs }.
(* pose.py:52-58: BytesIOReader only for a stream with a window argument *)
Definition uses_stream (j : job) : bool := j_stream j && any_arg (j_args j).
(* (PoseHeaderCache.end_offset or 10 * 1024) + 100, pose.py:60; the two constants are parameters *)
Definition prefetch (dflt slack : N) (e : option N) : N :=
  (match e with Some x => if x =? 0 then dflt else x | None => dflt end) + slack.

Inductive tres := RFail | ROk (h : header) (e : N).   (* header returned, offset at which the body is read *)
Record pending := { pd_h : header; pd_buf : bytes; pd_s : N; pd_e : N }.   (* arguments of set_cache *)

(* program counter with the thread's live locals; anchors = the line whose event starts the step *)
Inductive pc :=
| P_pf                                              (* pose.py:60           load end_offset *)
| P_acq1 (buf : bytes)                              (* pose_header.py:321'  with lock (enter) *)
| P_h1 (buf : bytes)                                (* :245  load hash (is None) *)
| P_h2 (buf : bytes)                                (* :248  load hash (left operand of ==) *)
| P_cs (buf : bytes) (hv : option bytes)            (* :241  load start_offset *)
| P_ce (buf : bytes) (hv : option bytes) (sv : option N)   (* :241 load end_offset, md5, compare (same line) *)
| P_hd (buf : bytes)                                (* :249  load header *)
| P_he (buf : bytes) (hd : header)                  (* :323  load end_offset -> reader.read_offset *)
| P_rel_hit (r : tres)                              (* with lock (exit, on the return) *)
| P_rel_miss (buf : bytes)                          (* with lock (exit, fall through) *)
| P_acq2 (pd : pending)                             (* set_cache: with lock (enter) *)
| P_ws (pd : pending)                               (* :260  store start_offset *)
| P_we (pd : pending)                               (* :261  store end_offset *)
| P_wh (pd : pending)                               (* :262  store header *)
| P_tau (pd : pending)                              (* :263  line event; calls calc_hash, no access yet *)
| P_scs (pd : pending)                              (* :241  load start_offset *)
| P_sce (pd : pending) (sv : option N)              (* :241  load end_offset (same line) *)
| P_swk (pd : pending) (sv ev : option N)           (* :263  store hash (same line event as :241) *)
| P_rel_set (r : tres)                              (* set_cache: with lock (exit) *)
| P_done (r : tres).
(* does a line event (a yield point of the replay scheduler) precede this step? *)
Definition line_start (p : pc) : bool :=
  match p with P_ce _ _ _ | P_sce _ _ | P_swk _ _ _ => false | _ => true end.
Definition pc_label (p : pc) : Z :=
  match p with
  | P_pf => 1 | P_acq1 _ => 2 | P_h1 _ => 3 | P_h2 _ => 4 | P_cs _ _ => 5 | P_ce _ _ _ => 6 | P_hd _ => 7 | P_he _ _ => 8
  | P_rel_hit _ => 9 | P_rel_miss _ => 10 | P_acq2 _ => 11 | P_ws _ => 12 | P_we _ => 13 | P_wh _ => 14 | P_tau _ => 15
  | P_scs _ => 16 | P_sce _ _ => 17 | P_swk _ _ _ => 18 | P_rel_set _ => 19 | P_done _ => 0
  end%Z.

Section Threads.
Variable pf : option N -> N.     (* prefetch length as a function of the end_offset read at pose.py:60 *)
Variable locked : bool.

(* reader.buffer when PoseHeader.read starts (pose.py:52-60); [er] = end_offset as read at line 60 *)
Definition lookup_buffer (j : job) (er : option N) : result bytes :=
  if uses_stream j then
    match expect (j_file j) (pf er) {| buf := []; off := 0; skipped := 0; pulled := 0 |} with
    | Ok r1 => Ok (buf r1) | Err e => Err e end
  else Ok (j_file j).
(* the miss path of PoseHeader.read (pose_header.py:326-333) on the thread's own reader:
   header, end offset, reader.buffer as handed to set_cache *)
Definition parse_own (j : job) (buffer : bytes) : result (header * N * bytes) :=
  if uses_stream j then
    match run_stream (j_file j) rd_header {| buf := buffer; off := 0; skipped := 0; pulled := lenN buffer |} with
    | Ok (h, r2) => Ok (h, off r2, buf r2) | Err e => Err e end
  else
    match run_plain rd_header {| pbuf := buffer; poff := 0 |} with
    | Ok (h, r) => Ok (h, poff r, buffer) | Err e => Err e end.

Definition after_miss (j : job) (buf : bytes) : pc :=
  match parse_own j buf with
  | Err _ => P_done RFail                             (* the exception leaves Pose.read *)
  | Ok (h, e, buf') =>
      let pd := {| pd_h := h; pd_buf := buf'; pd_s := 0; pd_e := e |} in
      if locked then P_acq2 pd else P_ws pd
  end.
Definition miss (j : job) (buf : bytes) : pc := if locked then P_rel_miss buf else after_miss j buf.
Definition pd_res (pd : pending) : tres := ROk (pd_h pd) (pd_e pd).

(* one atomic step of thread [me] *)
Definition tstep (j : job) (me : nat) (p : pc) (s : shared) : shared * pc :=
  let m := sh_memo s in
  match p with
  | P_pf => match lookup_buffer j (g_end m) with
            | Err _ => (s, P_done RFail)
            | Ok buf => (s, if locked then P_acq1 buf else P_h1 buf)
            end
  | P_acq1 buf => match sh_lock s with None => (with_lock s (Some me), P_h1 buf) | Some _ => (s, p) end
  | P_h1 buf => match g_hash m with None => (s, miss j buf) | Some _ => (s, P_h2 buf) end
  | P_h2 buf => (s, P_cs buf (g_hash m))
  | P_cs buf hv => (s, P_ce buf hv (g_start m))
  | P_ce buf hv sv => (s, if hash_eqb hv (slice_opt sv (g_end m) buf) then P_hd buf else miss j buf)
  | P_hd buf => match g_header m with Some hd => (s, P_he buf hd) | None => (s, miss j buf) end
  | P_he buf hd =>
      let r := match g_end m with Some e => ROk hd e | None => RFail end in
      (s, if locked then P_rel_hit r else P_done r)
  | P_rel_hit r => (with_lock s None, P_done r)
  | P_rel_miss buf => (with_lock s None, after_miss j buf)
  | P_acq2 pd => match sh_lock s with None => (with_lock s (Some me), P_ws pd) | Some _ => (s, p) end
  | P_ws pd => (with_memo s (set_start m (Some (pd_s pd))), P_we pd)
  | P_we pd => (with_memo s (set_end m (Some (pd_e pd))), P_wh pd)
  | P_wh pd => (with_memo s (set_header m (Some (pd_h pd))), P_tau pd)
  | P_tau pd => (s, P_scs pd)
  | P_scs pd => (s, P_sce pd (g_start m))
  | P_sce pd sv => (s, P_swk pd sv (g_end m))
  | P_swk pd sv ev =>
      (with_memo s (set_hash m (Some (slice_opt sv ev (pd_buf pd)))),
       if locked then P_rel_set (pd_res pd) else P_done (pd_res pd))
  | P_rel_set r => (with_lock s None, P_done r)
  | P_done r => (s, p)
  end.

(* ---------- the system: any number of threads, schedule = list of thread ids ---------- *)
Record state := { st_sh : shared; st_pcs : list pc }.
Fixpoint upd {A} (l : list A) (i : nat) (x : A) : list A :=
  match l, i with
  | [], _ => []
  | _ :: r, O => x :: r
  | y :: r, S k => y :: upd r k x
  end.
Definition step (jobs : list job) (t : nat) (st : state) : state :=
  match nth_error (st_pcs st) t, nth_error jobs t with
  | Some p, Some j => let '(s', p') := tstep j t p (st_sh st) in {| st_sh := s'; st_pcs := upd (st_pcs st) t p' |}
  | _, _ => st
  end.
Definition run (jobs : list job) (sched : list nat) (st : state) : state :=
  fold_left (fun st t => step jobs t st) sched st.
Definition init (jobs : list job) (m0 : gmemo) : state :=
  {| st_sh := {| sh_memo := m0; sh_lock := None |}; st_pcs := map (fun _ => P_pf) jobs |}.
Definition is_done (p : pc) : bool := match p with P_done _ => true | _ => false end.
Definition complete (st : state) : bool := forallb is_done (st_pcs st).
Definition result_of (st : state) (t : nat) : option tres :=
  match nth_error (st_pcs st) t with Some (P_done r) => Some r | _ => None end.

(* ---------- line-level runs (what the replay scheduler can produce): a scheduled thread runs from
   its line event up to its next line event ---------- *)
Fixpoint to_line (fuel : nat) (jobs : list job) (t : nat) (st : state) : state :=
  match fuel with
  | O => st
  | S f => match nth_error (st_pcs st) t with
           | Some p => if line_start p then st else to_line f jobs t (step jobs t st)
           | None => st
           end
  end.
Definition lstep (jobs : list job) (t : nat) (st : state) : state := to_line 3 jobs t (step jobs t st).
Definition lrun (jobs : list job) (sched : list nat) (st : state) : state :=
  fold_left (fun st t => lstep jobs t st) sched st.
End Threads.

(* ---------- reference: the read of a file on its own ---------- *)
(* PoseHeader.read on the whole file with the plain reader, from offset 0 *)
Definition parse (b : bytes) : option (header * N) :=
  match run_plain rd_header {| pbuf := b; poff := 0 |} with Ok (h, r) => Some (h, poff r) | Err _ => None end.
Definition result_alone (j : job) : tres :=
  match parse (j_file j) with Some (h, e) => ROk h e | None => RFail end.
(* the memo after a solo read of [file] from an empty memo *)
Definition memo_after (file : bytes) : gmemo :=
  match parse file with
  | Some (h, e) => {| g_start := Some 0; g_end := Some e; g_hash := Some (py_slice 0 e file); g_header := Some h |}
  | None => g_empty
  end.
(* the pose a plain-reader thread returns, given the header and offset PoseHeader.read left it with
   (pose.py:62-64) *)
Definition pose_from (j : job) (r : tres) : result pose :=
  match r with
  | RFail => Err Value
  | ROk h e => rmap (fun br => {| p_header := h; p_body := fst br |})
                 (run_plain (read_body no_legacy h (j_args j)) {| pbuf := j_file j; poff := e |})
  end.

(* ---------- runner entry ----------
   (1 locked dflt slack memo0 jobs sched)   memo0 = () | (file) ; job = (kind file args) ; sched = line-level thread ids
   -> (complete ((result trace pose) ...))   result = (0) | (1 header offset) ; trace = labels of the line steps taken ;
      pose = () for BytesIOReader jobs, else (result pose) *)
Definition t_job (t : tree) : job :=
  {| j_stream := negb (t_z (t_nth 0 t) =? 0)%Z; j_file := t_ns (t_nth 1 t); j_args := t_rargs (t_nth 2 t) |}.
Definition of_tres (r : tres) : tree :=
  match r with RFail => Nd [L 0] | ROk h e => Nd [L 1; of_header h; of_n e] end.
Fixpoint lrun_trace (pf : option N -> N) (locked : bool) (jobs : list job) (sched : list nat) (st : state)
    (acc : list (nat * Z)) : state * list (nat * Z) :=
  match sched with
  | [] => (st, rev acc)
  | t :: rest =>
      match nth_error (st_pcs st) t with
      | Some p => if is_done p then lrun_trace pf locked jobs rest st acc
                  else lrun_trace pf locked jobs rest (lstep pf locked jobs t st) ((t, pc_label p) :: acc)
      | None => lrun_trace pf locked jobs rest st acc
      end
  end.
Definition dispatch (t : tree) : tree :=
  let op := t_z (t_nth 0 t) in
  if (op =? 1)%Z then
    let locked := t_bool (t_nth 1 t) in
    let pf := prefetch (t_n (t_nth 2 t)) (t_n (t_nth 3 t)) in
    let m0 := match t_opt (t_nth 4 t) with Some f => memo_after (t_ns f) | None => g_empty end in
    let jobs := map t_job (t_list (t_nth 5 t)) in
    let sched := t_nats (t_nth 6 t) in
    let '(st, tr) := lrun_trace pf locked jobs sched (init jobs m0) [] in
    Nd [of_bool (complete st);
        Nd (map (fun tj =>
                   let '(t, j) := tj in
                   let r := result_of st t in
                   Nd [match r with Some r' => of_tres r' | None => Nd [] end;
                       Nd (map (fun x => L (snd x)) (filter (fun x => Nat.eqb (fst x) t) tr));
                       match r with
                       | Some r' => if uses_stream j then Nd [] else Nd [of_result of_pose (pose_from j r')]
                       | None => Nd [] end])
                (combine (seq 0 (length jobs)) jobs))]
  else Nd [L 0; L (-1)].
