(* C20 - batch collation.  Executable model of
     src/python/pose_format/torch/masked/collator.py   (pad_tensors, collate_tensors, zero_pad_collator)
     src/python/pose_format/torch/masked/torch.py      (MaskedTorch.cat / MaskedTorch.stack)
     src/python/pose_format/torch/masked/tensor.py     (MaskedTensor.__init__ default mask, __len__)
   Definitions only.  Tensors are base/Tensor.v row-major tensors; a masked tensor is a PAIR of tensors
   (values, validity) exactly as in the code.  Values are exact integers (Z); a dtype tag is carried so that
   `torch.full(..., dtype=tensor.dtype)` and the type promotion of torch.cat / torch.stack are modelled.
   The `max_len == 1` shortcut (defect F15) is modelled both as pinned ([sc_pinned]) and as repaired by
   proposed-fixes/F15-collator-maxlen1.diff ([sc_repaired], the one [pad_tensors] uses). *)
From Coq Require Import List ZArith Arith Bool.
Require Import Result Tensor.
Import ListNotations.

(* ---- dtypes: the linear part of torch's promotion lattice; torch.promote_types = max on this chain *)
Inductive dtype := DBool | DU8 | DI32 | DI64 | DF32 | DF64.
Definition dt_rank (d : dtype) : nat :=
  match d with DBool => 0 | DU8 => 1 | DI32 => 2 | DI64 => 3 | DF32 => 4 | DF64 => 5 end.
Definition dt_of_nat (n : nat) : dtype :=
  match n with 0 => DBool | 1 => DU8 | 2 => DI32 | 3 => DI64 | 4 => DF32 | _ => DF64 end.
Definition dt_max (a b : dtype) : dtype := if dt_rank a <? dt_rank b then b else a.
Definition dts (l : list dtype) : dtype := fold_left dt_max l DBool.

(* torch.full(size, fill_value=pad_value, dtype=dt): conversion of an integer pad value to dt
   (collator.py:22).  bool: non-zero -> True; uint8 wraps negatives and refuses values above 255; int32
   refuses values outside its range; int64 / floats: exact on the (small) integers considered. *)
Definition pad_fits (dt : dtype) (pv : Z) : bool :=
  match dt with
  | DU8 => (pv <=? 255)%Z && (-256 <? pv)%Z
  | DI32 => (-2147483648 <=? pv)%Z && (pv <? 2147483648)%Z
  | _ => true
  end.
Definition pad_val (dt : dtype) (pv : Z) : Z :=
  match dt with
  | DBool => if (pv =? 0)%Z then 0%Z else 1%Z
  | DU8 => (pv mod 256)%Z
  | _ => pv
  end.
Definition cast_pad (dt : dtype) (pv : Z) : result Z :=
  if pad_fits dt pv then Ok (pad_val dt pv) else Err Overflow.

(* ---- the value language of an example, and of a collated batch *)
Definition key := list Z.                       (* dictionary keys: strings as code points *)
Inductive value :=
| VMasked (dt : dtype) (t : tensor Z) (m : tensor bool)   (* MaskedTensor(tensor, mask) *)
| VPlain (dt : dtype) (t : tensor Z)                      (* torch.Tensor *)
| VInt (z : Z)                                            (* int (incl. bool) / np.int32 *)
| VStr (s : list Z)
| VDict (kvs : list (key * value))
| VTuple (vs : list value)
| VOther (tag : Z) (payload : Z).                         (* float, None, np.int64, list ...: anything else *)
Inductive out :=
| OMasked (dt : dtype) (t : tensor Z) (m : tensor bool)
| OPlain (dt : dtype) (t : tensor Z)
| OList (vs : list value)                                 (* the batch itself, passed through *)
| ODict (kvs : list (key * out))
| OTuple (os : list out).

(* ---- torch kernels used (modelled, sampled by the correspondence) *)
Fixpoint nats_eqb (a b : list nat) : bool :=
  match a, b with
  | [], [] => true
  | x :: a', y :: b' => Nat.eqb x y && nats_eqb a' b'
  | _, _ => false
  end.
Definition tfull {X} (s : list nat) (x : X) : tensor X := mkT s (repeat x (prod s)).
(* torch.cat([a, b], dim=0): ranks >= 1, equal trailing extents *)
Definition tcat0 {X} (a b : tensor X) : result (tensor X) :=
  match shape a, shape b with
  | da :: ta, db :: tb => if nats_eqb ta tb then Ok (mkT ((da + db) :: ta) (data a ++ data b)) else Err Value
  | _, _ => Err Value
  end.
(* torch.stack(ts, dim=0): non-empty, all shapes equal *)
Definition tstack0 {X} (ts : list (tensor X)) : result (tensor X) :=
  match ts with
  | [] => Err Value
  | t0 :: _ => if forallb (fun t => nats_eqb (shape t) (shape t0)) ts
               then Ok (mkT (length ts :: shape t0) (concat (map data ts))) else Err Value
  end.

(* ---- tensor-like batch elements *)
Inductive tl := TM (dt : dtype) (t : tensor Z) (m : tensor bool) | TP (dt : dtype) (t : tensor Z).
Definition is_masked (x : tl) : bool := match x with TM _ _ _ => true | TP _ _ => false end.
Definition tl_dt (x : tl) : dtype := match x with TM dt _ _ => dt | TP dt _ => dt end.
Definition tl_t (x : tl) : tensor Z := match x with TM _ t _ => t | TP _ t => t end.
Definition tl_m (x : tl) : tensor bool := match x with TM _ _ m => m | TP _ _ => mkT [] [] end.
(* tensor.py:38-47 __len__ = self.tensor.shape[0]; len() of a 0-d torch tensor raises TypeError *)
Definition tl_len (x : tl) : result nat := match shape (tl_t x) with [] => Err Type_ | d :: _ => Ok d end.

(* tensor.py:18-20: MaskedTensor(tensor) has the all-True mask of the tensor's shape *)
Definition default_mask_fill : bool := true.
Definition as_masked (x : tl) : dtype * (tensor Z * tensor bool) :=
  match x with TM dt t m => (dt, (t, m)) | TP dt t => (dt, (t, tfull (shape t) default_mask_fill)) end.

(* torch.py:41-60 MaskedTorch.cat (wraps plain tensors, cats values and masks) / torch.cat *)
Definition cat2 (masked_cls : bool) (a b : tl) : result tl :=
  if masked_cls then
    let pa := as_masked a in let pb := as_masked b in
    do t <- tcat0 (fst (snd pa)) (fst (snd pb));
    do m <- tcat0 (snd (snd pa)) (snd (snd pb));
    Ok (TM (dt_max (fst pa) (fst pb)) t m)
  else
    match a, b with
    | TP da ta, TP db tb => do t <- tcat0 ta tb; Ok (TP (dt_max da db) t)
    | _, _ => Err Type_                                  (* torch.cat given a MaskedTensor *)
    end.

(* torch.py:63-81 MaskedTorch.stack reads .tensor and .mask of every element (AttributeError on a plain
   tensor) / torch.stack (TypeError on a MaskedTensor) *)
Definition masked_parts (x : tl) : result (dtype * (tensor Z * tensor bool)) :=
  match x with TM dt t m => Ok (dt, (t, m)) | TP _ _ => Err Type_ end.
Definition plain_parts (x : tl) : result (dtype * tensor Z) :=
  match x with TP dt t => Ok (dt, t) | TM _ _ _ => Err Type_ end.
Definition stack (masked_cls : bool) (xs : list tl) : result out :=
  if masked_cls then
    do ps <- rmapM masked_parts xs;
    do t <- tstack0 (map (fun p => fst (snd p)) ps);
    do m <- tstack0 (map (fun p => snd (snd p)) ps);
    Ok (OMasked (dts (map fst ps)) t m)
  else
    do ps <- rmapM plain_parts xs;
    do t <- tstack0 (map snd ps);
    Ok (OPlain (dts (map fst ps)) t).

(* collator.py:24 mask of the padding: torch.zeros_like(padding_tensor, dtype=torch.bool) *)
Definition pad_mask_fill : bool := false.

(* collator.py:17-27, one iteration of the loop *)
Definition pad_one (masked_cls : bool) (max_len : nat) (pv : Z) (x : tl) : result tl :=
  match shape (tl_t x) with
  | [] => Err Index                                                      (* missing[0] of an empty list *)
  | n :: tail =>
      let missing0 := max_len - n in                                     (* :19, never negative: max_len is the maximum *)
      if 0 <? missing0 then                                              (* :21 *)
        do c <- cast_pad (tl_dt x) pv;
        let pt := tfull (missing0 :: tail) c in                          (* :22 torch.full(missing, pad_value, dtype=tensor.dtype) *)
        let padding := match x with
                       | TM dt _ _ => TM dt pt (tfull (missing0 :: tail) pad_mask_fill)   (* :23-24 *)
                       | TP dt _ => TP dt pt
                       end in
        cat2 masked_cls x padding                                        (* :25 cat([tensor, padding_tensor], dim=0) *)
      else Ok x
  end.

(* the shortcut of collator.py:13-14, as pinned and as repaired (F15) *)
Definition sc_pinned (lens : list nat) (max_len : nat) : bool := Nat.eqb max_len 1.
Definition sc_repaired (lens : list nat) (max_len : nat) : bool := forallb (fun n => Nat.eqb n max_len) lens.
Definition sc_none (lens : list nat) (max_len : nat) : bool := false.

(* collator.py:8-29 *)
Definition pad_tensors_with (sc : list nat -> nat -> bool) (batch : list tl) (pv : Z) : result out :=
  match batch with
  | [] => Err Index                                                      (* :9 batch[0] *)
  | datum :: _ =>
      let cls := is_masked datum in                                      (* :10 *)
      do lens <- rmapM tl_len batch;
      let max_len := list_max lens in                                    (* :12 max of a non-empty list of naturals *)
      if sc lens max_len then stack cls batch                            (* :13-14 *)
      else do nb <- rmapM (pad_one cls max_len pv) batch; stack cls nb   (* :16-29 *)
  end.
Definition pad_tensors := pad_tensors_with sc_repaired.

(* ---- type dispatch and recursion, collator.py:32-64 *)
Definition as_tl (v : value) : result tl :=
  match v with VMasked dt t m => Ok (TM dt t m) | VPlain dt t => Ok (TP dt t) | _ => Err Type_ end.
Definition in_i64 (z : Z) : bool := (-9223372036854775808 <=? z)%Z && (z <? 9223372036854775808)%Z.
(* torch.tensor(batch, dtype=torch.long): every element an integer that fits 64 bits *)
Definition as_int (v : value) : result Z :=
  match v with VInt z => if in_i64 z then Ok z else Err Overflow | _ => Err Type_ end.
Fixpoint assoc {V} (k : key) (kvs : list (key * V)) : option V :=
  match kvs with
  | [] => None
  | (k', v) :: r => if list_eq_dec Z.eq_dec k k' then Some v else assoc k r
  end.
(* b[k] *)
Definition field (k : key) (b : value) : result value :=
  match b with
  | VDict kvs => match assoc k kvs with Some v => Ok v | None => Err Key end
  | _ => Err Type_
  end.
(* b[i] *)
Definition tuple_item (i : nat) (b : value) : result value :=
  match b with
  | VTuple vs => match nth_error vs i with Some v => Ok v | None => Err Index end
  | _ => Err Type_
  end.

(* the dictionary comprehension of collator.py:63-64, over the key/value pairs of the first example; the
   collation of one field is the parameter [f] so that [collate_t] below is structurally recursive *)
Section Fields.
  Variable f : value -> list value -> result out.
  Variable rest : list value.
  Fixpoint collate_fields (l : list (key * value)) : result (list (key * out)) :=
    match l with
    | [] => Ok []
    | (k, v) :: l' =>
        do vs <- rmapM (field k) rest;                                   (* :64 [b[k] for b in batch], b = datum gives v *)
        do o <- f v vs;                                                  (* :64 collate_tensors(...) *)
        do os <- collate_fields l';
        Ok ((k, o) :: os)
    end.
End Fields.

(* collate_tensors (d :: rest) pad_value, collator.py:32-44.  The dictionary case calls
   zero_pad_collator(batch) (:36), whose own dispatch (:51-60) sends a dict datum to :63-64
   ([collate_fields], always with the default pad_value). *)
Fixpoint collate_t (d : value) (rest : list value) (pv : Z) {struct d} : result out :=
  match d with
  | VDict kvs => rmap ODict (collate_fields (fun v vs => collate_t v vs 0%Z) rest kvs)
  | VInt _ =>                                                            (* :38-39 *)
      do zs <- rmapM as_int (d :: rest);
      Ok (OPlain DI64 (mkT [length (d :: rest)] zs))
  | VMasked _ _ _ | VPlain _ _ =>                                        (* :41-42 *)
      do xs <- rmapM as_tl (d :: rest);
      pad_tensors xs pv
  | _ => Ok (OList (d :: rest))                                          (* :44 *)
  end.
Definition collate_tensors (batch : list value) (pv : Z) : result out :=
  match batch with [] => Err Index | d :: rest => collate_t d rest pv end.

(* the tuple branch, collator.py:55-56 *)
Fixpoint tuple_go (i : nat) (ds : list value) (rest : list value) : result (list out) :=
  match ds with
  | [] => Ok []
  | di :: ds' =>
      do vs <- rmapM (tuple_item i) rest;
      do o <- collate_t di vs 0%Z;
      do os <- tuple_go (S i) ds' rest;
      Ok (o :: os)
  end.

(* zero_pad_collator, collator.py:47-64 *)
Definition zero_pad_collator (batch : list value) : result out :=
  match batch with
  | [] => Err Index                                                      (* :48 *)
  | d :: rest =>
      match d with
      | VStr _ => Ok (OList batch)                                       (* :51-52 *)
      | VTuple ds => rmap OTuple (tuple_go 0 ds rest)                    (* :55-56 *)
      | VMasked _ _ _ => collate_t d rest 0%Z                            (* :59-60 *)
      | VDict _ => collate_t d rest 0%Z                                  (* :63-64 *)
      | _ => Err Type_                                                   (* :63 datum.keys() AttributeError *)
      end
  end.
