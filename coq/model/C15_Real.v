(* C15 - the real-number instance used by the theorems (definitions only; never extracted). *)
From Coq Require Import Reals ZArith List.
Require Import Result Num C15_Spatial.
Import ListNotations.

(* math.ceil on reals: the integer z with z - 1 < x <= z *)
Definition R_ceil (x : R) : option Z := Some (1 - up (- x))%Z.

Notation rpoint := (point R_ops).
Notation rframes := (frames R_ops).

(* ---- vocabulary of the statements ---- *)
(* a relation between points lifted to bodies (same frames / people / points structure) *)
Definition rel3 {A B} (Rp : A -> B -> Prop) (b : list (list (list A))) (b' : list (list (list B))) : Prop :=
  Forall2 (Forall2 (Forall2 Rp)) b b'.
Definition all3 {A} (P : A -> Prop) (b : list (list (list A))) : Prop := Forall (Forall (Forall P)) b.

Definition masks (p : rpoint) : list bool := map snd (pcs p).
Definition coords (p : rpoint) : list R := map fst (pcs p).
(* a point is missing when all its coordinates are masked *)
Definition missing (p : rpoint) : bool := allmasked R_ops p.
(* the k-th coordinate of p is observed and equals x *)
Definition observes (p : rpoint) (k : nat) (x : R) : Prop := nth_error (pcs p) k = Some (x, false).

(* bodies as the library builds them (from arrays or files): D coordinates per point, one mask bit per point,
   confidence 0 => missing.  All five operations preserve this (wf_* closure lemmas in proofs/). *)
Definition wf_point (D : nat) (p : rpoint) : Prop :=
  length (pcs p) = D /\ masks p = repeat (missing p) D /\ (pc p = 0%R -> missing p = true).
Definition wf_body (D : nat) (b : rframes) : Prop := all3 (wf_point D) b.

(* same confidence and the same missing pattern *)
Definition same_conf_mask (p p' : rpoint) : Prop := pc p' = pc p /\ masks p' = masks p.
(* ... and every observed coordinate unchanged *)
Definition same_observed (p p' : rpoint) : Prop :=
  same_conf_mask p p' /\ forall k x, observes p k x -> observes p' k x.

Definition is_min (m : R) (l : list R) : Prop := In m l /\ forall x, In x l -> (m <= x)%R.
Definition is_max (m : R) (l : list R) : Prop := In m l /\ forall x, In x l -> (x <= m)%R.
Definition is_ceil (z : Z) (x : R) : Prop := (IZR z - 1 < x <= IZR z)%R.
(* [lo, hi] is the smallest interval containing every element of l *)
Definition smallest_interval (lo hi : R) (l : list R) : Prop :=
  (forall x, In x l -> lo <= x <= hi)%R /\
  (forall lo' hi', (forall x, In x l -> lo' <= x <= hi')%R -> (lo' <= lo /\ hi <= hi')%R).

(* linear combination of two bodies of the same structure, coordinate by coordinate (masks and confidences of the first) *)
Definition lin_point (a : R) (p : rpoint) (b : R) (q : rpoint) : rpoint :=
  @mkP R_ops (zipw (fun c c' : R * bool => ((a * fst c + b * fst c')%R, snd c)) (pcs p) (pcs q)) (pc p).
Definition zip3 {A B C} (f : A -> B -> C) (X : list (list (list A))) (Y : list (list (list B))) : list (list (list C)) :=
  zipw (zipw (zipw f)) X Y.
Definition lin (a : R) (X : rframes) (b : R) (Y : rframes) : rframes := zip3 (fun p q => lin_point a p b q) X Y.

(* augmentation: the first two coordinates go through the 2x2 matrix (a00 a01; a10 a11) as a row vector *)
Definition aug_coords (a00 a01 a10 a11 : R) (l : list R) : list R :=
  match l with x0 :: x1 :: rest => (x0 * a00 + x1 * a10)%R :: (x0 * a01 + x1 * a11)%R :: rest | _ => l end.
(* header dimensions (width, height, depth) by axis *)
Definition dim_of (dims : Z * Z * Z) (d : nat) : Z :=
  match d with 0%nat => fst (fst dims) | 1%nat => snd (fst dims) | _ => snd dims end.
(* a component (list of points) without any observed point *)
Definition all_missing (cpts : list rpoint) : bool := forallb missing cpts.
