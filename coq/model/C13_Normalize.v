(* C13 - 2-point normaliser and distribution (un)normaliser, written once over [Num.ops].
   Pose.normalize (pose.py:113-150), distance_batch (utils/fast_math.py:1-28),
   Pose.normalize_distribution / unnormalize_distribution (pose.py:152-189),
   masked mean / variance / std of the TensorFlow backend (tensorflow/masked/tensor.py:385-452; numpy.ma's
   mean/std compute the same real function).  Definitions only.

   Data layout.  body.data has shape (frames, people, points, dims).  Every reduction of [normalize] is over
   axis=(0,1) jointly, so a body is the row-major list of its (frame, person) rows, a row is the list of its
   points and a point is its validity bit (numpy polarity: true = missing) and its [dims] coordinates.  The mask
   of a pose body is stacked from the confidence, i.e. it is per point, not per coordinate: that is the domain of
   this model.  Data under the mask is kept as numpy.ma keeps it (a masked result keeps the first operand's
   raw value); the theorems and the correspondence look at the zero-filled form [filled]. *)
From Coq Require Import List ZArith Bool Arith.
Require Import Num.
Import ListNotations.

Declare Scope num_scope.
Delimit Scope num_scope with num.

Section C13Normalize.
Variable O : ops.
Local Notation F := (T O).
Local Notation "x + y" := (add O x y) : num_scope.
Local Notation "x - y" := (sub O x y) : num_scope.
Local Notation "x * y" := (mul O x y) : num_scope.
Local Notation "x / y" := (div O x y) : num_scope.
Local Open Scope num_scope.

Record pt := mkpt { pm : bool; pc : list F }.
Definition getp (r : list pt) (i : nat) : pt := nth i r (mkpt true []).
Definition coord (p : pt) (d : nat) : F := nth d (pc p) (zero O).
Definition sq (x : F) : F := x * x.
Definition two : F := of_Z O 2.

(* transposed[info.p1], transposed[info.p2] (pose.py:135-138): per row; an arithmetic result is missing when
   either operand is *)
Definition both (i j : nat) (r : list pt) : bool := negb (pm (getp r i) || pm (getp r j)).
(* ((p2s + p1s) / 2) for coordinate d of one row (pose.py:141) *)
Definition mid (i j d : nat) (r : list pt) : F := (coord (getp r j) d + coord (getp r i) d) / two.
(* .mean(axis=(0, 1)): masked mean over the rows in which both points are observed (pose.py:141;
   tensorflow/masked/tensor.py:385-404: sum of the zero-filled values / count of valid entries) *)
Definition center (D i j : nat) (b : list (list pt)) : list F :=
  map (fun d => mean O (map (mid i j d) (filter (both i j) b))) (seq 0 D).
(* distance_batch (fast_math.py:26-28): squared = (p1s - p2s)**2; summed = squared.sum(axis=-1); summed**0.5 *)
Definition dist (D i j : nat) (r : list pt) : F :=
  sqrt O (sum O (map (fun d => sq (coord (getp r i) d - coord (getp r j) d)) (seq 0 D))).
(* distance_batch(p1s, p2s).mean() (pose.py:145) *)
Definition mean_distance (D i j : nat) (b : list (list pt)) : F :=
  mean O (map (dist D i j) (filter (both i j) b)).
(* self.body.data -= center (pose.py:143): in place, data under the mask untouched *)
Definition shift (D : nat) (c : list F) (p : pt) : pt :=
  if pm p then p else mkpt false (map (fun d => coord p d - nth d c (zero O)) (seq 0 D)).
(* self.body.data = self.body.data * scale (pose.py:150) *)
Definition scalept (s : F) (p : pt) : pt :=
  if pm p then p else mkpt false (map (fun x => x * s) (pc p)).
(* Pose.normalize (pose.py:113-150).  p1s / p2s are views of body.data (ma.transpose), so the distances are
   taken after the in-place shift; the TensorFlow body takes them before (same real number).  When no row
   observes both points the masked mean is itself masked and masks everything. *)
Definition normalize (D i j : nat) (sf : F) (b : list (list pt)) : list (list pt) :=
  match filter (both i j) b with
  | [] => map (map (fun p => mkpt true (pc p))) b
  | _ :: _ =>
      let c := center D i j b in
      let b1 := map (map (shift D c)) b in
      let md := mean_distance D i j b1 in
      let s := sf / md in
      map (map (scalept s)) b1
  end.
(* what an observer of the masked array sees: ma.filled(0) / MaskedTensor.zero_filled(), plus the mask *)
Definition filled (D : nat) (b : list (list pt)) : list (list pt) :=
  map (map (fun p => if pm p then mkpt true (repeat (zero O) D) else p)) b.

(* ---------------- distribution ---------------- *)
(* body.data flattened row-major to cells; reducing over a leading block of axes puts cell i in group
   [key i] = i mod (product of the remaining extents); the theorems hold for any grouping function *)
Record cell := mkcell { cm : bool; cv : F }.
Fixpoint gvals (key : nat -> nat) (g i : nat) (cs : list cell) : list F :=
  match cs with
  | [] => []
  | c :: r => if Nat.eqb (key i) g && negb (cm c) then cv c :: gvals key g (S i) r else gvals key g (S i) r
  end.
Fixpoint imap {A B} (f : nat -> A -> B) (i : nat) (l : list A) : list B :=
  match l with [] => [] | a :: r => f i a :: imap f (S i) r end.
(* data.mean(axis=axis) (pose.py:173; tensor.py:385-404) *)
Definition gmean (key : nat -> nat) (cs : list cell) (g : nat) : F := mean O (gvals key g 0 cs).
(* data.std(axis=axis) (pose.py:174; tensor.py:406-452): sqrt(mean((x - mean)^2)), population deviation *)
Definition gstd (key : nat -> nat) (cs : list cell) (g : nat) : F :=
  let m := gmean key cs g in sqrt O (mean O (map (fun v => sq (v - m)) (gvals key g 0 cs))).
Definition gcount (key : nat -> nat) (cs : list cell) (g : nat) : nat := length (gvals key g 0 cs).
(* the returned statistics, one per group; missing when the group has no observed cell *)
Definition stats (key : nat -> nat) (G : nat) (cs : list cell) : list cell * list cell :=
  (map (fun g => mkcell (Nat.eqb (gcount key cs g) 0) (gmean key cs g)) (seq 0 G),
   map (fun g => mkcell (Nat.eqb (gcount key cs g) 0) (gstd key cs g)) (seq 0 G)).
Definition stat (l : list cell) (g : nat) : cell := nth g l (mkcell true (zero O)).
(* self.body.data = (self.body.data - mu) / std (pose.py:176): entry [key i] of mu / std meets cell i *)
Definition apply_stats (key : nat -> nat) (mu sd : list cell) (cs : list cell) : list cell :=
  imap (fun i c => let m := stat mu (key i) in let s := stat sd (key i) in
                   if cm c || cm m || cm s then mkcell true (cv c) else mkcell false ((cv c - cv m) / cv s)) 0 cs.
(* normalize_distribution (pose.py:152-178).  [gkey i] is the group cell i is reduced in (data.mean(axis=axis)
   drops the reduced axes); [bkey i] is the entry of the statistics that numpy / tf broadcasting pairs with cell i in
   (data - mu) / std.  For a leading block of axes both are i mod G; for other axis tuples the statistics are
   right-aligned against the wrong axes (model/C13_Axes.v computes both from shape and axis). *)
Definition normalize_distribution (gkey bkey : nat -> nat) (G : nat) (cs : list cell) : list cell * (list cell * list cell) :=
  let st := stats gkey G cs in (apply_stats bkey (fst st) (snd st) cs, st).
(* self.body.data = (self.body.data * std) + mu (pose.py:189) *)
Definition unnormalize_distribution (key : nat -> nat) (mu sd : list cell) (cs : list cell) : list cell :=
  imap (fun i c => let m := stat mu (key i) in let s := stat sd (key i) in
                   if cm c || cm s || cm m then mkcell true (cv c) else mkcell false ((cv c * cv s) + cv m)) 0 cs.
Definition cfilled (cs : list cell) : list cell := map (fun c => if cm c then mkcell true (zero O) else c) cs.
End C13Normalize.
Arguments mkpt {O}. Arguments pm {O}. Arguments pc {O}.
Arguments mkcell {O}. Arguments cm {O}. Arguments cv {O}.
