(* C11 runner protocol (all (de)serialisation in Gallina, base/Tree.v).  Request (op tfe pose a1 a2):
     1 get_components  a1 = (name ...)                 a2 = () | (((name (point ...)) ...))
     2 remove_components a1 = (0 name) | (1 (name ...)) a2 = as above
     3 get_point_index a1 = component a2 = point                                  -> result nat
     4 pose_hide_legs  a1 = remove flag
     5 correct_wrist   a1 = hand          6 correct_wrists          7 reduce_holistic
   pose = (version (dims) bbox (component ...) body), component = (name format (point ...) ((a b) ...) ((r g b) ...)),
   body = (backend fps (shape cells) (shape cells) (shape flags)) for data / confidence / mask (1 = missing),
   strings = UTF-8 byte lists.  Reply: result (source-after result-pose same-object?). *)
From Coq Require Import List Arith NArith ZArith Bool.
Require Import Result Tree Tensor C11_Str C11_Select C11_Helpers C11_Heap.
Import ListNotations.
Open Scope list_scope.

Definition t_string (t : tree) : str := str_of_codes (t_ns t).
Definition of_string (s : str) : tree := of_ns (codes_of_str s).
Definition t_strings (t : tree) : list str := map t_string (t_list t).
Definition t_component (t : tree) : component :=
  mkC (t_string (t_nth 0 t)) (t_strings (t_nth 2 t))
      (map (fun l => (t_nat (t_nth 0 l), t_nat (t_nth 1 l))) (t_list (t_nth 3 t)))
      (map t_zs (t_list (t_nth 4 t))) (t_string (t_nth 1 t)).
Definition of_component (c : component) : tree :=
  Nd [of_string (c_name c); of_string (c_format c); Nd (map of_string (c_points c));
      Nd (map (fun l => Nd [of_nat (fst l); of_nat (snd l)]) (c_limbs c)); Nd (map of_zs (c_colors c))].
Definition t_backend (t : tree) : backend :=
  match t_nat t with 0 => Numpy | 1 => Torch | _ => TF end.
Definition of_backend (b : backend) : tree := of_nat (match b with Numpy => 0 | Torch => 1 | TF => 2 end).
Definition t_tensor {X} (f : tree -> X) (t : tree) : tensor X := mkT (t_nats (t_nth 0 t)) (map f (t_list (t_nth 1 t))).
Definition of_tensor {X} (f : X -> tree) (t : tensor X) : tree := Nd [of_nats (shape t); Nd (map f (data t))].
Definition t_body (t : tree) : body :=
  mkB (t_backend (t_nth 0 t)) (t_z (t_nth 1 t)) (t_tensor t_z (t_nth 2 t)) (t_tensor t_z (t_nth 3 t)) (t_tensor t_bool (t_nth 4 t)).
Definition of_body (b : body) : tree :=
  Nd [of_backend (b_backend b); L (b_fps b); of_tensor L (b_data b); of_tensor L (b_conf b); of_tensor of_bool (b_mask b)].
Definition body_wfb (b : body) : bool := wfb (b_data b) && wfb (b_conf b) && wfb (b_mask b).
Definition t_vpose (t : tree) : vpose :=
  mkV (t_z (t_nth 0 t)) (t_zs (t_nth 1 t)) (t_bool (t_nth 2 t)) (map t_component (t_list (t_nth 3 t))) (t_body (t_nth 4 t)).
Definition of_vpose (v : vpose) : tree :=
  Nd [L (v_version v); of_zs (v_dims v); of_bool (v_bbox v); Nd (map of_component (v_comps v)); of_body (v_body v)].
Definition t_dict (t : tree) : points_dict :=
  match t_opt t with
  | Some d => Some (map (fun e => (t_string (t_nth 0 e), t_strings (t_nth 1 e))) (t_list d))
  | None => None
  end.
(* the initial heap: the components, then the body *)
Definition load (v : vpose) : heap * pose :=
  let '(h1, addrs) := alloc_all [] (map OComp (v_comps v)) in
  let '(h2, ba) := alloc h1 (OBody (v_body v)) in
  (h2, mkP (v_version v) (v_dims v) (v_bbox v) addrs ba).
Definition pose_eqb (p q : pose) : bool :=
  Nat.eqb (p_body p) (p_body q) && Nat.eqb (length (p_comps p)) (length (p_comps q))
  && forallb (fun ab => Nat.eqb (fst ab) (snd ab)) (combine (p_comps p) (p_comps q)).
Definition of_outcome (src : pose) (r : result (heap * pose)) : tree :=
  of_result (fun hp => Nd [of_result of_vpose (deref (fst hp) src); of_result of_vpose (deref (fst hp) (snd hp));
                           of_bool (pose_eqb src (snd hp))]) r.

Definition dispatch_with (T : tables) (t : tree) : tree :=
  let op := t_z (t_nth 0 t) in
  let tfe := t_bool (t_nth 1 t) in
  let v := t_vpose (t_nth 2 t) in
  let a1 := t_nth 3 t in
  let a2 := t_nth 4 t in
  if negb (body_wfb (v_body v)) then Nd [L 0; L (-2)] else
  let '(h, p) := load v in
  if (op =? 1)%Z then of_outcome p (get_components_h tfe h p (t_strings a1) (t_dict a2))
  else if (op =? 2)%Z then
    of_outcome p (remove_components_h tfe h p
                    (if (t_z (t_nth 0 a1) =? 0)%Z then [t_string (t_nth 1 a1)] else t_strings (t_nth 1 a1)) (t_dict a2))
  else if (op =? 3)%Z then of_result of_nat (point_index_h h p (t_string a1) (t_string a2))
  else if (op =? 4)%Z then of_outcome p (hide_legs_h T tfe h p (t_bool a1))
  else if (op =? 5)%Z then of_outcome p (correct_wrist_h T h p (t_string a1))
  else if (op =? 6)%Z then of_outcome p (correct_wrists_h T h p "LEFT" "RIGHT")     (* generic.py:281-282 *)
  else if (op =? 7)%Z then of_outcome p (reduce_holistic_h T tfe h p)
  else Nd [L 0; L (-1)].
