(* C17 - the source text the hand-written models (model/C17_Repr.v, model/C17_Layout.v) were transcribed from:
   statement sequences of the anchored functions as `ast.unparse` prints them (docstrings and comments
   dropped).  Definitions only.  proofs/C17_GenTie.v proves that what harness/translate_c17.py regenerates
   from /repo on every run (coq/gen/Gen_C17.v) is equal to this text.
   The two repaired statements are recorded in their REPAIRED form:
     masked_zero_filled_kind = "Where"  (defect F9,  proposed-fixes/F9-zero-filled.diff)
     torch_points_flatten_kind = "Reshape" (defect F17, proposed-fixes/F17-points-view.diff) *)
From Coq Require Import String List.
Import ListNotations.
Open Scope string_scope.

Definition torch_distance_distance : list string :=
  [ "diff = p1s - p2s";
    "square = diff.pow_(2)";
    "sum_squares = square.sum(dim=-1)";
    "return MaskedTorch.sqrt(sum_squares)" ].

Definition torch_distance_forward : list string :=
  [ "return self.distance(p1s, p2s).zero_filled()" ].

Definition torch_angle_forward : list string :=
  [ "dims = p1s.shape[-1]";
    "d = p2s - p1s";
    "xs, ys = d.split([1] * dims, dim=3)[:2]";
    "slopes = ys.div(xs).fix_nan().zero_filled().squeeze(axis=3)";
    "return torch.atan(slopes)" ].

Definition torch_inner_vectors_norm : list string :=
  [ "square = MaskedTorch.square(vectors)";
    "summed = square.sum(dim=-1)";
    "v_mag = MaskedTorch.sqrt(summed)";
    "mag_stack = MaskedTorch.stack([v_mag] * vectors.shape[-1], dim=-1)";
    "return vectors.div(mag_stack)" ].

Definition torch_inner_forward : list string :=
  [ "v1 = p1s - p2s";
    "v2 = p3s - p2s";
    "v1_norm = get_vectors_norm(v1)";
    "v2_norm = get_vectors_norm(v2)";
    "slopes = (v1_norm * v2_norm).sum(dim=-1)";
    "angles = MaskedTorch.acos(slopes)";
    "angles = angles.zero_filled()";
    "angles[angles != angles] = 0";
    "return angles" ].

Definition torch_pld_init : list string :=
  [ "super(PointLineDistanceRepresentation, self).__init__()";
    "self.distance = DistanceRepresentation()" ].

Definition torch_pld_forward : list string :=
  [ "a = self.distance.distance(p1s, p2s)";
    "b = self.distance.distance(p2s, p3s)";
    "c = self.distance.distance(p1s, p3s)";
    "s: MaskedTensor = (a + b + c) / 2";
    "squared = s * (s - a) * (s - b) * (s - c)";
    "area = MaskedTorch.sqrt(squared)";
    "square_area: MaskedTensor = area * 2";
    "distance = square_area / b";
    "distance.fix_nan()";
    "return distance.zero_filled()" ].

Definition torch_points_forward_prefix : list string :=
  [ "p1s = p1s.zero_filled()";
    "p1s = p1s.transpose(1, 3)";
    "p1s = p1s.transpose(2, 3)";
    "shape = p1s.shape" ].

Definition torch_points_flatten_kind : string := "Reshape".

Definition tf_distance_distance : list string :=
  [ "diff = p1s - p2s";
    "square = tf.square(diff)";
    "sum_squares = tf.reduce_sum(square, axis=-1)";
    "return tf.sqrt(sum_squares)" ].

Definition tf_distance_call : list string :=
  [ "return self.distance(p1s, p2s)" ].

Definition tf_angle_call : list string :=
  [ "dims = p1s.shape[-1]";
    "d = p2s - p1s";
    "xs, ys = tf.split(d, [1] * dims, axis=3)[:2]";
    "slopes = tf.math.divide_no_nan(ys, xs)";
    "slopes = tf.squeeze(slopes, axis=3)";
    "return tf.math.atan(slopes)" ].

Definition tf_inner_vectors_norm : list string :=
  [ "transposed = tf.transpose(vectors)";
    "v_mag = tf.sqrt(tf.math.reduce_sum(transposed * transposed, axis=0))";
    "return tf.transpose(tf.math.divide_no_nan(transposed, v_mag))" ].

Definition tf_inner_call : list string :=
  [ "v1 = p1s - p2s";
    "v2 = p3s - p2s";
    "v1_norm = get_vectors_norm(v1)";
    "v2_norm = get_vectors_norm(v2)";
    "slopes = tf.reduce_sum(v1_norm * v2_norm, axis=3)";
    "angles = tf.acos(slopes)";
    "angles = tf.where(tf.math.is_nan(angles), 0.0, angles)";
    "return angles" ].

Definition tf_pld_init : list string :=
  [ "self.distance = DistanceRepresentation()" ].

Definition tf_pld_call : list string :=
  [ "a = self.distance.distance(p1s, p2s)";
    "b = self.distance.distance(p2s, p3s)";
    "c = self.distance.distance(p1s, p3s)";
    "s: tf.Tensor = (a + b + c) / 2";
    "squared = s * (s - a) * (s - b) * (s - c)";
    "area = tf.sqrt(squared)";
    "square_area: tf.Tensor = area * 2";
    "distance = tf.math.divide_no_nan(square_area, b)";
    "return distance" ].

Definition np_distance_distance : list string :=
  [ "diff = p1s - p2s";
    "square = ma.power(diff, 2)";
    "sum_squares = square.sum(axis=-1)";
    "sqrt = ma.sqrt(sum_squares).filled(0)";
    "return sqrt" ].

Definition np_distance_call : list string :=
  [ "return self.distance(p1s, p2s)" ].

Definition masked_arithmetic : list string :=
  [ "if isinstance(other, MaskedTensor):
    tensor = getattr(self.tensor, action)(other.tensor)
    mask = self.mask & other.mask
else:
    tensor = getattr(self.tensor, action)(other)
    mask = self.mask.expand(tensor.shape)";
    "return MaskedTensor(tensor=tensor, mask=mask)" ].

Definition masked_add : list string :=
  [ "return self.arithmetic('__add__', other)" ].

Definition masked_sub : list string :=
  [ "return self.arithmetic('__sub__', other)" ].

Definition masked_mul : list string :=
  [ "return self.arithmetic('__mul__', other)" ].

Definition masked_truediv : list string :=
  [ "return self.arithmetic('__truediv__', other)" ].

Definition masked_pow : list string :=
  [ "self.tensor.pow_(exponent)";
    "return self" ].

Definition masked_sum : list string :=
  [ "tensor = self.tensor.sum(dim=dim)";
    "mask = self.mask.prod(dim=dim).bool()";
    "return MaskedTensor(tensor=tensor, mask=mask)" ].

Definition masked_fix_nan : list string :=
  [ "self.tensor[self.tensor != self.tensor] = 0";
    "return self" ].

Definition masked_div : list string :=
  [ "tensor = torch.div(self.tensor, other.tensor, out=self.tensor if in_place else None)";
    "mask = self.mask & other.mask if update_mask else self.mask.expand(tensor.shape)";
    "return MaskedTensor(tensor, mask)" ].

Definition masked_getitem : list string :=
  [ "tensor = self.tensor[key]";
    "mask = self.mask[key]";
    "return MaskedTensor(tensor=tensor, mask=mask)" ].

Definition masked_permute : list string :=
  [ "tensor = self.tensor.permute(dims)";
    "mask = self.mask.permute(dims)";
    "return MaskedTensor(tensor=tensor, mask=mask)" ].

Definition masked_split : list string :=
  [ "tensors = torch.split(self.tensor, split_size_or_sections, dim)";
    "masks = torch.split(self.mask, split_size_or_sections, dim)";
    "return [MaskedTensor(tensor=tensor, mask=mask) for tensor, mask in zip(tensors, masks)]" ].

Definition masked_squeeze : list string :=
  [ "tensor = self.tensor.squeeze(dim)";
    "mask = self.mask.squeeze(dim)";
    "return MaskedTensor(tensor=tensor, mask=mask)" ].

Definition masked_transpose : list string :=
  [ "tensor = self.tensor.transpose(dim0, dim1)";
    "mask = self.mask.transpose(dim0, dim1)";
    "return MaskedTensor(tensor=tensor, mask=mask)" ].

Definition masked_zero_filled_kind : string := "Where".

Definition torch_fallback_getattr : list string :=
  [ "def func(*args, **kwargs):
    if len(args) > 0 and isinstance(args[0], MaskedTensor):
        args = list(args)
        mask = args[0].mask
        args[0] = args[0].tensor
        res = getattr(torch, attr)(*args, **kwargs)
        if attr in TorchFallback.doesnt_change_mask:
            return MaskedTensor(res, mask)
        else:
            return res
    else:
        return getattr(torch, attr)(*args, **kwargs)";
    "return func" ].

Definition masked_torch_stack : list string :=
  [ "tensor = torch.stack([t.tensor for t in tensors], dim=dim)";
    "mask = torch.stack([t.mask for t in tensors], dim=dim)";
    "return MaskedTensor(tensor=tensor, mask=mask)" ].

Definition repr_init : list string :=
  [ "self.header = header";
    "self.input_size = sum([len(c.points) for c in header.components])";
    "dims = len(header.components[0].format)";
    "self.rep_modules1 = rep_modules1";
    "self.rep_modules1_size = self.input_size * dims";
    "self.rep_modules2 = rep_modules2";
    "self.limb_pt1s, self.limb_pt2s = self.get_limbs_points()";
    "self.rep_modules2_size = len(self.limb_pt1s)";
    "self.rep_modules3 = rep_modules3";
    "self.triangle_pt1s, self.triangle_pt2s, self.triangle_pt3s = self.get_triangles_points()";
    "self.rep_modules3_size = len(self.triangle_pt1s)";
    "self.output_size = self.calc_output_size()" ].

Definition repr_calc_output_size : list string :=
  [ "return len(self.rep_modules1) * self.rep_modules1_size + len(self.rep_modules2) * self.rep_modules2_size + len(self.rep_modules3) * self.rep_modules3_size" ].

Definition repr_get_limbs_points : list string :=
  [ "pt1s = []";
    "pt2s = []";
    "idx = 0";
    "for component in self.header.components:
    for a, b in component.limbs:
        pt1s.append(a + idx)
        pt2s.append(b + idx)
    idx += len(component.points)";
    "return (pt1s, pt2s)" ].

Definition repr_get_triangles_points : list string :=
  [ "assert self.limb_pt1s";
    "assert self.limb_pt2s";
    "chains = [(p1, p2, p4) for p1, p2 in zip(self.limb_pt1s, self.limb_pt2s) for p3, p4 in zip(self.limb_pt1s, self.limb_pt2s) if p2 == p3]";
    "branches = []";
    "triangles = chains + branches";
    "return list(zip(*triangles))" ].

Definition repr_get_points : list string :=
  [ "return tensor[points]" ].

Definition repr_call : list string :=
  [ "points = self.permute(src, (2, 0, 1, 3))";
    "embeds = []";
    "if len(self.rep_modules1) > 0:
    embeds += [module(points) for module in self.rep_modules1]";
    "if len(self.rep_modules2) > 0:
    pt1s = self.get_points(points, self.limb_pt1s)
    pt2s = self.get_points(points, self.limb_pt2s)
    embeds += [module(p1s=pt1s, p2s=pt2s) for module in self.rep_modules2]";
    "if len(self.rep_modules3) > 0:
    pt1s = self.get_points(points, self.triangle_pt1s)
    pt2s = self.get_points(points, self.triangle_pt2s)
    pt3s = self.get_points(points, self.triangle_pt3s)
    embeds += [module(p1s=pt1s, p2s=pt2s, p3s=pt3s) for module in self.rep_modules3]";
    "return self.group_embeds(embeds)" ].

Definition torch_repr_init : list string :=
  [ "super(TorchPoseRepresentation, self).__init__(header, rep_modules1, rep_modules2, rep_modules3)";
    "self.limb_pt1s = torch.tensor(self.limb_pt1s, dtype=torch.long)";
    "self.limb_pt2s = torch.tensor(self.limb_pt2s, dtype=torch.long)";
    "self.triangle_pt1s = torch.tensor(self.triangle_pt1s, dtype=torch.long)";
    "self.triangle_pt2s = torch.tensor(self.triangle_pt2s, dtype=torch.long)";
    "self.triangle_pt3s = torch.tensor(self.triangle_pt3s, dtype=torch.long)" ].

Definition torch_repr_group_embeds : list string :=
  [ "group = torch.cat(embeds, dim=0)";
    "return group.permute(dims=[1, 2, 0])" ].

Definition torch_repr_permute : list string :=
  [ "return src.permute(shape)" ].

Definition tf_repr_group_embeds : list string :=
  [ "group = tf.concat(embeds, axis=0)";
    "return tf.transpose(group, perm=[1, 2, 0])" ].

Definition tf_repr_get_points : list string :=
  [ "return tf.gather(tensor, points)" ].

Definition tf_repr_permute : list string :=
  [ "return tf.transpose(src, perm=shape)" ].

