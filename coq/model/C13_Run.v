(* C13 - wire format and dispatch of the runner "c13" (binary64 instance of the numeric models).
   (1 D i j sf rows)                 -> rows                    Pose.normalize
   (2 G cells)                       -> (cells mu std)          Pose.normalize_distribution, groups i mod G
   (3 G cells mu std)                -> cells                   Pose.unnormalize_distribution
   (4 p1 p2 p3 l1 l2 size rows)      -> rows                    PoseNormalizer(plane, line, size)(data)
   (5 header)                        -> result (i j)            pose_normalization_info
   (6 header)                        -> result (((a b c) (d e)) ((a b c) (d e)))   normalize_hands_3d lookups
   (7 x y)                           -> (c s)                   the in-plane rotation entries used by (4)
   (8 shape axes cells)              -> result (cells mu std)   normalize_distribution(axis=axes), any axis tuple
   (9 shape axes cells mu std)       -> cells                   unnormalize_distribution with statistics of (8)
   floats are binary64 words; a point is (missing (coords)); a cell is (missing value);
   header = ((name (point-name ...)) ...), names as code point lists *)
From Coq Require Import ZArith NArith List Bool PrimFloat.
Require Import Result Tree Num C13_Normalize C13_Norm3d C13_Lookup C13_Axes.
Import ListNotations.

Definition fl (t : tree) : float := float_of_bits (t_z t).
Definition of_fl (f : float) : tree := L (bits_of_float f).
Definition t_pt (t : tree) : pt F_ops := @mkpt F_ops (t_bool (t_nth 0 t)) (map fl (t_list (t_nth 1 t))).
Definition of_pt (p : pt F_ops) : tree := Nd [of_bool (pm p); Nd (map of_fl (pc p))].
Definition t_rows (t : tree) : list (list (pt F_ops)) := map (fun r => map t_pt (t_list r)) (t_list t).
Definition of_rows (b : list (list (pt F_ops))) : tree := Nd (map (fun r => Nd (map of_pt r)) b).
Definition t_cell (t : tree) : cell F_ops := @mkcell F_ops (t_bool (t_nth 0 t)) (fl (t_nth 1 t)).
Definition of_cell (c : cell F_ops) : tree := Nd [of_bool (cm c); of_fl (cv c)].
Definition t_cells (t : tree) : list (cell F_ops) := map t_cell (t_list t).
Definition of_cells (l : list (cell F_ops)) : tree := Nd (map of_cell l).
Definition t_p3 (t : tree) : p3 F_ops :=
  let c := t_nth 1 t in @mkp3 F_ops (t_bool (t_nth 0 t)) (@V3 F_ops (fl (t_nth 0 c)) (fl (t_nth 1 c)) (fl (t_nth 2 c))).
Definition of_p3 (p : p3 F_ops) : tree :=
  Nd [of_bool (m3 p); Nd [of_fl (vx (c3 p)); of_fl (vy (c3 p)); of_fl (vz (c3 p))]].
Definition t_rows3 (t : tree) : list (list (p3 F_ops)) := map (fun r => map t_p3 (t_list r)) (t_list t).
Definition of_rows3 (b : list (list (p3 F_ops))) : tree := Nd (map (fun r => Nd (map of_p3 r)) b).
Definition t_header (t : tree) : list hcomp :=
  map (fun c => {| hc_name := t_ns (t_nth 0 c); hc_points := map t_ns (t_list (t_nth 1 c)) |}) (t_list t).
Definition of_plane_line (x : (nat * nat * nat) * (nat * nat)) : tree :=
  let '((a, b, c), (d, e)) := x in Nd [of_nats [a; b; c]; of_nats [d; e]].
Definition modkey (G : nat) (i : nat) : nat := Nat.modulo i G.

Definition dispatch (t : tree) : tree :=
  let op := t_z (t_nth 0 t) in
  if (op =? 1)%Z then
    of_rows (normalize F_ops (t_nat (t_nth 1 t)) (t_nat (t_nth 2 t)) (t_nat (t_nth 3 t)) (fl (t_nth 4 t)) (t_rows (t_nth 5 t)))
  else if (op =? 2)%Z then
    let G := t_nat (t_nth 1 t) in
    let r := normalize_distribution F_ops (modkey G) (modkey G) G (t_cells (t_nth 2 t)) in
    Nd [of_cells (fst r); of_cells (fst (snd r)); of_cells (snd (snd r))]
  else if (op =? 3)%Z then
    let G := t_nat (t_nth 1 t) in
    of_cells (unnormalize_distribution F_ops (modkey G) (t_cells (t_nth 3 t)) (t_cells (t_nth 4 t)) (t_cells (t_nth 2 t)))
  else if (op =? 4)%Z then
    of_rows3 (normalize3d F_ops (zrot_closed F_ops) (t_nat (t_nth 1 t)) (t_nat (t_nth 2 t)) (t_nat (t_nth 3 t))
                          (t_nat (t_nth 4 t)) (t_nat (t_nth 5 t)) (fl (t_nth 6 t)) (t_rows3 (t_nth 7 t)))
  else if (op =? 5)%Z then
    of_result (fun ij => of_nats [fst ij; snd ij]) (pose_normalization_info (t_header (t_nth 1 t)))
  else if (op =? 6)%Z then
    of_result (fun lr => Nd [of_plane_line (fst lr); of_plane_line (snd lr)]) (hands_3d_info (t_header (t_nth 1 t)))
  else if (op =? 7)%Z then
    let cs := zrot_closed F_ops (fl (t_nth 1 t)) (fl (t_nth 2 t)) in Nd [of_fl (fst cs); of_fl (snd cs)]
  else if (op =? 8)%Z then
    let shape := t_nats (t_nth 1 t) in let axes := t_nats (t_nth 2 t) in
    if broadcast_ok shape axes then
      let r := normalize_distribution F_ops (gkey_of shape axes) (bkey_of shape axes) (groups_of shape axes) (t_cells (t_nth 3 t)) in
      Nd [L 1; Nd [of_cells (fst r); of_cells (fst (snd r)); of_cells (snd (snd r))]]
    else Nd [L 0; L 4]
  else if (op =? 9)%Z then
    let shape := t_nats (t_nth 1 t) in let axes := t_nats (t_nth 2 t) in
    of_cells (unnormalize_distribution F_ops (bkey_of shape axes) (t_cells (t_nth 4 t)) (t_cells (t_nth 5 t)) (t_cells (t_nth 3 t)))
  else Nd [L 0; L (-1)].
