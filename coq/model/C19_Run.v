(* C19 runner protocol (all (de)serialisation in Gallina, base/Tree.v):
   (1 frames fps w h d nf)   load_openpose on the 137-point table        -> result pose
   (2 entries fps w h d nf)  load_openpose_directory                     -> result pose
   (3 entries fps w h d nf)  load_openpose_135_directory                 -> result pose
   (4 name)                  get_frame_id                                -> result N
   (5)                       (pattern components_137 components_135)
   frames = ((fid (person ...)) ...), person = ((key (w64 ...)) ...), entries = ((name (person ...)) ...),
   fps = (0 z) | (1 w64), nf = () | (n);  pose = (comps dims fps shape data mask conf), nested lists. *)
From Coq Require Import String Ascii List Arith NArith ZArith Bool.
Require Import Result Tree F32 C19_Layout C19_FrameId C19_OpenPose.
Import ListNotations.
Local Open Scope nat_scope.

Definition t_person (t : tree) : person := map (fun kv => (t_ns (t_nth 0 kv), t_ns (t_nth 1 kv))) (t_list t).
Definition t_frame (t : tree) : frame := map t_person (t_list t).
Definition t_frames (t : tree) : frames := map (fun x => (t_nat (t_nth 0 x), t_frame (t_nth 1 x))) (t_list t).
Definition t_entries (t : tree) : list (list N * frame) := map (fun x => (t_ns (t_nth 0 x), t_frame (t_nth 1 x))) (t_list t).
Definition t_num (t : tree) : num := if Z.eqb (t_z (t_nth 0 t)) 0 then NInt (t_z (t_nth 1 t)) else NFloat (t_n (t_nth 1 t)).
Definition t_optnat (t : tree) : option nat := match t_opt t with Some x => Some (t_nat x) | None => None end.

Definition of_comp (c : comp) : tree :=
  Nd [of_ns (c_name c); Nd (map of_ns (c_points c));
      Nd (map (fun l => Nd [of_nat (fst l); of_nat (snd l)]) (c_limbs c)); of_ns (c_format c)].
Definition of_num (x : num) : tree := match x with NInt z => Nd [L 0; L z] | NFloat w => Nd [L 1; of_n w] end.
Definition of_pose (p : pose) : tree :=
  let '(w, h, d) := p_dims p in
  let '(f, pp, k) := p_shape p in
  Nd [Nd (map of_comp (p_comps p)); Nd [L w; L h; L d]; of_num (p_fps p); Nd [of_nat f; of_nat pp; of_nat k];
      Nd (map (fun a => Nd (map (fun b => Nd (map of_ns b)) a)) (p_data p));
      Nd (map (fun a => Nd (map (fun b => Nd (map of_bools b)) a)) (p_mask p));
      Nd (map (fun a => Nd (map of_ns a)) (p_conf p))].

Definition dispatch (t : tree) : tree :=
  let op := t_z (t_nth 0 t) in
  let args (g : num -> Z -> Z -> Z -> option nat -> result pose) :=
    of_result of_pose (g (t_num (t_nth 2 t)) (t_z (t_nth 3 t)) (t_z (t_nth 4 t)) (t_z (t_nth 5 t)) (t_optnat (t_nth 6 t))) in
  if (op =? 1)%Z then args (load_openpose comps137 (t_frames (t_nth 1 t)))
  else if (op =? 2)%Z then args (load_openpose_directory (t_entries (t_nth 1 t)))
  else if (op =? 3)%Z then args (load_openpose_135_directory (t_entries (t_nth 1 t)))
  else if (op =? 4)%Z then of_result of_n (get_frame_id (t_ns (t_nth 1 t)))
  else if (op =? 5)%Z then Nd [of_ns pattern_k; Nd (map of_comp comps137); Nd (map of_comp comps135)]
  else Nd [L 0; L (-1)].
