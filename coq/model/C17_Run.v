(* C17 runner protocol (all (de)serialisation in Gallina, base/Tree.v).  Floats are binary64 words.
   (1 fn D (w..) (v..) (w..) (v..) (w..) (v..))     fn: 0 distance 1 angle 2 inner angle 3 point-line distance
        three point tensors (row-major, D last) as words + validity; the third is ignored for fn 0,1
        -> ((torch..) (tf..) (numpy..))  one word per cell; tf runs on the zero-filled values; numpy only for fn 0
   (2 backend header (m1..) (m2..) (m3..) B L P D (w..) (v..))   backend 0 torch 1 tensorflow
        header = ((npoints nformat ((a b)..))..); m1: 0 points; m2: 0 distance 1 angle; m3: 0 inner angle 1 pld
        -> (0 0) constructor raises | (0 1 advertised) call raises | (1 advertised size (w..))  output (B, L, size) row-major
   Definitions only. *)
From Coq Require Import ZArith List Bool PrimFloat.
Require Import Tree Num C17_Repr C17_FTrans C17_Layout.
Import ListNotations.

(* the binary64 instance: field for field Num.F_ops (lemma F17_ops_is_F_ops in proofs/C17_GenTie.v); the two
   constants are named because a float literal directly inside a record whose carrier is a field is
   extracted without the coercion and does not type-check in OCaml *)
Definition f17_zero : float := 0%float.
Definition f17_one : float := 1%float.
Definition F17_ops : ops :=
  {| T := float; zero := f17_zero; one := f17_one; add := PrimFloat.add; sub := PrimFloat.sub; mul := PrimFloat.mul;
     div := PrimFloat.div; opp := PrimFloat.opp; sqrt := PrimFloat.sqrt; abs := PrimFloat.abs;
     leb := PrimFloat.leb; ltb := PrimFloat.ltb; eqb := PrimFloat.eqb; of_Z := f_of_Z |}.
Definition fmv : Type := (float * bool)%type.
Definition t_floats (t : tree) : list float := map (fun x => float_of_bits (t_z x)) (t_list t).
Definition t_masked (tw tv : tree) : list fmv := combine (t_floats tw) (t_bools tv).
Definition of_floats (l : list float) : tree := Nd (map (fun x => L (bits_of_float x)) l).
Definition zf (p : list fmv) : list float := map (zero_filled F17_ops) p.

Definition cell2 (fn : Z) : (list fmv -> list fmv -> float) * (list fmv -> list fmv -> float) :=
  if (fn =? 0)%Z then (torch_distance F17_ops, fun a b => tf_distance F17_ops (zf a) (zf b))
  else (torch_angle F17_ops f_atan, fun a b => tf_angle F17_ops f_atan (zf a) (zf b)).
Definition cell3 (fn : Z) : (list fmv -> list fmv -> list fmv -> float) * (list fmv -> list fmv -> list fmv -> float) :=
  if (fn =? 2)%Z then (torch_inner_angle F17_ops f_acos, fun a b c => tf_inner_angle F17_ops f_acos (zf a) (zf b) (zf c))
  else (torch_pld F17_ops, fun a b c => tf_pld F17_ops (zf a) (zf b) (zf c)).

Definition run_cells (t : tree) : tree :=
  let fn := t_z (t_nth 1 t) in
  let d := t_nat (t_nth 2 t) in
  let p1 := t_masked (t_nth 3 t) (t_nth 4 t) in
  let p2 := t_masked (t_nth 5 t) (t_nth 6 t) in
  let p3 := t_masked (t_nth 7 t) (t_nth 8 t) in
  if (fn <? 2)%Z then
    Nd [of_floats (lift2 d (fst (cell2 fn)) p1 p2); of_floats (lift2 d (snd (cell2 fn)) p1 p2);
        if (fn =? 0)%Z then of_floats (lift2 d (np_distance F17_ops) p1 p2) else Nd []]
  else
    Nd [of_floats (lift3 d (fst (cell3 fn)) p1 p2 p3); of_floats (lift3 d (snd (cell3 fn)) p1 p2 p3); Nd []].

Definition t_comp (t : tree) : comp :=
  mkComp (t_nat (t_nth 0 t)) (t_nat (t_nth 1 t)) (map (fun ab => (t_nat (t_nth 0 ab), t_nat (t_nth 1 ab))) (t_list (t_nth 2 t))).
Definition mod1 (backend k : Z) : list fmv -> list float := torch_points F17_ops.
Definition mod2 (backend k : Z) : list fmv -> list fmv -> float :=
  if (backend =? 0)%Z then fst (cell2 k) else snd (cell2 k).
Definition mod3 (backend k : Z) : list fmv -> list fmv -> list fmv -> float :=
  if (backend =? 0)%Z then fst (cell3 (k + 2)) else snd (cell3 (k + 2)).

Definition run_assemble (t : tree) : tree :=
  let backend := t_z (t_nth 1 t) in
  let h := map t_comp (t_list (t_nth 2 t)) in
  let m1 := t_zs (t_nth 3 t) in let m2 := t_zs (t_nth 4 t) in let m3 := t_zs (t_nth 5 t) in
  let B := t_nat (t_nth 6 t) in let Ln := t_nat (t_nth 7 t) in let P := t_nat (t_nth 8 t) in let D := t_nat (t_nth 9 t) in
  let rows := cells D (t_masked (t_nth 10 t) (t_nth 11 t)) in
  let src : t4 fmv := fun b l p => if (b <? B) && (l <? Ln) && (p <? P) then nth ((b * Ln + l) * P + p) rows [] else [] in
  match mk_repr h (length m1) (length m2) (length m3) with
  | None => Nd [L 0; L 0]
  | Some r =>
      match call fmv float 0%float r P D (map (mod1 backend) m1) (map (mod2 backend) m2) (map (mod3 backend) m3) src with
      | None => Nd [L 0; L 1; Tree.of_nat (output_size r)]
      | Some (n, f) =>
          Nd [L 1; Tree.of_nat (output_size r); Tree.of_nat n;
              of_floats (flat_map (fun b => flat_map (fun l => map (fun i => f b l i) (seq 0 n)) (seq 0 Ln)) (seq 0 B))]
      end
  end.

Definition dispatch (t : tree) : tree :=
  let op := t_z (t_nth 0 t) in
  if (op =? 1)%Z then run_cells t
  else if (op =? 2)%Z then run_assemble t
  else Nd [L 0; L (-1)].
