(* C16 - frame selection, stepping and dropout (definitions only; proofs are in proofs/C16_*.v).

   A body is its frame rate plus three parallel per-frame channels (values, validity, confidence): every
   operation here indexes the first axis only, so a frame is an opaque token of type A.  All float
   computations are IEEE-754 functions of Coq's SpecFloat (binary64 for the generic code, binary32 for
   the TensorFlow code), bit-exact and closed under the global context.  Randomness is an explicit
   argument: [sample] = what random.sample returned, [perm] = what tf.random.shuffle returned. *)
From Coq Require Import ZArith List Bool Arith SpecFloat QArith_base.
Require Import Result F32.
Import ListNotations.

Inductive backend := NumPy | Torch | TF.
Definition is_tf (be : backend) : bool := match be with TF => true | _ => false end.
Definition is_torch (be : backend) : bool := match be with Torch => true | _ => false end.
(* negative indices wrap in NumPy / Torch fancy indexing; tf.gather on CPU raises InvalidArgumentError *)
Definition wraps (be : backend) : bool := negb (is_tf be).

Record body (A : Type) := mkB { fps : spec_float; dat : list A; msk : list A; cnf : list A }.
Arguments mkB {A}. Arguments fps {A}. Arguments dat {A}. Arguments msk {A}. Arguments cnf {A}.
Definition frames {A} (b : body A) : nat := length (dat b).
Definition wf_body {A} (b : body A) : Prop := length (msk b) = length (dat b) /\ length (cnf b) = length (dat b).

(* ---- one index of a fancy-indexing / gather operation over an axis of length n ---- *)
Definition norm_index (wrap : bool) (n : nat) (i : Z) : result nat :=
  if (0 <=? i)%Z && (i <? Z.of_nat n)%Z then Ok (Z.to_nat i)
  else if wrap && (- Z.of_nat n <=? i)%Z && (i <? 0)%Z then Ok (Z.to_nat (Z.of_nat n + i))
  else Err Index.
Definition gather {A} (wrap : bool) (l : list A) (idx : list Z) : result (list A) :=
  rmapM (fun i => do k <- norm_index wrap (length l) i;
                  match nth_error l k with Some x => Ok x | None => Err Index end) idx.

(* pose_body.py:530-551 (data[frame_indexes], confidence[frame_indexes]); torch/masked/tensor.py:49-60
   (tensor[key], mask[key]); tensorflow/pose_body.py:52-68 + tensorflow/masked/tensor.py:358-375
   (tf.gather of tensor, mask, confidence).  tf.gather of an empty Python list has float indices and raises. *)
Definition select_frames {A} (be : backend) (b : body A) (idx : list Z) : result (body A) :=
  if is_tf be && (match idx with [] => true | _ => false end) then Err Type_
  else
    do d <- gather (wraps be) (dat b) idx;
    do m <- gather (wraps be) (msk b) idx;
    do c <- gather (wraps be) (cnf b) idx;
    Ok (mkB (fps b) d m c).

(* x[::by] for by >= 1: keep an element, skip by-1, ... *)
Fixpoint stride {A} (by' skip : nat) (l : list A) : list A :=
  match l with
  | [] => []
  | x :: r => match skip with O => x :: stride by' (by' - 1) r | S s => stride by' s r end
  end.
(* the same with binary counters (the step can be astronomically large); proofs/C16_Lists.v: strideN = stride *)
Fixpoint strideN {A} (by' skip : N) (l : list A) : list A :=
  match l with
  | [] => []
  | x :: r => if (skip =? 0)%N then x :: strideN by' (by' - 1)%N r else strideN by' (skip - 1)%N r
  end.
Definition is_inf_sf (x : spec_float) : bool := match x with S754_infinity _ => true | _ => false end.
(* pose_body.py:360-378: data[::by], confidence[::by], fps / by.  by = 0: "slice step cannot be zero";
   by < 0 walks backwards from the last frame (NumPy, TensorFlow) or raises (Torch);
   float / int converts the int (OverflowError when it does not fit a double). *)
Definition slice_step {A} (be : backend) (b : body A) (by' : Z) : result (body A) :=
  match by' with
  | Z0 => Err Value
  | Zpos p =>
      let k := Npos p in
      let d := sf64_of_Z by' in
      if is_inf_sf d then Err Overflow
      else Ok (mkB (sf64_div (fps b) d) (strideN k 0 (dat b)) (strideN k 0 (msk b)) (strideN k 0 (cnf b)))
  | Zneg p =>
      let k := Npos p in
      let d := sf64_of_Z by' in
      if is_torch be then Err Value
      else if is_inf_sf d then Err Overflow
      else Ok (mkB (sf64_div (fps b) d) (strideN k 0 (rev (dat b))) (strideN k 0 (rev (msk b))) (strideN k 0 (rev (cnf b))))
  end.

(* ---- floats ---- *)
(* int(x) / tf.cast(x, int32): truncation toward zero; None on inf / nan *)
Definition sf_trunc (x : spec_float) : option Z :=
  match x with
  | S754_zero _ => Some 0%Z
  | S754_finite s m e =>
      let v := match e with
               | Z0 => Zpos m
               | Zpos p => (Zpos m * Z.pow_pos 2 p)%Z
               | Zneg p => (Zpos m / Z.pow_pos 2 p)%Z
               end in
      Some (if s then (- v)%Z else v)
  | _ => None
  end.
(* the rational number a finite float denotes (m * 2^e); 0 for zeros - used to state "about that fraction" *)
Definition sf_Q (x : spec_float) : QArith_base.Q :=
  match x with
  | S754_finite s m e =>
      let v := match e with
               | Z0 => QArith_base.Qmake (Zpos m) 1
               | Zpos p => QArith_base.Qmake (Zpos m * Z.pow_pos 2 p) 1
               | Zneg p => QArith_base.Qmake (Zpos m) (Pos.pow 2 p)
               end in
      if s then QArith_base.Qopp v else v
  | _ => QArith_base.Qmake 0 1
  end.
Definition sf_nonneg (x : spec_float) : bool :=
  match x with S754_zero _ => true | S754_finite s _ _ => negb s | _ => false end.
(* Python int * float: the int is converted first (OverflowError beyond the double range) *)
Definition int_times_float (n : nat) (x : spec_float) : result spec_float :=
  let f := sf64_of_Z (Z.of_nat n) in
  if is_inf_sf f then Err Overflow else Ok (sf64_mul f x).
Definition py_int (x : spec_float) : result Z :=
  match sf_trunc x with Some z => Ok z | None => Err Value end.

(* pose_body.py:571  min(int(data_len * dropout_percent), int(data_len * 0.99));  [c] is the cap constant *)
Definition cap_count (c : spec_float) (n : nat) : result Z := do x <- int_times_float n c; py_int x.
Definition asked_count (n : nat) (p : spec_float) : result Z := do x <- int_times_float n p; py_int x.
Definition drop_count (c : spec_float) (n : nat) (p : spec_float) : result Z :=
  do a <- asked_count n p; do k <- cap_count c n; Ok (Z.min a k).

Definition memb (i : nat) (s : list nat) : bool := existsb (Nat.eqb i) s.
Fixpoint nodupb (s : list nat) : bool :=
  match s with [] => true | x :: r => negb (memb x r) && nodupb r end.
(* what random.sample(range(0, n), k) can return: k distinct elements of range(n) *)
Definition valid_sample (n k : nat) (s : list nat) : bool :=
  Nat.eqb (length s) k && nodupb s && forallb (fun i => Nat.ltb i n) s.
(* pose_body.py:573  [i for i in range(0, data_len) if i not in dropout_indexes] *)
Definition complement (n : nat) (s : list nat) : list nat := filter (fun i => negb (memb i s)) (seq 0 n).

(* pose_body.py:553-575.  random.sample raises ValueError for a negative or too large sample size. *)
Definition dropout_given {A} (c : spec_float) (be : backend) (b : body A) (p : spec_float) (sample : list nat)
  : result (body A * list nat) :=
  let n := frames b in
  do k <- drop_count c n p;
  if (k <? 0)%Z || (Z.of_nat n <? k)%Z then Err Value
  else
    let kept := complement n sample in
    do r <- select_frames be b (map Z.of_nat kept);
    Ok (r, kept).
(* the number of elements the sample oracle must have for this call (None when the call raises before sampling) *)
Definition sample_size (c : spec_float) (n : nat) (p : spec_float) : option nat :=
  match drop_count c n p with
  | Ok k => if (k <? 0)%Z || (Z.of_nat n <? k)%Z then None else Some (Z.to_nat k)
  | Err _ => None
  end.
(* pose_body.py:577-597: the fraction is one draw u of numpy.random.uniform(low, high) *)
Definition dropout_uniform {A} (c : spec_float) (be : backend) (b : body A) (u : spec_float) (sample : list nat) :=
  dropout_given c be b u sample.
(* pose_body.py:599-619: the fraction is |g| for one draw g of numpy.random.normal(mean, std) *)
Definition dropout_normal {A} (c : spec_float) (be : backend) (b : body A) (g : spec_float) (sample : list nat) :=
  dropout_given c be b (SFabs g) sample.

(* the three public variants at once: how the fraction is obtained *)
Inductive draw := Given (p : spec_float) | Uniform (u : spec_float) | Normal (g : spec_float).
Definition fraction (d : draw) : spec_float := match d with Given p => p | Uniform u => u | Normal g => SFabs g end.
Definition dropout {A} (c : spec_float) (be : backend) (b : body A) (d : draw) (sample : list nat) :=
  match d with
  | Given p => dropout_given c be b p sample
  | Uniform u => dropout_uniform c be b u sample
  | Normal g => dropout_normal c be b g sample
  end.
(* [sample] is something random.sample can return in this call *)
Definition possible_draw (c : spec_float) (n : nat) (p : spec_float) (sample : list nat) : Prop :=
  exists k, sample_size c n p = Some k /\ valid_sample n k sample = true.
(* the cap leaves at least one frame: 0 <= int(n * c) < n *)
Definition cap_ok (c : spec_float) (n : nat) : Prop := exists k, cap_count c n = Ok k /\ (0 <= k < Z.of_nat n)%Z.
Definition cap_okb (c : spec_float) (n : nat) : bool :=
  match cap_count c n with Ok k => (0 <=? k)%Z && (k <? Z.of_nat n)%Z | Err _ => false end.

(* ---- TensorFlow variant (tensorflow/pose_body.py:70-143), float32 arithmetic ---- *)
Definition sf32_of_Z (z : Z) : spec_float := binary_normalize 24 128 z 0 false.
Definition sf32_mul := SFmul 24 128.
Fixpoint insert (x : nat) (l : list nat) : list nat :=
  match l with [] => [x] | y :: r => if Nat.leb x y then x :: l else y :: insert x r end.
Definition isort (l : list nat) : list nat := fold_right insert [] l.       (* tf.sort *)
Definition valid_perm (n : nat) (perm : list nat) : bool := valid_sample n n perm.
Definition int32_ok (z : Z) : bool := (-2147483648 <=? z)%Z && (z <? 2147483648)%Z.
(* number of frames to drop: tf.cast(tf.cast(n, float32) * p, int32)  (truncation; out of range is undefined) *)
Definition tf_drop_count (n : nat) (p : spec_float) : result Z :=
  match sf_trunc (sf32_mul (sf32_of_Z (Z.of_nat n)) p) with
  | Some d => if int32_ok d then Ok d else Err Overflow
  | None => Err Value
  end.
(* repaired code (proposed-fixes/F10-tf-dropout.diff):
     number_drop   = cast_int32(squeeze(cast_float32(n) * p))
     number_sample = maximum(1, n - number_drop)
     select        = sort(shuffle(range(n))[:number_sample])                                        *)
Definition tf_keep_count (n : nat) (d : Z) : Z := Z.max 1 (Z.of_nat n - d).
Definition tf_dropout_given {A} (b : body A) (p : spec_float) (perm : list nat) : result (body A * list nat) :=
  let n := frames b in
  do d <- tf_drop_count n p;
  let kept := isort (firstn (Z.to_nat (tf_keep_count n d)) perm) in
  do r <- (match kept with
           | [] => Ok (mkB (fps b) [] [] [])          (* an int32 index tensor of shape [0] gathers nothing *)
           | _ => select_frames TF b (map Z.of_nat kept)
           end);
  Ok (r, kept).
(* a Python float fraction is converted to float32 by the multiplication *)
Definition tf_dropout_given_py {A} (b : body A) (p64 : spec_float) (perm : list nat) :=
  tf_dropout_given b (round32 p64) perm.
(* tensorflow/pose_body.py:96-117: the fraction is one float32 draw of tf.random.uniform *)
Definition tf_dropout_uniform {A} (b : body A) (u : spec_float) (perm : list nat) := tf_dropout_given b u perm.
(* tensorflow/pose_body.py:119-143: one float32 draw of tf.random.normal, negative values clipped to zero *)
Definition sf_max0 (g : spec_float) : spec_float :=
  match SFcompare g (S754_zero false) with Some Lt => S754_zero false | _ => g end.
Definition tf_dropout_normal {A} (b : body A) (g : spec_float) (perm : list nat) := tf_dropout_given b (sf_max0 g) perm.

Definition tf_fraction (d : draw) : spec_float := match d with Given p => p | Uniform u => u | Normal g => sf_max0 g end.
Definition tf_dropout {A} (b : body A) (d : draw) (perm : list nat) :=
  match d with
  | Given p => tf_dropout_given b p perm
  | Uniform u => tf_dropout_uniform b u perm
  | Normal g => tf_dropout_normal b g perm
  end.

(* ---- the TensorFlow code as pinned (before the repair), kept to state what was wrong (F10) ----
     number_sample = int32(maximum(1.0, round(float32(n) * p)));  idxs = range(n - 1)
     select = sort(shuffle(idxs)[:number_sample])                                       *)
(* tf.round: half to even *)
Definition sf_round_even (x : spec_float) : option Z :=
  match x with
  | S754_zero _ => Some 0%Z
  | S754_finite s m e =>
      let v := match e with
               | Z0 => Zpos m
               | Zpos p => (Zpos m * Z.pow_pos 2 p)%Z
               | Zneg p =>
                   let d := Z.pow_pos 2 p in
                   let q := (Zpos m / d)%Z in let r := (Zpos m mod d)%Z in
                   if (2 * r <? d)%Z then q else if (d <? 2 * r)%Z then (q + 1)%Z
                   else if Z.even q then q else (q + 1)%Z
               end in
      Some (if s then (- v)%Z else v)
  | _ => None
  end.
Definition tf_pinned_keep_count (n : nat) (p : spec_float) : result Z :=
  match sf_round_even (sf32_mul (sf32_of_Z (Z.of_nat n)) p) with
  | Some r => if int32_ok r then Ok (Z.max 1 r) else Err Overflow
  | None => Err Value
  end.
(* [perm1] is a permutation of range(n - 1) *)
Definition tf_pinned_dropout_given {A} (b : body A) (p : spec_float) (perm1 : list nat) : result (body A * list nat) :=
  let n := frames b in
  do k <- tf_pinned_keep_count n p;
  let kept := isort (firstn (Z.to_nat k) perm1) in
  do r <- (match kept with
           | [] => Ok (mkB (fps b) [] [] [])
           | _ => select_frames TF b (map Z.of_nat kept)
           end);
  Ok (r, kept).

(* ---- pose level (pose.py:191-227, 319-383): the header object is passed on unchanged ---- *)
Record pose (H A : Type) := mkP { header : H; pbody : body A }.
Arguments mkP {H A}. Arguments header {H A}. Arguments pbody {H A}.
Definition with_header {H A} (ps : pose H A) (r : result (body A * list nat)) : result (pose H A * list nat) :=
  do x <- r; Ok (mkP (header ps) (fst x), snd x).
Definition pose_dropout_uniform {H A} c be (ps : pose H A) u sample := with_header ps (dropout_uniform c be (pbody ps) u sample).
Definition pose_dropout_normal {H A} c be (ps : pose H A) g sample := with_header ps (dropout_normal c be (pbody ps) g sample).
Definition pose_tf_dropout_uniform {H A} (ps : pose H A) u perm := with_header ps (tf_dropout_uniform (pbody ps) u perm).
Definition pose_tf_dropout_normal {H A} (ps : pose H A) g perm := with_header ps (tf_dropout_normal (pbody ps) g perm).
(* Pose.__getattr__ (pose.py:346-383): [listed] = the name is in pass_through_methods, [header_has] = the header
   class has an attribute of that name (then the header method's result would replace the header - not modelled) *)
Definition pose_slice_step {H A} (listed header_has : bool) (be : backend) (ps : pose H A) (by' : Z) : result (pose H A) :=
  if negb listed then Err Key
  else do b <- slice_step be (pbody ps) by';
       if header_has then Err NotImplemented else Ok (mkP (header ps) b).
