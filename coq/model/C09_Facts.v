(* C09 - vocabulary of the declarative facts the translator regenerates from the source (coq/gen/Gen_C09.v),
   and their meaning in terms of the model.  Definitions only. *)
From Coq Require Import List String Bool.
Require Import Num C09_Masked.
Import ListNotations.

(* how a masked tensor's zero_filled() is written *)
Inductive zf_kind := ZF_where | ZF_mul.
(* the comparison that turns a confidence into a mask / validity flag *)
Inductive cmp_kind := CmpEq0 | CmpNe0 | CmpGt0.
(* how often the confidence mask is stacked along the coordinate axis *)
Inductive stack_kind := StackLastDim | StackConst (n : nat).
(* how masks combine: arithmetic between masked tensors (validity and / or), strict sum (validity product / sum) *)
Inductive mask_rule := MAnd | MOr | MProd | MSum.

Section Sem.
Variable O : ops.
(* value zero_filled() leaves in a cell *)
Definition zf_sem (k : zf_kind) : cell O -> T O := match k with ZF_where => tzero O | ZF_mul => tzero_mul O end.
(* is a point with confidence c missing?  numpy: mask = (c == 0); torch / tf: validity = (c != 0) or (c > 0) *)
Definition missing_sem (k : cmp_kind) (validity : bool) (c : T O) : bool :=
  let r := match k with CmpEq0 => is0 O c | CmpNe0 => negb (is0 O c) | CmpGt0 => ltb O (zero O) c end in
  if validity then negb r else r.
End Sem.

(* the statement list of one method in a regenerated source table ([] when the table does not list it) *)
Definition src_of (m : string) (tbl : list (string * list string)) : list string :=
  match find (fun p => String.eqb (fst p) m) tbl with Some p => snd p | None => [] end.
