(* C14 - an executable stand-in for SciPy's quadratic / cubic interp1d (definitions only).
   scipy.interpolate.make_interp_spline(x, y, k) with the default not-a-knot knots (_not_a_knot):
   B-spline collocation solved by elimination with partial pivoting, evaluated by the Cox - de Boor
   recursion.  It instantiates the Section variable [spline] of C14_Interp.v in the extracted runner
   only; no theorem is about it (the theorems assume the two stated hypotheses of any [spline]), and the
   correspondence compares it with SciPy on every run. *)
From Coq Require Import List Arith Bool ZArith.
Require Import Num C14_Interp.
Import ListNotations.

Section BSpline.
Variable O : ops.
Notation T := (Num.T O).
Definition two : T := Num.of_nat O 2.
Definition ratio (num den : T) : T := if eqb O den (zero O) then zero O else div O num den.
(* _bsplines._not_a_knot *)
Definition nak_knots (k : nat) (xs : list T) : list T :=
  let x0 := hd (zero O) xs in
  let xn := last xs (zero O) in
  let t := if Nat.odd k then xs else map2 (fun a b => div O (add O a b) two) (tl xs) (removelast xs) in
  let k2 := if Nat.odd k then (k + 1) / 2 else k / 2 in
  repeat x0 (k + 1) ++ firstn (length t - 2 * k2) (skipn k2 t) ++ repeat xn (k + 1).
(* interval l with t[l] <= x < t[l+1], clipped to [k, n-1] (n = number of coefficients) *)
Definition interval (k n : nat) (t : list T) (x : T) : nat :=
  let c := length (filter (fun a => leb O a x) t) in
  Nat.max k (Nat.min (n - 1) (c - 1)).
Fixpoint basis (d : nat) (t : list T) (l : nat) (x : T) : list T :=
  match d with
  | 0 => map (fun j => if Nat.eqb j l then one O else zero O) (seq 0 (length t - 1))
  | S d' =>
      let b := basis d' t l x in
      let tn i := nth i t (zero O) in
      map (fun j =>
             add O (mul O (ratio (sub O x (tn j)) (sub O (tn (j + d)) (tn j))) (nth j b (zero O)))
                   (mul O (ratio (sub O (tn (j + d + 1)) x) (sub O (tn (j + d + 1)) (tn (j + 1)))) (nth (S j) b (zero O))))
          (seq 0 (length t - 1 - d))
  end.
(* linear system: rows (coefficients, right-hand sides) *)
Definition row := (list T * list T)%type.
Definition headabs (r : row) : T := abs O (hd (zero O) (fst r)).
Fixpoint pick (best : row) (seen rest : list row) : row * list row :=
  match rest with
  | [] => (best, seen)
  | r :: rest' => if ltb O (headabs best) (headabs r) then pick r (best :: seen) rest' else pick best (r :: seen) rest'
  end.
Definition axpy (m : T) (a b : list T) : list T := map2 (fun bj aj => sub O bj (mul O m aj)) b a.
Definition vsum (w : nat) (coef : list T) (vecs : list (list T)) : list T :=
  fold_right (fun cv acc => map2 (fun s v => add O s (mul O (fst cv) v)) acc (snd cv)) (repeat (zero O) w) (combine coef vecs).
Fixpoint solve (n w : nat) (sys : list row) : list (list T) :=
  match n with
  | 0 => []
  | S n' =>
      match sys with
      | [] => []
      | r0 :: rs =>
          let '(pv, others) := pick r0 [] rs in
          let a := hd (zero O) (fst pv) in
          let arow := tl (fst pv) in
          let others' := map (fun r => let m := div O (hd (zero O) (fst r)) a in
                                       (axpy m arow (tl (fst r)), axpy m (snd pv) (snd r))) others in
          let sol := solve n' w others' in
          let s := vsum w arow sol in
          map2 (fun r sj => div O (sub O r sj) a) (snd pv) s :: sol
      end
  end.
Definition nak_spline (k : nat) (xs : list T) (ys : list (list T)) (x : T) : list T :=
  let n := length xs in
  let w := length (hd [] ys) in
  let t := nak_knots k xs in
  let sys := map2 (fun xi yi => (basis k t (interval k n t xi) xi, yi)) xs ys in
  let c := solve n w sys in
  vsum w (basis k t (interval k n t x) x) c.
End BSpline.
