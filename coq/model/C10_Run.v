(* C10 - wire format and dispatch of the extracted masked-tensor model (values are binary64 words).
   request  (fw inputs prog)     fw: 0 torch, 1 tensorflow
            input = (shape words maskbits)
   reply    result of ((shape words maskshape maskbits) ...)   - every register after the program *)
From Coq Require Import ZArith List Bool PrimFloat.
Require Import Result Tree Tensor Num C10_Tensor C10_Masked.
Import ListNotations.

Definition FA : Type := T F_ops.
Definition f_trig (u : uname) (x : FA) : FA := PrimFloat.nan.      (* cos, sin, ...: not executable in Coq; values not compared *)
Definition t_ftensor (s w : tree) : tensor FA := mkT (t_nats s) (map float_of_bits (t_zs w)).
Definition t_optz (t : tree) : option Z := match t_opt t with Some x => Some (t_z x) | None => None end.
Definition t_idx (t : tree) : idx :=
  if (t_z (t_nth 0 t) =? 0)%Z then IInt (t_z (t_nth 1 t))
  else ISlice (t_optz (t_nth 1 t)) (t_optz (t_nth 2 t)) (t_z (t_nth 3 t)).
Definition t_operand (t : tree) : operand F_ops :=
  let k := t_z (t_nth 0 t) in
  if (k =? 0)%Z then OReg F_ops (t_nat (t_nth 1 t))
  else if (k =? 1)%Z then OPlain F_ops (t_ftensor (t_nth 1 t) (t_nth 2 t))
  else OPlain F_ops (mkT [] [float_of_bits (t_z (t_nth 1 t))]).
Definition t_aop (z : Z) : aop :=
  if (z =? 0)%Z then Add else if (z =? 1)%Z then Sub else if (z =? 2)%Z then Mul else if (z =? 3)%Z then Div else RDiv.
Definition t_uname (z : Z) : uname :=
  if (z =? 0)%Z then USqrt else if (z =? 1)%Z then USquare else if (z =? 2)%Z then UCos else if (z =? 3)%Z then USin
  else if (z =? 4)%Z then UTan else if (z =? 5)%Z then UAcos else if (z =? 6)%Z then UAsin else UAtan.
Definition t_stat (z : Z) : stat := if (z =? 0)%Z then Mean else if (z =? 1)%Z then Var else Std.
Definition t_instr (t : tree) : option (instr F_ops) :=
  let a := fun i => t_nth i t in
  match t_z (a 0) with
  | 0%Z => Some (IGetItem F_ops (t_nat (a 1)) (map t_idx (t_list (a 2))))
  | 1%Z => Some (IGetList F_ops (t_nat (a 1)) (t_zs (a 2)))
  | 2%Z => Some (IArith F_ops (t_aop (t_z (a 1))) (t_nat (a 2)) (t_operand (a 3)))
  | 3%Z => Some (IDivM F_ops (t_nat (a 1)) (t_nat (a 2)) (t_bool (a 3)))
  | 4%Z => Some (ISum F_ops (t_nat (a 1)) (t_optz (a 2)))
  | 5%Z => Some (ITranspose F_ops (t_nat (a 1)) (t_z (a 2)) (t_z (a 3)))
  | 6%Z => Some (IPermute F_ops (t_nat (a 1)) (t_zs (a 2)))
  | 7%Z => Some (ISqueeze F_ops (t_nat (a 1)) (t_optz (a 2)))
  | 8%Z => Some (ISplit F_ops (t_nat (a 1))
                        (if Z.eqb (t_z (t_nth 0 (a 2))) 0 then inl (t_nat (t_nth 1 (a 2))) else inr (t_nats (t_nth 1 (a 2))))
                        (t_z (a 3)))
  | 9%Z => Some (IReshape F_ops (t_nat (a 1)) (t_zs (a 2)))
  | 10%Z => Some (ICat F_ops (map t_operand (t_list (a 1))) (t_z (a 2)))
  | 11%Z => Some (IStack F_ops (t_nats (a 1)) (t_z (a 2)))
  | 12%Z => Some (IMatmul F_ops (t_nat (a 1)) (t_ftensor (a 2) (a 3)))
  | 13%Z => Some (IStat F_ops (t_stat (t_z (a 1))) (t_nat (a 2)) (t_optz (a 3)))
  | 14%Z => Some (IZeroFill F_ops (t_nat (a 1)))
  | 15%Z => Some (IUnary F_ops (t_uname (t_z (a 1))) (t_bool (a 2)) (t_nat (a 3)))
  | 16%Z => Some (IUnsqueeze F_ops (t_nat (a 1)) (t_z (a 2)))
  | _ => None
  end.
Fixpoint t_prog (l : list tree) : option (list (instr F_ops)) :=
  match l with
  | [] => Some []
  | t :: r => match t_instr t, t_prog r with Some i, Some p => Some (i :: p) | _, _ => None end
  end.
Definition t_input (t : tree) : mt F_ops :=
  (t_ftensor (t_nth 0 t) (t_nth 1 t), mkT (t_nats (t_nth 0 t)) (t_bools (t_nth 2 t))).
Definition of_mt (m : mt F_ops) : tree :=
  Nd [of_nats (shape (fst m)); of_zs (map bits_of_float (data (fst m))); of_nats (shape (snd m)); of_bools (data (snd m))].
Definition dispatch_with (c_torch c_tf : cfg) (t : tree) : tree :=
  let f := if (t_z (t_nth 0 t) =? 0)%Z then Torch else TF in
  let c := match f with Torch => c_torch | TF => c_tf end in
  match t_prog (t_list (t_nth 2 t)) with
  | Some p => of_result (fun env => Nd (map of_mt env)) (run F_ops f_trig c f p (map t_input (t_list (t_nth 1 t))))
  | None => Nd [L 0; L (-1)]
  end.
