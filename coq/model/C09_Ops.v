(* C09 - the pose operations of the statement, per backend, built from the primitives of C09_Masked.
   Bodies are (data : masked tensor (F,P,T,D), confidence : tensor (F,P,T)).  Definitions only. *)
From Coq Require Import List Arith Bool ZArith.
Require Import Tensor Num Result C09_Masked.
Import ListNotations.

Section Ops.
Variable O : ops.
Notation T := (Num.T O).
Variable E : ext O.
Notation cell := (cell O).
Notation marr := (marr O).
Notation rd := (rd O).
Notation rdT := (rdT O).
Notation dcell := (dcell O).

Record body := mkB { bdat : marr; bconf : tensor T }.
Definition dimn (s : list nat) (i : nat) : nat := nth i s 1.
Definition lastd (s : list nat) : nat := last s 1.

(* ---- structural operations (numpy / torch / tf indexing, transposes): all are [reindex] ----------------- *)
Fixpoint pos_of (a : nat) (l : list nat) : nat :=
  match l with [] => 0 | x :: r => if Nat.eqb x a then 0 else S (pos_of a r) end.
(* transpose(axes): result[j] = src[ix] with ix[axes[i]] = j[i] *)
Definition perm_ix (axes ix : list nat) : list nat := tab (length axes) (fun a => nth (pos_of a axes) ix 0).
Definition perm_shape (axes s : list nat) : list nat := map (fun a => nth a s 1) axes.
Definition transpose {X} (d : X) (axes : list nat) (t : tensor X) : tensor X :=
  reindex d (perm_shape axes (shape t)) (perm_ix axes) t.
(* t[indexes] along the first axis *)
Definition take0 {X} (d : X) (idx : list nat) (t : tensor X) : tensor X :=
  reindex d (length idx :: tl (shape t)) (fun ix => match ix with i :: r => nth i idx 0 :: r | [] => [] end) t.
Definition POINTS_DIMS := [2; 1; 0; 3].         (* pose_body.py:11 *)
Definition CONF_RESHAPE := [2; 1; 0].           (* numpy/pose_body.py:258 *)

(* ---- constructors ------------------------------------------------------------------------------------------ *)
(* NumPyPoseBody.__init__ (numpy/pose_body.py:43-52): a MaskedArray is an ndarray too, so the confidence mask is
   always OR-ed in (keep_mask) *)
Definition np_ctor (d : marr) (c : tensor T) : body :=
  let D := lastd (shape d) in
  mkB (mkT (shape d) (tab (length (data d)) (fun k => let x := rd (data d) k in
                         (fst x, snd x || is0 O (rdT (data c) (k / D)))))) c.
(* a plain ndarray / tensor: nothing masked yet *)
Definition of_plain (t : tensor T) : marr := tmap (plain O) t.
(* TorchPoseBody / TensorflowPoseBody.__init__ (torch/pose_body.py:20-26, tensorflow/pose_body.py:40-44, repaired F7/F8):
   plain data -> validity = confidence != 0 stacked D times; a MaskedTensor is kept as it is *)
Definition t_ctor_plain (raw : tensor T) (c : tensor T) : body :=
  let D := lastd (shape raw) in
  mkB (mkT (shape raw) (tab (length (data raw)) (fun k => (rdT (data raw) k, is0 O (rdT (data c) (k / D)))))) c.
Definition t_ctor (d : marr) (c : tensor T) : body := mkB d c.

(* ---- selection --------------------------------------------------------------------------------------------- *)
Definition all_lt (n : nat) (l : list nat) : bool := forallb (fun i => Nat.ltb i n) l.
(* get_points (numpy/pose_body.py:241-262; torch/pose_body.py:94-113; tensorflow/pose_body.py:205-213) *)
Definition sel_points {X} (d : X) (axes : list nat) (idx : list nat) (t : tensor X) : tensor X :=
  transpose d axes (take0 d idx (transpose d axes t)).
Definition np_get_points (idx : list nat) (b : body) : result body :=
  if all_lt (dimn (shape (bdat b)) 2) idx
  then Ok (np_ctor (sel_points dcell POINTS_DIMS idx (bdat b)) (sel_points (zero O) CONF_RESHAPE idx (bconf b)))
  else Err Index.
Definition t_get_points (idx : list nat) (b : body) : result body :=
  if all_lt (dimn (shape (bdat b)) 2) idx
  then Ok (t_ctor (sel_points dcell POINTS_DIMS idx (bdat b)) (sel_points (zero O) CONF_RESHAPE idx (bconf b)))
  else Err Index.
(* select_frames (pose_body.py:522-546; tensorflow/pose_body.py:81-100) *)
Definition np_select_frames (idx : list nat) (b : body) : result body :=
  if all_lt (dimn (shape (bdat b)) 0) idx
  then Ok (np_ctor (take0 dcell idx (bdat b)) (take0 (zero O) idx (bconf b))) else Err Index.
Definition t_select_frames (idx : list nat) (b : body) : result body :=
  if all_lt (dimn (shape (bdat b)) 0) idx
  then Ok (t_ctor (take0 dcell idx (bdat b)) (take0 (zero O) idx (bconf b))) else Err Index.
(* tf.gather(tensor, []) : an empty Python list becomes a float32 index tensor, which gather rejects.
   select_frames (MaskedTensor.gather, tf.gather on the confidence) passes the list as it is; *)
Definition tf_select_frames (idx : list nat) (b : body) : result body :=
  match idx with [] => Err Type_ | _ => t_select_frames idx b end.
(* get_points goes through MaskedTensor.__getitem__, which casts the list to an int32 tensor first or not
   ([int_cast]: a fact regenerated from tensorflow/masked/tensor.py) *)
Definition tf_get_points (int_cast : bool) (idx : list nat) (b : body) : result body :=
  match idx with [] => if int_cast then t_get_points idx b else Err Type_ | _ => t_get_points idx b end.

(* ---- linear transforms ------------------------------------------------------------------------------------- *)
(* flip (numpy/pose_body.py:210-228): data * vec, vec = ones(D) with vec[axis] = -1 *)
Definition flip_vec (D axis : nat) : list cell :=
  tab D (fun d => plain O (if Nat.eqb d axis then opp O (one O) else one O)).
Definition np_flip (axis : nat) (b : body) : body :=
  let D := lastd (shape (bdat b)) in
  np_ctor (mkT (shape (bdat b)) (ew_trail O (mbin O (mul O)) (data (bdat b)) D (flip_vec D axis))) (bconf b).
(* ma.dot(data, matrix) (ma/core.py:8296-8306): dot of the zero-filled data; masked iff no coordinate of the point is valid *)
Definition madot (D E' : nat) (M : list T) (l : list cell) : list cell :=
  tab (length l / D * E') (fun k =>
    let i := k / E' in let e := k mod E' in
    (sum O (tab D (fun d => mul O (filled O (zero O) (rd l (i * D + d))) (rdT M (d * E' + e)))),
     allmasked O (lane_last O D l i))).
(* matmul (numpy/pose_body.py:193-208) *)
Definition np_matmul (E' : nat) (M : list T) (b : body) : body :=
  let s := shape (bdat b) in
  np_ctor (mkT (removelast s ++ [E']) (madot (lastd s) E' M (data (bdat b)))) (bconf b).
(* MaskedTensor.matmul (torch/masked/tensor.py:295-311; tensorflow/masked/tensor.py:243-261): product of the stored
   values; a result row is valid iff every coordinate of the point is: mask.all(dim=-1, keepdim=True).expand(result shape) *)
Definition tdot (D E' : nat) (M : list T) (l : list cell) : list cell :=
  tab (length l / D * E') (fun k =>
    let i := k / E' in let e := k mod E' in
    (sum O (tab D (fun d => mul O (fst (rd l (i * D + d))) (rdT M (d * E' + e)))), existsb snd (lane_last O D l i))).
Definition t_matmul (E' : nat) (M : list T) (b : body) : body :=
  let s := shape (bdat b) in
  t_ctor (mkT (removelast s ++ [E']) (tdot (lastd s) E' M (data (bdat b)))) (bconf b).

(* ---- zero filling ------------------------------------------------------------------------------------------ *)
(* numpy/pose_body.py:180-191: copy (through the constructor), then data := ma.array(data.filled(0), mask = data.mask) *)
Definition np_zero_filled (b : body) : body :=
  let c := np_ctor (bdat b) (bconf b) in
  mkB (tmap (fun x => (filled O (zero O) x, snd x)) (bdat c)) (bconf c).
(* torch/pose_body.py:43-55, tensorflow/pose_body.py:66-79: the masked tensor is replaced by a plain one *)
Definition t_zero_filled (b : body) : tensor T := tmap (tzero O) (bdat b).
Definition t_zero_filled_mul (b : body) : tensor T := tmap (tzero_mul O) (bdat b).

(* ---- serialisation round trip (numpy/pose_body.py:110-129 write; pose_body.py read_v0_1 -> constructor) -------
   What the file keeps is the stored values (garbage included), cast to float32, and the confidences; the mask is
   not stored and is rebuilt from the confidences on reading (byte level: C01). *)
Definition np_write (b : body) : tensor T * tensor T := (tmap (fun x => cast32 E (fst x)) (bdat b), tmap (cast32 E) (bconf b)).
Definition np_read (f : tensor T * tensor T) : body := np_ctor (of_plain (fst f)) (snd f).
Definition np_roundtrip (b : body) : body := np_read (np_write b).

(* ---- normalisation (pose.py:113-150, utils/fast_math.py:26-28) --------------------------------------------- *)
(* transposed[p]: the (P,F,D) block of point p in points perspective; a *view* of the body data *)
Definition point_block (t : marr) (p : nat) : list cell :=
  let tr := transpose dcell POINTS_DIMS t in
  let n := dimn (shape t) 1 * dimn (shape t) 0 * dimn (shape t) 3 in
  tab n (fun k => rd (data tr) (p * n + k)).
Definition np_normalize (p1 p2 : nat) (scale_factor : T) (b : body) : body :=
  let s := shape (bdat b) in
  let D := dimn s 3 in let PF := dimn s 1 * dimn s 0 in
  let p1s := point_block (bdat b) p1 in
  let p2s := point_block (bdat b) p2 in
  (* center = ((p2s + p1s) / 2).mean(axis=(0, 1)) *)
  let center := red_lead O PF D (mmean O E)
                  (ew_scalar O (mdiv O E) (ew O (mbin O (add O)) p2s p1s) (plain O (two O))) in
  (* self.body.data -= center   (in place: p1s, p2s are views and see the update) *)
  let d1 := mkT s (ew_trail O (misub O) (data (bdat b)) D center) in
  let p1s' := point_block d1 p1 in
  let p2s' := point_block d1 p2 in
  (* distance_batch(p1s, p2s).mean() *)
  let squared := ew1 O (mpow O E (sqr O)) (ew O (mbin O (sub O)) p1s' p2s') in
  let summed := red_last O PF D (msum O) squared in
  let dist := ew1 O (mpow O E (sqrt O)) summed in
  let md := mmean O E dist in
  (* scale = scale_factor / mean_distance ; data * scale *)
  let scale : cell := if snd md then (zero O, true) else plain O (div O scale_factor (fst md)) in
  mkB (mkT s (ew_scalar O (mbin O (mul O)) (data d1) scale)) (bconf b).

(* normalize_distribution (pose.py:152-176): lead = number of leading axes reduced (2: axis=(0,1); 3: axis=(0,1,2)) *)
Definition np_normalize_distribution (lead : nat) (b : body) : body * (list cell * list cell) :=
  let s := shape (bdat b) in
  let outer := prod (firstn lead s) in let inner := prod (skipn lead s) in
  let mu := red_lead O outer inner (mmean O E) (data (bdat b)) in
  let sd := red_lead O outer inner (mstd O E) (data (bdat b)) in
  (mkB (mkT s (ew_trail O (mdiv O E) (ew_trail O (mbin O (sub O)) (data (bdat b)) inner mu) inner sd)) (bconf b), (mu, sd)).
(* unnormalize_distribution (pose.py:178-189): data * std + mu with plain (T,D) arrays *)
Definition np_unnormalize_distribution (mu sd : list T) (b : body) : body :=
  let s := shape (bdat b) in
  let inner := dimn s 2 * dimn s 3 in
  mkB (mkT s (ew_trail O (mbin O (add O)) (ew_trail O (mbin O (mul O)) (data (bdat b)) inner (map (plain O) sd))
                       inner (map (plain O) mu))) (bconf b).

(* ---- focus (pose.py:100-111) ------------------------------------------------------------------------------- *)
Definition np_focus (b : body) : result (body * list T) :=
  let s := shape (bdat b) in
  let D := dimn s 3 in let outer := dimn s 0 * dimn s 1 * dimn s 2 in
  let mins := red_lead O outer D (mmin O E) (data (bdat b)) in
  let maxs := red_lead O outer D (mmax O E) (data (bdat b)) in
  (* np.count_nonzero(mins) looks at the stored values of the masked array *)
  let d1 := if existsb (fun c => negb (is0 O (fst c))) mins
            then ew_trail O (mbin O (sub O)) (data (bdat b)) D mins else data (bdat b) in
  let dims := ew O (mbin O (sub O)) maxs mins in
  (* PoseHeaderDimensions of the unpacked list: a masked entry is None, one dimension misses `height` *)
  if existsb snd dims || Nat.ltb D 2 then Err Type_
  else Ok (mkB (mkT s d1) (bconf b), map fst dims).

(* ---- bounding boxes (numpy/pose_body.py:264-300) ----------------------------------- *)
Fixpoint offsets (o : nat) (comps : list nat) : list (nat * nat) :=
  match comps with [] => [] | n :: r => (o, n) :: offsets (o + n) r end.
(* one component: its points (rows on .. on+n of the points perspective) reduced by ma.min and ma.max over axis 0 *)
Definition comp_box (blk : nat) (tr : list cell) (on : nat * nat) : list cell :=
  let sub := tab (snd on * blk) (fun k => rd tr (fst on * blk + k)) in
  red_lead O (snd on) blk (mmin O E) sub ++ red_lead O (snd on) blk (mmax O E) sub.
Definition np_bbox (comps : list nat) (b : body) : result body :=
  let s := shape (bdat b) in
  let F := dimn s 0 in let P := dimn s 1 in let D := dimn s 3 in
  let blk := P * F * D in
  let tr := data (transpose dcell POINTS_DIMS (bdat b)) in
  let boxes := flat_map (comp_box blk tr) (offsets 0 comps) in
  let nb := 2 * length comps in
  let new_data := transpose dcell POINTS_DIMS (mkT [nb; P; F; D] boxes) in
  if Nat.eqb D 0 then Err Index                   (* ma.getmaskarray(new_data)[:, :, :, 0] *)
  else
    let conf := mkT [F; P; nb] (tab (F * P * nb) (fun n => if snd (rd (data new_data) (n * D)) then zero O else one O)) in
    Ok (np_ctor new_data conf).

(* ---- interpolation (numpy/pose_body.py:301-386) ------------------------------------------------------------ *)
(* np.linspace(0, 1, n) *)
Definition linspace (n : nat) : list T :=
  let step := div O (one O) (of_nat O (n - 1)) in
  tab n (fun i => if Nat.leb n 1 then zero O                                   (* div = 0: y * delta *)
                  else if Nat.eqb (S i) n then one O else mul O (of_nat O i) step).
Fixpoint first_idx (p : T -> bool) (l : list T) (i : nat) (dflt : nat) : nat :=
  match l with [] => dflt | x :: r => if p x then i else first_idx p r (S i) dflt end.
Definition compressed (l : list cell) : list T := map fst (filter (fun c => negb (snd c)) l).
Definition chunk (w : nat) (l : list T) : list (list T) := tab (length l / w) (fun r => tab w (fun j => rdT l (r * w + j))).
Definition zeros_rows (n w : nat) : list (list T) := repeat (repeat (zero O) w) n.
Definition slice {X} (a b : nat) (l : list X) : list X := firstn (b - a) (skipn a l).
(* one track: frames = F rows of D+1 cells (coordinates, confidence); -> rows of the new track *)
Definition interp_track (dflt_len : bool) (kind F NF W : nat) (steps new_steps : list T) (frames : list cell) : result (list (list T)) :=
  let cmask := tab F (fun f => snd (rd frames (f * W + (W - 1)))) in              (* frames.transpose()[-1].mask *)
  let partial_steps := map fst (filter (fun sm => negb (snd sm)) (combine steps cmask)) in
  let k := length partial_steps in
  if Nat.eqb k 0 then Ok (zeros_rows NF W)
  else
    let flat := compressed frames in
    if negb (Nat.eqb (length flat) (k * W)) then Err Value                        (* reshape *)
    else
      let rows := chunk W flat in
      let this_kind := if Nat.ltb 3 k then kind else if Nat.ltb 2 k && Nat.eqb kind 2 then 1 else 0 in
      let f := fun q => if Nat.eqb k 1 then rows else interp E this_kind partial_steps rows q in
      let first_step := hd (zero O) partial_steps in
      let last_step := last partial_steps (zero O) in
      if is0 O first_step && eqb O last_step (one O) then Ok (f new_steps)
      else
        (* first_step_index defaults to 0, or to len(new_steps) ([dflt_len]: regenerated from numpy/pose_body.py) *)
        let a := first_idx (fun x => leb O first_step x) new_steps 0 (if dflt_len then length new_steps else 0) in
        let b := first_idx (fun x => ltb O last_step x) new_steps 0 (length new_steps) in
        if Nat.eqb a b then Ok (zeros_rows (length new_steps) W)
        else
          let q := slice a b new_steps in
          (* interp1d (bounds_error) refuses a query outside [x[0], x[-1]]; the single-sample lambda does not look *)
          if negb (Nat.eqb k 1) && existsb (fun x => ltb O x first_step || ltb O last_step x) q then Err Value
          else Ok (zeros_rows a W ++ f q ++ zeros_rows (length new_steps - b) W).
(* points = ma.concatenate([transposed, masked confidence], axis=3): the (F, D+1) cells of one (point, person) track *)
Definition track_cells (F D : nat) (tr : list cell) (ctr : list T) (tp : nat) : list cell :=
  tab (F * S D) (fun k =>
    let f := k / S D in let j := k mod S D in
    if Nat.eqb j D then let c := rdT ctr (tp * F + f) in (c, is0 O c) else rd tr ((tp * F + f) * D + j)).
Definition interp_tracks (dflt_len : bool) (kind F NF D : nat) (steps new_steps : list T) (tr : list cell) (ctr : list T) (n : nat)
  : result (list (list (list T))) :=
  rmapM (fun tp => interp_track dflt_len kind F NF (S D) steps new_steps (track_cells F D tr ctr tp)) (seq 0 n).
Definition np_interpolate (dflt_len : bool) (kind NF : nat) (b : body) : result body :=
  let s := shape (bdat b) in
  let F := dimn s 0 in let P := dimn s 1 in let Tn := dimn s 2 in let D := dimn s 3 in
  let W := S D in
  if Nat.eqb F 1 then Err Value
  else
    let steps := linspace F in
    let new_steps := linspace NF in
    let tr := data (transpose dcell POINTS_DIMS (bdat b)) in                               (* (T,P,F,D) *)
    let ctr := data (transpose (zero O) CONF_RESHAPE (bconf b)) in                        (* (T,P,F) *)
    match interp_tracks dflt_len kind F NF D steps new_steps tr ctr (Tn * P) with
    | Err e => Err e
    | Ok tracks =>
        let L := length (hd [] tracks) in
        if negb (forallb (fun t => Nat.eqb (length t) L) tracks) then Err Value        (* np.stack *)
        else
          (* (T,P,L,W) -> transpose([2,1,0,3]) -> split off the confidence column *)
          let cellat := fun f p t j => rdT (nth f (nth (t * P + p) tracks []) []) j in
          let dat := mkT [L; P; Tn; D] (tab (L * P * Tn * D) (fun k =>
                       let d := k mod D in let n := k / D in let t := n mod Tn in let p := (n / Tn) mod P in
                       let f := n / Tn / P in cellat f p t d)) in
          let cf := mkT [L; P; Tn] (tab (L * P * Tn) (fun n =>
                       let t := n mod Tn in let p := (n / Tn) mod P in let f := n / Tn / P in cellat f p t D)) in
          Ok (np_ctor (of_plain dat) cf)
    end.

(* ---- feature representations ------------------------------------------------------------------------------- *)
Definition lanes (t : marr) : nat := length (data t) / lastd (shape t).
(* numpy/representation/distance.py:29-33 *)
Definition np_rep_distance (p1 p2 : marr) : tensor T :=
  let D := lastd (shape p1) in
  let diff := ew O (mbin O (sub O)) (data p1) (data p2) in
  let square := ew1 O (mpow O E (sqr O)) diff in
  let sum_squares := red_last O (lanes p1) D (msum O) square in
  mkT (removelast (shape p1)) (map (filled O (zero O)) (ew1 O (msqrt O) sum_squares)).
(* torch/representation/distance.py:30-33 (distance), :52 (forward) *)
Definition t_distance (p1 p2 : marr) : list cell :=
  let D := lastd (shape p1) in
  let diff := ew O (tbin O (sub O)) (data p1) (data p2) in
  let square := ew1 O (tun O (sqr O)) diff in                                 (* pow_(2) *)
  let sum_squares := red_last O (lanes p1) D (tsum O) square in
  ew1 O (tun O (sqrt O)) sum_squares.                                         (* MaskedTorch.sqrt: mask kept *)
Definition t_rep_distance (p1 p2 : marr) : tensor T :=
  mkT (removelast (shape p1)) (map (tzero O) (t_distance p1 p2)).
(* torch/representation/angle.py:33-39 *)
Definition t_rep_angle (p1 p2 : marr) : result (tensor T) :=
  let D := lastd (shape p1) in
  if Nat.ltb D 2 then Err Value
  else
    let d := ew O (tbin O (sub O)) (data p2) (data p1) in
    let n := lanes p1 in
    let xs := tab n (fun i => rd d (i * D)) in
    let ys := tab n (fun i => rd d (i * D + 1)) in
    let slopes := map (tzero O) (ew1 O (tfixnan O) (ew O (tbin O (div O)) ys xs)) in
    Ok (mkT (removelast (shape p1)) (map (atan_ E) slopes)).
(* torch/representation/inner_angle.py:8-32 (get_vectors_norm), :70-82 *)
Definition t_vectors_norm (D : nat) (v : list cell) : list cell :=
  let n := length v / D in
  let v_mag := ew1 O (tun O (sqrt O)) (red_last O n D (tsum O) (ew1 O (tun O (sqr O)) v)) in
  tab (length v) (fun k => tbin O (div O) (rd v k) (rd v_mag (k / D))).        (* vectors.div(stack([v_mag] * D, -1)) *)
Definition t_rep_inner_angle (p1 p2 p3 : marr) : tensor T :=
  let D := lastd (shape p1) in
  let v1 := ew O (tbin O (sub O)) (data p1) (data p2) in
  let v2 := ew O (tbin O (sub O)) (data p3) (data p2) in
  let v1n := t_vectors_norm D v1 in
  let v2n := t_vectors_norm D v2 in
  let slopes := red_last O (lanes p1) D (tsum O) (ew O (tbin O (mul O)) v1n v2n) in
  let angles := map (tzero O) (ew1 O (tun O (acos_ E)) slopes) in
  mkT (removelast (shape p1)) (map (fun x => if isnan O x then zero O else x) angles).
(* torch/representation/point_line_distance.py:57-69 *)
Definition t_rep_point_line (p1 p2 p3 : marr) : tensor T :=
  let a := t_distance p1 p2 in
  let b := t_distance p2 p3 in
  let c := t_distance p1 p3 in
  let s := ew1 O (tun O (fun x => div O x (two O))) (ew O (tbin O (add O)) (ew O (tbin O (add O)) a b) c) in
  let squared := ew O (tbin O (mul O)) (ew O (tbin O (mul O)) (ew O (tbin O (mul O)) s (ew O (tbin O (sub O)) s a))
                                                              (ew O (tbin O (sub O)) s b)) (ew O (tbin O (sub O)) s c) in
  let area := ew1 O (tun O (sqrt O)) squared in
  let square_area := ew1 O (tun O (fun x => mul O x (two O))) area in
  let distance := ew1 O (tfixnan O) (ew O (tbin O (div O)) square_area b) in
  mkT (removelast (shape p1)) (map (tzero O) distance).
(* torch/representation/points.py:37-42: zero_filled, (Pts,B,L,D) -> (Pts,D,L,B) -> (Pts,D,B,L) -> (Pts*D,B,L) *)
Definition t_rep_points (p1 : marr) : tensor T :=
  let z := tmap (tzero O) p1 in
  let t2 := transpose (zero O) [0; 1; 3; 2] (transpose (zero O) [0; 3; 2; 1] z) in
  let s := shape t2 in
  mkT [dimn s 0 * dimn s 1; dimn s 2; dimn s 3] (data t2).

(* ---- the observable part of a body: confidences, missing pattern, zero-filled values ----------------------- *)
Definition visible_body (b : body) : marr * tensor T := (visible O (bdat b), bconf b).
Definition agree_body (b b' : body) : Prop := visible_body b = visible_body b'.
(* two fillings of the missing slots of one pose: stored values may differ only where the confidence is 0 *)
Definition same_pose (raw raw' conf : tensor T) : Prop :=
  shape raw = shape raw' /\ length (data raw) = length (data raw') /\
  forall k, is0 O (rdT (data conf) (k / lastd (shape raw))) = false -> rdT (data raw) k = rdT (data raw') k.
(* class invariant of a pose (C12): whatever is masked has confidence 0 *)
Definition mask_le_conf (b : body) : Prop :=
  forall k, k < length (data (bdat b)) -> snd (rd (data (bdat b)) k) = true -> is0 O (rdT (data (bconf b)) (k / lastd (shape (bdat b)))) = true.

End Ops.
Arguments mkB {O}. Arguments bdat {O}. Arguments bconf {O}.
