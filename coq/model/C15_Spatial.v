(* C15 - spatial transforms and extents of the NumPy pose body.  Definitions only.

   The numeric parts are written once over [Num.ops]; theorems are proved for [R_ops], the extracted runner
   executes [F_ops] (binary64) or [F32_ops] (binary32 arithmetic, below).

   A body is frames -> people -> points; a point is its coordinates, each with its own mask bit (numpy.ma
   masks are per element; every body built from plain arrays or read from a file has the same bit on all
   coordinates of a point), and its confidence.  Data under the mask is carried along as numpy.ma does for
   flip / matmul / focus; for bbox the model writes 0 under the mask (numpy writes its fill value): data
   under the mask is never compared. *)
From Coq Require Import ZArith List Bool.
Require Import Result Num.
Import ListNotations.

Section Spatial.
Variable O : ops.
Notation T := (T O).
(* math.ceil of a Python float: None for nan / inf (ValueError / OverflowError) *)
Variable ceilZ : T -> option Z.

Record point := mkP { pcs : list (T * bool);     (* (coordinate, masked?) per axis *)
                      pc : T }.                  (* confidence *)
Definition person := list point.
Definition frames := list (list person).          (* frames -> people -> points *)

Definition map3 (f : point -> point) (b : frames) : frames := map (map (map f)) b.
Fixpoint zipw {A B C} (f : A -> B -> C) (l1 : list A) (l2 : list B) : list C :=
  match l1, l2 with x :: r1, y :: r2 => f x y :: zipw f r1 r2 | _, _ => [] end.

(* numpy/pose_body.py:43-52  NumPyPoseBody.__init__: a MaskedArray *is* an np.ndarray, so the branch is always
   taken: mask = confidence == 0, stacked over the last axis, OR-ed into the mask the data already has
   (ma.masked_array(..., keep_mask=True)) *)
Definition reinit (p : point) : point :=
  mkP (map (fun c : T * bool => (fst c, snd c || eqb O (pc p) (zero O))) (pcs p)) (pc p).

(* ---------------- flip: numpy/pose_body.py:210-228 ---------------- *)
(* vec = np.ones(D); vec[axis] = -1 *)
Definition sign_vec (D ax : nat) : list T :=
  map (fun k => if Nat.eqb k ax then opp O (one O) else one O) (seq 0 D).
(* Python index normalisation of vec[axis]; IndexError outside [-D, D) *)
Definition norm_axis (D : nat) (axis : Z) : option nat :=
  let d := Z.of_nat D in
  if (0 <=? axis)%Z && (axis <? d)%Z then Some (Z.to_nat axis)
  else if (- d <=? axis)%Z && (axis <? 0)%Z then Some (Z.to_nat (axis + d))
  else None.
(* data = self.data * vec  (masked multiply: mask kept, data under the mask kept) ; then __init__ *)
Definition flip_point (D ax : nat) (p : point) : point :=
  reinit (mkP (zipw (fun (c : T * bool) (v : T) => if snd c then c else (mul O (fst c) v, false)) (pcs p) (sign_vec D ax)) (pc p)).
Definition flip (D : nat) (axis : Z) (b : frames) : result frames :=
  match norm_axis D axis with
  | Some ax => Ok (map3 (flip_point D ax) b)
  | None => Err Index
  end.

(* ---------------- matmul: numpy/pose_body.py:193-208, numpy.ma.dot(strict=False) ---------------- *)
(* d = np.dot(filled(a, 0), b);  m = ~np.dot(~mask_a, ones)  i.e. masked iff every coordinate is masked *)
Definition dotp (x c : list T) : T := sum O (zipw (mul O) x c).
Definition col (j : nat) (M : list (list T)) : list T := map (fun row => nth j row (zero O)) M.
Definition vecmat (K : nat) (x : list T) (M : list (list T)) : list T :=
  map (fun j => dotp x (col j M)) (seq 0 K).
Definition filled (p : point) : list T := map (fun c : T * bool => if snd c then zero O else fst c) (pcs p).
Definition allmasked (p : point) : bool := forallb (@snd T bool) (pcs p).
Definition matmul_point (K : nat) (M : list (list T)) (p : point) : point :=
  reinit (mkP (map (fun v => (v, allmasked p)) (vecmat K (filled p) M)) (pc p)).
(* matrix of shape (R, K) given as R rows; np.dot raises ValueError unless R = D *)
Definition matrix_ok (R K : nat) (M : list (list T)) : bool :=
  Nat.eqb (length M) R && forallb (fun row => Nat.eqb (length row) K) M.
Definition matmul (D R K : nat) (M : list (list T)) (b : frames) : result frames :=
  if Nat.eqb R D && matrix_ok R K M then Ok (map3 (matmul_point K M) b) else Err Value.

(* ---------------- augment2d: pose_body.py:380-431 ---------------- *)
Definition eye (n : nat) : list (list T) :=
  map (fun i => map (fun j => if Nat.eqb i j then one O else zero O) (seq 0 n)) (seq 0 n).
(* np.dot of two n-column matrices *)
Definition mm (n : nat) (A B : list (list T)) : list (list T) := map (fun row => vecmat n row B) A.
Definition pos (x : T) : bool := ltb O (zero O) x.     (* `if std > 0` *)
(* the three normal draws are arguments: g_shear, (cos, sin) of the drawn angle, g_scale *)
Record draws := mkD { g_shear : T; g_cos : T; g_sin : T; g_scale : T }.
Definition shear_matrix (g : T) : list (list T) := [[one O; g]; [zero O; one O]].
Definition rotation_matrix (c s : T) : list (list T) := [[c; opp O s]; [s; c]].
Definition scale_matrix (g : T) : list (list T) := [[one O; zero O]; [zero O; add O (one O) g]].
Definition aug_matrix (rotation_std shear_std scale_std : T) (d : draws) : list (list T) :=
  let m0 := eye 2 in
  let m1 := if pos shear_std then mm 2 m0 (shear_matrix (g_shear d)) else m0 in
  let m2 := if pos rotation_std then mm 2 m1 (rotation_matrix (g_cos d) (g_sin d)) else m1 in
  let m3 := if pos scale_std then mm 2 m2 (scale_matrix (g_scale d)) else m2 in
  m3.
(* dim_matrix = np.eye(D); dim_matrix[0:2, 0:2] = matrix *)
Definition embed (D : nat) (m : list (list T)) : list (list T) :=
  map (fun i => map (fun j => if Nat.ltb i 2 && Nat.ltb j 2 then nth j (nth i m []) (zero O)
                              else if Nat.eqb i j then one O else zero O) (seq 0 D)) (seq 0 D).
(* for D < 2 the slice assignment cannot broadcast (ValueError).  The cast astype(float32) is rounding: not modelled *)
Definition augment2d (D : nat) (rotation_std shear_std scale_std : T) (d : draws) (b : frames) : result frames :=
  if Nat.ltb D 2 then Err Value
  else matmul D D D (embed D (aug_matrix rotation_std shear_std scale_std d)) b.

(* ---------------- masked min / max ---------------- *)
Definition min2 (a b : T) : T := if leb O a b then a else b.
Definition max2 (a b : T) : T := if leb O a b then b else a.
Definition lmin (l : list T) : option T := match l with [] => None | x :: r => Some (fold_left min2 r x) end.
Definition lmax (l : list T) : option T := match l with [] => None | x :: r => Some (fold_left max2 r x) end.
(* observed (unmasked) values on axis d *)
Definition obs_axis (d : nat) (pts : list point) : list T :=
  flat_map (fun p => match nth_error (pcs p) d with Some (x, false) => [x] | _ => [] end) pts.
Definition all_points (b : frames) : list point := concat (concat b).

(* ---------------- focus: pose.py:100-111, pose_header.py:180-183 ---------------- *)
Definition need {A} (o : option A) (e : err) : result A := match o with Some a => Ok a | None => Err e end.
(* self.body.data = ma.subtract(self.body.data, mins) *)
Definition shift_point (mins : list T) (p : point) : point :=
  mkP (zipw (fun (c : T * bool) (m : T) => if snd c then c else (sub O (fst c) m, false)) (pcs p) mins) (pc p).
(* (a - b) of two masked scalars *)
Definition osub (a b : option T) : option T :=
  match a, b with Some x, Some y => Some (sub O x y) | _, _ => None end.
Definition val (o : option T) : T := match o with Some v => v | None => zero O end.
Definition focus (D : nat) (b : frames) : result (frames * (Z * Z * Z)) :=
  let pts := all_points b in
  (* mins = ma.min(data, axis=(0, 1, 2)): one entry per axis, masked (None) when the axis has no observed value *)
  let mins := map (fun d => lmin (obs_axis d pts)) (seq 0 D) in
  let maxs := map (fun d => lmax (obs_axis d pts)) (seq 0 D) in
  (* if np.count_nonzero(mins) > 0 -- a masked entry holds the fill value, which counts as non-zero.
     Subtracting a masked minimum masks that axis, which has no observed value anyway. *)
  let b' := if existsb (fun m => match m with Some v => negb (eqb O v (zero O)) | None => true end) mins
            then map3 (shift_point (map val mins)) b else b in
  let ext := zipw osub maxs mins in
  (* PoseHeaderDimensions applied to the unpacked list: width, height, depth=0, *args ; each of the three through
     math.ceil, which raises TypeError on the None a masked entry becomes (an empty array makes ma.min raise before) *)
  match ext with
  | w :: h :: rest =>
      do wv <- need w Type_; do wz <- need (ceilZ wv) Value;
      do hv <- need h Type_; do hz <- need (ceilZ hv) Value;
      do dz <- match rest with [] => Ok 0%Z | dpt :: _ => do dv <- need dpt Type_; need (ceilZ dv) Value end;
      Ok (b', (wz, hz, dz))
  | _ => Err Type_
  end.

(* ---------------- bbox: numpy/pose_body.py:264-299 with the repairs F11 (mask indexed, any D) and F11b
   (a component without points gets a missing box) ---------------- *)
Fixpoint split_comps (ns : list nat) (pts : list point) : list (list point) :=
  match ns with [] => [] | n :: r => firstn n pts :: split_comps r (skipn n pts) end.
Definition is_none {A} (o : option A) : bool := match o with None => true | Some _ => false end.
(* ma.stack([ma.min(c, axis=0), ma.max(c, axis=0)]); confidence = 0 where axis 0 of the box is masked, else 1;
   then __init__ *)
Definition box (D : nat) (cpts : list point) : list point :=
  let conf := if is_none (lmin (obs_axis 0 cpts)) then zero O else one O in
  [ reinit (mkP (map (fun d => (val (lmin (obs_axis d cpts)), is_none (lmin (obs_axis d cpts)))) (seq 0 D)) conf);
    reinit (mkP (map (fun d => (val (lmax (obs_axis d cpts)), is_none (lmax (obs_axis d cpts)))) (seq 0 D)) conf) ].
Definition bbox_person (D : nat) (ns : list nat) (pts : list point) : list point :=
  flat_map (box D) (split_comps ns pts).
(* N = data.shape[2]; indexing points beyond N raises IndexError; D = 0 has no axis 0 to read the mask from *)
Definition bbox (D N : nat) (ns : list nat) (b : frames) : result frames :=
  if Nat.eqb D 0 || Nat.ltb N (fold_right Nat.add 0 ns) then Err Index
  else Ok (map (map (bbox_person D ns)) b).
End Spatial.

Arguments mkP {O}. Arguments pcs {O}. Arguments pc {O}. Arguments mkD {O}.
Arguments g_shear {O}. Arguments g_cos {O}. Arguments g_sin {O}. Arguments g_scale {O}.

(* ---------------- bbox header: pose_header.py:422-437 (and pose.py:306-317) ---------------- *)
(* names as code points (Coq's [string] must not reach the extracted code: it would shadow OCaml's);
   "TOP_LEFT" and "BOTTOM_RIGHT" - tied to the source text by box_points_tie in proofs/C15_GenTie.v *)
Definition box_points : list (list Z) :=
  [ [84; 79; 80; 95; 76; 69; 70; 84];
    [66; 79; 84; 84; 79; 77; 95; 82; 73; 71; 72; 84] ]%Z.
Definition box_limbs : list (Z * Z) := [(0, 1)]%Z.
Record hcomp := mkH { hc_name : list Z; hc_format : list Z; hc_points : list (list Z);
                      hc_limbs : list (Z * Z); hc_colors : list (Z * Z * Z) }.
(* the limb colour does not matter to the property: a parameter (regenerated from the source on every run) *)
Definition bbox_header (colors : list (Z * Z * Z)) (comps : list hcomp) : list hcomp :=
  map (fun c => mkH (hc_name c) (hc_format c) box_points box_limbs colors) comps.
