(* C19 - the OpenPose layouts the model is written against (utils/openpose.py:14-215, utils/openpose_135.py:6-93).
   HAND-KEPT LITERALS: the 137-point layout (BODY_25 body, 70 face points, 2 x 21 hand points, keyed by the JSON
   field names of OpenPose's *_keypoints.json files) and the single-component 135-point layout, limbs by point index,
   formats, and the frame-file pattern.  coq/gen/Gen_C19.v is regenerated from /repo on every run and
   proofs/C19_GenTie.v proves it equal to these literals, so a source edit of a table breaks a proof obligation. *)
From Coq Require Import String List Arith.
Import ListNotations.
Open Scope string_scope.

Definition frame_pattern : string := "(?:^|\D)(\d+)\_keypoints.json".

Definition components_137 : list (string * list string * list (nat * nat) * string) :=
  [ ("pose_keypoints_2d",
   [ "Nose"; "Neck"; "RShoulder"; "RElbow"; "RWrist"; "LShoulder"; "LElbow"; "LWrist"; "MidHip"; "RHip"; "RKnee"; "RAnkle"; "LHip"; "LKnee"; "LAnkle"; "REye"; "LEye"; "REar"; "LEar"; "LBigToe"; "LSmallToe"; "LHeel"; "RBigToe"; "RSmallToe"; "RHeel" ],
   [ (1, 2); (2, 3); (3, 4); (1, 5); (5, 6); (6, 7); (1, 8); (0, 16); (0, 15); (0, 18); (0, 17); (1, 0); (8, 9); (9, 10); (10, 11); (8, 12); (12, 13); (13, 14); (11, 24); (11, 22); (22, 23); (14, 21); (14, 19); (19, 20) ],
   "XYC");
    ("face_keypoints_2d",
   [ "FB_0"; "FB_1"; "FB_2"; "FB_3"; "FB_4"; "FB_5"; "FB_6"; "FB_7"; "FB_8"; "FB_9"; "FB_10"; "FB_11"; "FB_12"; "FB_13"; "FB_14"; "FB_15"; "FB_16"; "FEB_17"; "FEB_18"; "FEB_19"; "FEB_20"; "FEB_21"; "FEB_22"; "FEB_23"; "FEB_24"; "FEB_25"; "FEB_26"; "FN_27"; "FN_28"; "FN_29"; "FN_30"; "FN_31"; "FN_32"; "FN_33"; "FN_34"; "FN_35"; "FE_36"; "FE_37"; "FE_38"; "FE_39"; "FE_40"; "FE_41"; "FE_42"; "FE_43"; "FE_44"; "FE_45"; "FE_46"; "FE_47"; "FLO_48"; "FLO_49"; "FLO_50"; "FLO_51"; "FLO_52"; "FLO_53"; "FLO_54"; "FLO_55"; "FLO_56"; "FLO_57"; "FLO_58"; "FLO_59"; "FLI_60"; "FLI_61"; "FLI_62"; "FLI_63"; "FLI_64"; "FLI_65"; "FLI_66"; "FLI_67"; "FP_68"; "FP_69" ],
   [ (8, 7); (7, 6); (6, 5); (5, 4); (4, 3); (3, 2); (2, 1); (1, 0); (8, 9); (9, 10); (10, 11); (11, 12); (12, 13); (13, 14); (14, 15); (15, 16); (48, 49); (49, 50); (50, 51); (51, 52); (52, 53); (53, 54); (54, 55); (55, 56); (56, 57); (57, 58); (58, 59); (59, 48); (60, 61); (61, 62); (62, 63); (63, 64); (64, 65); (65, 66); (66, 67); (67, 60); (27, 28); (28, 29); (29, 30); (30, 31); (31, 32); (32, 33); (33, 34); (34, 35); (30, 33); (17, 18); (18, 19); (19, 20); (20, 21); (22, 23); (23, 24); (24, 25); (25, 26); (36, 37); (37, 38); (38, 39); (39, 40); (40, 41); (41, 36); (42, 43); (43, 44); (44, 45); (45, 46); (46, 47); (47, 42) ],
   "XYC");
    ("hand_left_keypoints_2d",
   [ "BASE"; "T_STT"; "T_BCMC"; "T_MCP"; "T_IP"; "I_CMC"; "I_MCP"; "I_PIP"; "I_DIP"; "M_CMC"; "M_MCP"; "M_PIP"; "M_DIP"; "R_CMC"; "R_MCP"; "R_PIP"; "R_DIP"; "P_CMC"; "P_MCP"; "P_PIP"; "P_DIP" ],
   [ (0, 1); (0, 5); (0, 9); (0, 13); (0, 17); (1, 2); (2, 3); (3, 4); (5, 6); (6, 7); (7, 8); (9, 10); (10, 11); (11, 12); (13, 14); (14, 15); (15, 16); (17, 18); (18, 19); (19, 20) ],
   "XYC");
    ("hand_right_keypoints_2d",
   [ "BASE"; "T_STT"; "T_BCMC"; "T_MCP"; "T_IP"; "I_CMC"; "I_MCP"; "I_PIP"; "I_DIP"; "M_CMC"; "M_MCP"; "M_PIP"; "M_DIP"; "R_CMC"; "R_MCP"; "R_PIP"; "R_DIP"; "P_CMC"; "P_MCP"; "P_PIP"; "P_DIP" ],
   [ (0, 1); (0, 5); (0, 9); (0, 13); (0, 17); (1, 2); (2, 3); (3, 4); (5, 6); (6, 7); (7, 8); (9, 10); (10, 11); (11, 12); (13, 14); (14, 15); (15, 16); (17, 18); (18, 19); (19, 20) ],
   "XYC") ].

Definition components_135 : list (string * list string * list (nat * nat) * string) :=
  [ ("BODY_135",
   [ "Nose"; "LEye"; "REye"; "LEar"; "REar"; "LShoulder"; "RShoulder"; "LElbow"; "RElbow"; "LWrist"; "RWrist"; "LHip"; "RHip"; "LKnee"; "RKnee"; "LAnkle"; "RAnkle"; "UpperNeck"; "HeadTop"; "LBigToe"; "LSmallToe"; "LHeel"; "RBigToe"; "RSmallToe"; "RHeel"; "LThumb1CMC"; "LThumb2Knuckles"; "LThumb3IP"; "LThumb4FingerTip"; "LIndex1Knuckles"; "LIndex2PIP"; "LIndex3DIP"; "LIndex4FingerTip"; "LMiddle1Knuckles"; "LMiddle2PIP"; "LMiddle3DIP"; "LMiddle4FingerTip"; "LRing1Knuckles"; "LRing2PIP"; "LRing3DIP"; "LRing4FingerTip"; "LPinky1Knuckles"; "LPinky2PIP"; "LPinky3DIP"; "LPinky4FingerTip"; "RThumb1CMC"; "RThumb2Knuckles"; "RThumb3IP"; "RThumb4FingerTip"; "RIndex1Knuckles"; "RIndex2PIP"; "RIndex3DIP"; "RIndex4FingerTip"; "RMiddle1Knuckles"; "RMiddle2PIP"; "RMiddle3DIP"; "RMiddle4FingerTip"; "RRing1Knuckles"; "RRing2PIP"; "RRing3DIP"; "RRing4FingerTip"; "RPinky1Knuckles"; "RPinky2PIP"; "RPinky3DIP"; "RPinky4FingerTip"; "FaceContour0"; "FaceContour1"; "FaceContour2"; "FaceContour3"; "FaceContour4"; "FaceContour5"; "FaceContour6"; "FaceContour7"; "FaceContour8"; "FaceContour9"; "FaceContour10"; "FaceContour11"; "FaceContour12"; "FaceContour13"; "FaceContour14"; "FaceContour15"; "FaceContour16"; "REyeBrow0"; "REyeBrow1"; "REyeBrow2"; "REyeBrow3"; "REyeBrow4"; "LEyeBrow4"; "LEyeBrow3"; "LEyeBrow2"; "LEyeBrow1"; "LEyeBrow0"; "NoseUpper0"; "NoseUpper1"; "NoseUpper2"; "NoseUpper3"; "NoseLower0"; "NoseLower1"; "NoseLower2"; "NoseLower3"; "NoseLower4"; "REye0"; "REye1"; "REye2"; "REye3"; "REye4"; "REye5"; "LEye0"; "LEye1"; "LEye2"; "LEye3"; "LEye4"; "LEye5"; "OMouth0"; "OMouth1"; "OMouth2"; "OMouth3"; "OMouth4"; "OMouth5"; "OMouth6"; "OMouth7"; "OMouth8"; "OMouth9"; "OMouth10"; "OMouth11"; "IMouth0"; "IMouth1"; "IMouth2"; "IMouth3"; "IMouth4"; "IMouth5"; "IMouth6"; "IMouth7"; "RPupil"; "LPupil" ],
   [ (6, 5); (6, 8); (8, 10); (5, 7); (7, 9); (0, 1); (0, 2); (0, 3); (0, 4); (12, 11); (12, 6); (11, 5); (12, 14); (14, 16); (11, 13); (13, 15); (16, 24); (16, 22); (22, 23); (15, 21); (15, 19); (19, 20); (9, 25); (10, 45); (9, 29); (10, 49); (9, 33); (10, 53); (9, 37); (10, 57); (9, 41); (10, 61); (25, 26); (45, 46); (26, 27); (46, 47); (27, 28); (47, 48); (29, 30); (49, 50); (30, 31); (50, 51); (31, 32); (51, 52); (33, 34); (53, 54); (34, 35); (54, 55); (35, 36); (55, 56); (37, 38); (57, 58); (38, 39); (58, 59); (39, 40); (59, 60); (41, 42); (61, 62); (42, 43); (62, 63); (43, 44); (63, 64); (73, 72); (72, 71); (71, 70); (70, 69); (69, 68); (68, 67); (67, 66); (66, 65); (73, 74); (74, 75); (75, 76); (76, 77); (77, 78); (78, 79); (79, 80); (80, 81); (113, 114); (114, 115); (115, 116); (116, 117); (117, 118); (118, 119); (119, 120); (120, 121); (121, 122); (122, 123); (123, 124); (124, 113); (125, 126); (126, 127); (127, 128); (128, 129); (129, 130); (130, 131); (131, 132); (132, 125); (92, 93); (93, 94); (94, 95); (95, 96); (96, 97); (97, 98); (98, 99); (99, 100); (95, 98); (82, 83); (83, 84); (84, 85); (85, 86); (87, 88); (88, 89); (89, 90); (90, 91); (101, 102); (102, 103); (103, 104); (104, 105); (105, 106); (106, 101); (107, 108); (108, 109); (109, 110); (110, 111); (111, 112); (112, 107) ],
   "XYC") ].

