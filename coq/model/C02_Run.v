(* dispatch for C02: the byte-layer ops of CodecRun plus
   (7 pose) -> spec_encode
   (8 pose) -> the reader direction on an arbitrary content: (1 coherent? spec-bytes read-result rewrite-result) or (0 0)
               when the content is not encodable; read = Pose.read of the spec bytes with an empty memo,
               rewrite = Pose.write of the pose just read *)
From Coq Require Import ZArith NArith List Bool.
Require Import ListN Result Tree Bytes Prog Codec CodecTree PoseRead CodecRun C02_SpecV02 C02_Content.
Import ListNotations.
Definition t_component (t : tree) : component :=
  {| c_name := t_ns (t_nth 0 t); c_format := t_ns (t_nth 1 t); c_points := map t_ns (t_list (t_nth 2 t));
     c_limbs := map (fun l => (t_n (t_nth 0 l), t_n (t_nth 1 l))) (t_list (t_nth 3 t));
     c_colors := map (fun k => (t_n (t_nth 0 k), t_n (t_nth 1 k), t_n (t_nth 2 k))) (t_list (t_nth 4 t)) |}.
Definition t_pose (t : tree) : pose :=
  let h := t_nth 0 t in let b := t_nth 1 t in
  {| p_header := {| h_version := t_n (t_nth 0 h);
                    h_dims := (t_n (t_nth 0 (t_nth 1 h)), t_n (t_nth 1 (t_nth 1 h)), t_n (t_nth 2 (t_nth 1 h)));
                    h_comps := map t_component (t_list (t_nth 2 h)) |};
     p_body := {| b_fps := t_n (t_nth 0 b); b_shape := t_ns (t_nth 1 b); b_data := t_ns (t_nth 2 b);
                  b_conf := t_ns (t_nth 3 b); b_mask := t_bools (t_nth 4 b) |} |}.
Definition run_reader_direction (c : pose) : tree :=
  match spec_encode c with
  | Some sb =>
      let r := fst (read_bytes no_legacy None sb no_args) in
      Nd [L 1; of_bool (coherent c); of_ns sb; of_result of_pose r;
          of_result of_ns (rbind r (fun q => write_pose (wpose_of_read q)))]
  | None => Nd [L 0; L 0]
  end.
Definition dispatch_c02 (t : tree) : tree :=
  if (t_z (t_nth 0 t) =? 7)%Z then
    match spec_encode (t_pose (t_nth 1 t)) with Some b => Nd [L 1; of_ns b] | None => Nd [L 0; L 0] end
  else if (t_z (t_nth 0 t) =? 8)%Z then run_reader_direction (t_pose (t_nth 1 t))
  else dispatch_with no_legacy t.
