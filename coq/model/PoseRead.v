(* Pose.read (pose.py:34-64) with the process-global header memo (pose_header.py:232-262,305-336).
   md5 is modelled as injective: the memo stores the hashed slice itself.  Definitions only. *)
From Coq Require Import ZArith NArith List Bool.
Require Import ListN Result Bytes Prog Codec.
Import ListNotations.
Open Scope N_scope.

Record memo := { m_start : N; m_end : N; m_slice : bytes; m_header : header }.
Fixpoint bytes_eqb (a b : bytes) : bool :=
  match a, b with
  | [], [] => true
  | x :: a', y :: b' => (x =? y) && bytes_eqb a' b'
  | _, _ => false
  end.
(* buffer[start_offset:end_offset] with Python slice clipping *)
Definition py_slice (s e : N) (b : bytes) : bytes := takeN (e - s) (dropN s b).
Definition check_cache (m : option memo) (buffer : bytes) : option memo :=
  match m with
  | None => None
  | Some c => if bytes_eqb (m_slice c) (py_slice (m_start c) (m_end c) buffer) then Some c else None
  end.
Definition prefetch_len (m : option memo) : N :=
  (match m with Some c => (if m_end c =? 0 then 10240 else m_end c) | None => 10240 end) + 100.

(* body decoder chosen by the header's version (pose_body.py:62-69); legacy decoders: BodyLegacy *)
Definition read_body_with (legacy : vclass -> header -> rargs -> prog body) (h : header) (a : rargs) : prog body :=
  match version_class (h_version h) with
  | V02 => read_v0_2 h (a_sf a) (a_st a) (a_ef a) (a_et a)
  | VUnknown => Fail NotImplemented
  | v => legacy v h a
  end.
Definition no_legacy (v : vclass) (h : header) (a : rargs) : prog body := Fail NotImplemented.

Section WithLegacy.
Variable legacy : vclass -> header -> rargs -> prog body.
Definition read_body := read_body_with legacy.

(* Pose.read on a bytes object *)
Definition read_bytes (m : option memo) (buffer : bytes) (a : rargs) : result pose * option memo :=
  match check_cache m buffer with
  | Some c =>
      (rmap (fun br => {| p_header := m_header c; p_body := fst br |})
            (run_plain (read_body (m_header c) a) {| pbuf := buffer; poff := m_end c |}), m)
  | None =>
      match run_plain rd_header {| pbuf := buffer; poff := 0 |} with
      | Err e => (Err e, m)
      | Ok (h, r) =>
          let m' := Some {| m_start := 0; m_end := poff r; m_slice := py_slice 0 (poff r) buffer; m_header := h |} in
          (rmap (fun br => {| p_header := h; p_body := fst br |}) (run_plain (read_body h a) r), m')
      end
  end.

Definition any_arg (a : rargs) : bool :=
  match a_sf a, a_st a, a_ef a, a_et a with None, None, None, None => false | _, _, _, _ => true end.
(* Pose.read on a seekable stream positioned at 0; third component: bytes pulled from the stream *)
Definition read_stream (m : option memo) (file : bytes) (a : rargs) : result pose * option memo * N :=
  if negb (any_arg a) then
    let '(r, m') := read_bytes m file a in (r, m', lenN file)
  else
    let r0 := {| buf := []; off := 0; skipped := 0; pulled := 0 |} in
    match expect file (prefetch_len m) r0 with
    | Err e => (Err e, m, 0)
    | Ok r1 =>
      match check_cache m (buf r1) with
      | Some c =>
          let r2 := {| buf := buf r1; off := m_end c; skipped := skipped r1; pulled := pulled r1 |} in
          match run_stream file (read_body (m_header c) a) r2 with
          | Ok (b, r3) => (Ok {| p_header := m_header c; p_body := b |}, m, pulled r3)
          | Err e => (Err e, m, 0)
          end
      | None =>
          match run_stream file rd_header r1 with
          | Err e => (Err e, m, 0)
          | Ok (h, r2) =>
              let m' := Some {| m_start := 0; m_end := off r2; m_slice := py_slice 0 (off r2) (buf r2); m_header := h |} in
              match run_stream file (read_body h a) r2 with
              | Ok (b, r3) => (Ok {| p_header := h; p_body := b |}, m', pulled r3)
              | Err e => (Err e, m', 0)
              end
          end
      end
    end.
End WithLegacy.
