(* C13 - which statistic meets which cell in normalize_distribution(axis=...) (pose.py:173-176):
   data.mean(axis=axis) has the shape of the remaining axes; (data - mu) / std broadcasts it against data
   right-aligned (numpy / tf broadcasting), with no keepdims.  Definitions only. *)
From Coq Require Import List Arith Bool.
Require Import Tensor.
Import ListNotations.

Definition remaining {A} (axes : list nat) (l : list A) : list A :=
  map snd (filter (fun ia => negb (existsb (Nat.eqb (fst ia)) axes)) (combine (seq 0 (length l)) l)).
(* group of cell i: its multi-index restricted to the axes that are kept *)
Definition gkey_of (shape axes : list nat) (i : nat) : nat :=
  ravel (remaining axes shape) (remaining axes (unravel shape i)).
(* entry of the statistics that broadcasting pairs with cell i: the last [m] coordinates of its multi-index,
   m = rank of the statistics; an extent 1 of the statistics is stretched *)
Definition bkey_of (shape axes : list nat) (i : nat) : nat :=
  let rs := remaining axes shape in
  let ix := skipn (length shape - length rs) (unravel shape i) in
  ravel rs (map (fun de => if Nat.eqb (fst de) 1 then 0 else snd de) (combine rs ix)).
(* broadcasting succeeds without changing the shape of data: every extent of the statistics is 1 or equals the
   extent of the data axis it is aligned with *)
Definition broadcast_ok (shape axes : list nat) : bool :=
  let rs := remaining axes shape in
  forallb (fun de => Nat.eqb (fst de) 1 || Nat.eqb (fst de) (snd de)) (combine rs (skipn (length shape - length rs) shape)).
Definition groups_of (shape axes : list nat) : nat := prod (remaining axes shape).
