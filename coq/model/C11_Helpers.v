(* C11 - the known-format helpers of utils/generic.py, value level (definitions only).
   Every name table is a field of [tables]; the runner instantiates it with the tables regenerated
   from the source (gen/Gen_C11.v), the theorems hold for every table. *)
From Coq Require Import List Arith Bool NArith ZArith.
Require Import Result Tensor C11_Str C11_Select.
Import ListNotations.
Open Scope str_scope.
Open Scope list_scope.

Definition name2 := (str * str)%type.          (* (component, point) *)
Record tables := mkTables {
  t_mediapipe : list str;                          (* generic.py:32-38 *)
  t_openpose : list str;                           (* generic.py:40   [c.name for c in OpenPose_Components] *)
  t_openpose135 : list str;                        (* generic.py:42 *)
  t_hide_holistic : list (str * list str);      (* generic.py:74-80  points_to_remove_dict *)
  t_hide_openpose : list (str * list str);      (* generic.py:83-88 *)
  t_wrist_holistic : list (str * (name2 * name2)); (* generic.py:241,252  hand -> (hand wrist, body wrist) *)
  t_wrist_openpose : list (str * (name2 * name2)); (* generic.py:243,254 *)
  t_face_contours : list str;                      (* generic.py:298-307 *)
  t_ignore_names : list str;                       (* generic.py:309-313 *)
  t_body_comp : str; t_face_comp : str; t_world_comp : str   (* generic.py:315-319 *)
}.

(* Python [a in b] on str *)
Fixpoint prefixb (a b : str) : bool :=
  match a, b with
  | Snil, _ => true
  | Scons x a', Scons y b' => N.eqb x y && prefixb a' b'
  | _, _ => false
  end.
Fixpoint substrb (a b : str) : bool :=
  prefixb a b || match b with Snil => false | Scons _ b' => substrb a b' end.

(* generic.py:28-54  detect_known_pose_format *)
Inductive fmt := Holistic | OpenPose | OpenPose135.
Fixpoint detect (T : tables) (names : list str) : result fmt :=
  match names with
  | [] => Err Value
  | n :: r => if mem n (t_mediapipe T) then Ok Holistic
              else if mem n (t_openpose T) then Ok OpenPose
              else if mem n (t_openpose135 T) then Ok OpenPose135
              else detect T r
  end.

(* tensors built cell by cell *)
Definition tbuild {X} (ns : list nat) (f : list nat -> X) : tensor X :=
  mkT ns (map (fun k => f (unravel ns k)) (seq 0 (prod ns))).
Definition in_list (k : nat) (l : list nat) : bool := existsb (Nat.eqb k) l.
Definition axis2_lt (n : nat) (s : list nat) : bool := Nat.ltb n (nth 2 s 0).

(* ---------------------------------------------------------------- generic.py:65-112  pose_hide_legs *)
Definition hide_table (T : tables) (f : fmt) : result (list (str * list str)) :=
  match f with Holistic => Ok (t_hide_holistic T) | OpenPose => Ok (t_hide_openpose T) | OpenPose135 => Err NotImplemented end.
(* :99-106  indices of the named points that exist (ValueError swallowed) *)
Definition hide_indices (cs : list component) (tbl : list (str * list str)) : list nat :=
  flat_map (fun e => flat_map (fun p => match point_index cs (fst e) p with Ok k => [k] | Err _ => [] end) (snd e)) tbl.
(* :109-110  data[:, :, point_indices, :] = 0 ; confidence[:, :, point_indices] = 0
   (assigning an unmasked scalar into a soft-masked array clears the mask of the assigned cells) *)
Definition hide_cols {X} (d z : X) (idxs : list nat) (t : tensor X) : tensor X :=
  tbuild (shape t) (fun ix => if in_list (nth 2 ix 0) idxs then z else tget d t ix).
Definition hide_body (idxs : list nat) (b : body) : result body :=
  match b_backend b with
  | Numpy =>
      if Nat.eqb (length (shape (b_data b))) 4 && Nat.eqb (length (shape (b_mask b))) 4 && Nat.eqb (length (shape (b_conf b))) 3
         && forallb (fun k => axis2_lt k (shape (b_data b)) && axis2_lt k (shape (b_mask b)) && axis2_lt k (shape (b_conf b))) idxs
      then Ok (mkB Numpy (b_fps b) (hide_cols 0%Z 0%Z idxs (b_data b)) (hide_cols 0%Z 0%Z idxs (b_conf b))
                   (hide_cols false false idxs (b_mask b)))
      else Err Index
  | _ => Err Type_                                   (* MaskedTensor has no item assignment *)
  end.

(* ---------------------------------------------------------------- generic.py:238-283  correct_wrist(s) *)
Definition is_zero32 (w : Z) : bool := Z.eqb w 0 || Z.eqb w 2147483648.      (* float32 == 0: +0.0 or -0.0 *)
Definition wrist_entry (T : tables) (f : fmt) (hand : str) : result (name2 * name2) :=
  match f with
  | Holistic => match assoc_last hand (t_wrist_holistic T) with Some x => Ok x | None => Err Value end
  | OpenPose => match assoc_last hand (t_wrist_openpose T) with Some x => Ok x | None => Err Value end
  | OpenPose135 => Err NotImplemented
  end.
Definition at_col (ix : list nat) (k : nat) : list nat :=
  match ix with f :: p :: _ :: r => f :: p :: k :: r | _ => ix end.
(* :272-276  column bi := where(conf[.., wi] == 0, column bi, column wi) *)
Definition wrist_fix {X} (d : X) (conf : tensor Z) (wi bi : nat) (t : tensor X) : tensor X :=
  tbuild (shape t) (fun ix =>
    if Nat.eqb (nth 2 ix 0) bi
    then if is_zero32 (tget 0%Z conf [nth 0 ix 0; nth 1 ix 0; wi]) then tget d t ix else tget d t (at_col ix wi)
    else tget d t ix).
Definition correct_wrist_body (T : tables) (cs : list component) (b : body) (hand : str) : result body :=
  do f <- detect T (map c_name cs);
  do e <- wrist_entry T f hand;
  let '((hc, hp), (bc, bp)) := e in
  do wi <- point_index cs hc hp;                      (* get_hand_wrist_index *)
  do f2 <- detect T (map c_name cs);
  do bi <- point_index cs bc bp;                      (* get_body_hand_wrist_index *)
  match b_backend b, shape (b_data b), shape (b_mask b), shape (b_conf b) with
  | Numpy, [F; P; N; D], [F'; P'; N'; D'], [F''; P''; N''] =>
      if Nat.ltb wi N && Nat.ltb bi N && Nat.ltb wi N' && Nat.ltb bi N' && Nat.ltb wi N'' && Nat.ltb bi N''
         && Nat.eqb F F' && Nat.eqb F F'' && Nat.eqb P P' && Nat.eqb P P'' && Nat.eqb D D' && Nat.ltb 0 D
      then Ok (mkB Numpy (b_fps b) (wrist_fix 0%Z (b_conf b) wi bi (b_data b)) (wrist_fix 0%Z (b_conf b) wi bi (b_conf b))
                   (wrist_fix false (b_conf b) wi bi (b_mask b)))
      else Err Index
  | _, _, _, _ => Err Type_
  end.

(* ---------------------------------------------------------------- generic.py:286-319  reduce_holistic *)
Definition reduce_request (T : tables) (cs : list component) : result (list str * list (str * list str)) :=
  match find (fun c => str_eqb (c_name c) (t_body_comp T)) cs with
  | None => Err Index                                                      (* [...][0] *)
  | Some bc =>
      let keep := filter (fun p => forallb (fun i => negb (substrb i p)) (t_ignore_names T)) (c_points bc) in
      Ok (filter (fun n => negb (str_eqb n (t_world_comp T))) (map c_name cs),
          [(t_face_comp T, t_face_contours T); (t_body_comp T, keep)])
  end.
