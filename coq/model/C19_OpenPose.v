(* C19 - OpenPose import.  Model of utils/openpose.py:221-284 (load_openpose), :309-344
   (load_frames_directory_dict), :347-386 (load_openpose_directory) and utils/openpose_135.py:96-126.
   Definitions only.  Transcribed statement by statement from the statement lists that the translator
   regenerates (coq/gen/Gen_C19.v, tied in proofs/C19_GenTie.v).

   JSON side.  A person is the JSON object of one detected person: field name (code points) -> list of numbers;
   numbers are binary64 words (Python floats; the harness sends Python ints as the double they convert to exactly).
   A frame is frame["people"]; the frames dictionary is its item list in insertion order (keys distinct).
   Arrays are nested lists: data F x P x K x 2, confidence F x P x K, float32 words. *)
From Coq Require Import String Ascii List Arith NArith ZArith Bool.
Require Import Result F32 C19_Layout C19_FrameId.
Import ListNotations.
Local Open Scope nat_scope.

Definition person := list (key * list N).
Definition frame := list person.
Definition frames := list (nat * frame).

Fixpoint key_eqb (a b : key) : bool :=
  match a, b with
  | [], [] => true
  | x :: a', y :: b' => N.eqb x y && key_eqb a' b'
  | _, _ => false
  end.
(* person[name] *)
Fixpoint lookup (k : key) (p : person) : option (list N) :=
  match p with [] => None | (k', v) :: r => if key_eqb k k' then Some v else lookup k r end.

(* ---- arrays ---- *)
Fixpoint upd {A} (i : nat) (g : A -> option A) (l : list A) : option (list A) :=
  match l with
  | [] => None                                             (* IndexError *)
  | x :: r => match i with
              | O => match g x with Some y => Some (y :: r) | None => None end
              | S j => match upd j g r with Some r' => Some (x :: r') | None => None end
              end
  end.
Definition put {A} (v : A) : A -> option A := fun _ => Some v.
Definition store3 {A} (f p k : nat) (v : A) := upd f (upd p (upd k (put v))).
Definition store4 {A} (f p k d : nat) (v : A) := upd f (upd p (upd k (upd d (put v)))).
Record arrays := mkA { a_data : list (list (list (list N))); a_conf : list (list (list N)) }.

(* assignment of a Python float into a float32 array *)
Definition cast32 (w : N) : N := f64_to_f32 w.

(* openpose.py:271-275   for k in range(0, len(numbers), stride): ...   [numbers] is numbers[k:], fuel = len(numbers) *)
Fixpoint kp_loop (fuel stride : nat) (numbers : list N) (f p kid : nat) (a : arrays) : result (nat * arrays) :=
  match fuel with
  | O => Ok (kid, a)
  | S fuel' =>
      match numbers with
      | [] => Ok (kid, a)
      | x :: _ =>
          match store4 f p kid 0 (cast32 x) (a_data a) with None => Err Index | Some d1 =>      (* :272 *)
          match nth_error numbers 1 with None => Err Index | Some y =>
          match store4 f p kid 1 (cast32 y) d1 with None => Err Index | Some d2 =>              (* :273 *)
          match nth_error numbers 2 with None => Err Index | Some c =>
          match store3 f p kid (cast32 c) (a_conf a) with None => Err Index | Some c1 =>        (* :274 *)
          kp_loop fuel' stride (skipn stride numbers) f p (S kid) (mkA d2 c1)                   (* :275 *)
          end end end end end
      end
  end.
(* openpose.py:269-275   the running keypoint_id is threaded through the components *)
Fixpoint comp_loop (cs : list comp) (per : person) (f p kid : nat) (a : arrays) : result (nat * arrays) :=
  match cs with
  | [] => Ok (kid, a)
  | c :: cs' =>
      match lookup (c_name c) per with
      | None => Err Key                                                                         (* :270 *)
      | Some numbers =>
          let stride := List.length (c_format c) in
          if Nat.eqb stride 0 then Err Value                                                    (* range() step 0 *)
          else do r <- kp_loop (List.length numbers) stride numbers f p kid a;
               comp_loop cs' per f p (fst r) (snd r)
      end
  end.
(* openpose.py:267-268   enumerate(frame["people"]); keypoint_id = 0 for every person *)
Fixpoint person_loop (cs : list comp) (people : list person) (f p : nat) (a : arrays) : result arrays :=
  match people with
  | [] => Ok a
  | per :: rest => do r <- comp_loop cs per f p 0 a; person_loop cs rest f (S p) (snd r)
  end.
(* openpose.py:266 *)
Fixpoint frame_loop (cs : list comp) (fs : frames) (a : arrays) : result arrays :=
  match fs with
  | [] => Ok a
  | (fid, fr) :: rest => do a' <- person_loop cs fr fid 0 a; frame_loop cs rest a'
  end.

Definition list_max (l : list nat) : nat := fold_right Nat.max 0 l.
Definition total_points (cs : list comp) : nat := list_sum (map (fun c => List.length (c_points c)) cs).   (* pose_header.py:364 *)

(* fps / width / height / depth arguments: a Python int or a Python float (binary64 word) *)
Inductive num := NInt (z : Z) | NFloat (w : N).

Record pose := mkPose {
  p_comps : list comp;                        (* header.components *)
  p_dims : Z * Z * Z;                         (* header.dimensions: width, height, depth *)
  p_fps : num;                                (* body.fps *)
  p_shape : nat * nat * nat;                  (* frames, people, points of the arrays (np.zeros shape) *)
  p_data : list (list (list (list N)));       (* body.data values *)
  p_mask : list (list (list (list bool)));    (* body.data mask, True = missing *)
  p_conf : list (list (list N))               (* body.confidence *)
}.

(* openpose.py:251-284.  width/height/depth are integers (PoseHeaderDimensions applies math.ceil, the identity on
   ints).  The body records the fps it is given: `NumPyPoseBody(fps=fps, ...)` - the repaired statement (F14);
   the pinned tree had `fps=int(fps)`. *)
Definition load_openpose (cs : list comp) (fs : frames) (fps : num) (w h d : Z) (num_frames : option nat) : result pose :=
  let tp := total_points cs in
  do nf <- match num_frames with                                                                (* :257-259 *)
           | Some n => Ok n
           | None => match fs with [] => Err Value | _ => Ok (list_max (map fst fs) + 1) end
           end;
  do people <- match fs with [] => Err Value                                                    (* :262 *)
               | _ => Ok (list_max (map (fun x => List.length (snd x)) fs)) end;
  let data0 := repeat (repeat (repeat [0%N; 0%N] tp) people) nf in                              (* :263 *)
  let conf0 := repeat (repeat (repeat 0%N tp) people) nf in                                     (* :264 *)
  do a <- frame_loop cs fs (mkA data0 conf0);                                                   (* :266-275 *)
  let mask := map (map (map (fun c => let m := is_zero32 c in [m; m]))) (a_conf a) in           (* :278-279 *)
  Ok (mkPose cs (w, h, d) fps (nf, people, tp) (a_data a) mask (a_conf a)).                                      (* :280-284 *)

(* ---- directory loading ---- *)
(* frames[frame_id] = frame_dict on a Python dict: replace in place, or append *)
Fixpoint dict_set {V} (k : nat) (v : V) (d : list (nat * V)) : list (nat * V) :=
  match d with
  | [] => [(k, v)]
  | (k', v') :: r => if Nat.eqb k k' then (k, v) :: r else (k', v') :: dict_set k v r
  end.
(* openpose.py:335-344: entries in os.scandir order *)
Fixpoint dir_frames (entries : list (list N * frame)) (acc : frames) : result frames :=
  match entries with
  | [] => Ok acc
  | (name, fr) :: rest => do id <- get_frame_id name; dir_frames rest (dict_set (N.to_nat id) fr acc)
  end.
(* openpose.py:384-386 *)
Definition load_openpose_directory (entries : list (list N * frame)) (fps : num) (w h d : Z) (num_frames : option nat) : result pose :=
  do fs <- dir_frames entries []; load_openpose comps137 fs fps w h d num_frames.
(* openpose_135.py:120-126 *)
Definition load_openpose_135_directory (entries : list (list N * frame)) (fps : num) (w h d : Z) (num_frames : option nat) : result pose :=
  do p <- load_openpose_directory entries fps w h d num_frames;
  Ok (mkPose comps135 (p_dims p) (p_fps p) (let '(f, pp, k) := p_shape p in (f, pp, Nat.min 135 k))
        (map (map (firstn 135)) (p_data p)) (map (map (firstn 135)) (p_mask p)) (map (map (firstn 135)) (p_conf p))).
