(* dispatch of the C04 runner:
     (1 wpose)                         -> result bytes          Pose.write            (CodecRun)
     (4 ..) (5 ..) (6 ..)              as CodecRun.dispatch_with c04_legacy (stream reader of base/Prog.v)
     (40 (file ...) ((idx kind args) ...))  -> list of (result pose, pulled)   Pose.read history with the legacy
                                        decoders and the repaired stream reader (read_stream4); kind 0 bytes, 1 stream
     (41 content00)                    -> bytes                 reference encoder of docs/specs/v0.0.md
     (42 content01)                    -> bytes                 reference encoder of docs/specs/v0.1.md
     (43 a b)                          -> result Z              int(a / b) of Python ints *)
From Coq Require Import ZArith NArith List Bool.
Require Import ListN Result Tree Bytes Prog Codec CodecTree PoseRead CodecRun C04_Legacy C04_Spec.
Import ListNotations.

Fixpoint run_history40 (files : list (list N)) (m : option memo) (ops : list tree) : list tree :=
  match ops with
  | [] => []
  | op :: rest =>
      let file := nth (t_nat (t_nth 0 op)) files [] in
      let kind := t_z (t_nth 1 op) in
      let a := t_rargs (t_nth 2 op) in
      if (kind =? 0)%Z then
        let '(r, m') := read_bytes c04_legacy m file a in
        Nd [of_result of_pose r; L 0] :: run_history40 files m' rest
      else
        let '(r, m', pulled) := read_stream4 c04_legacy m file a in
        Nd [of_result of_pose r; of_n pulled] :: run_history40 files m' rest
  end.

Definition t_pairN (t : tree) : N * N := (t_n (t_nth 0 t), t_n (t_nth 1 t)).
Definition t_tripleN (t : tree) : N * N * N := (t_n (t_nth 0 t), t_n (t_nth 1 t), t_n (t_nth 2 t)).
Definition t_component (t : tree) : component :=
  {| c_name := t_str (t_nth 0 t); c_format := t_str (t_nth 1 t);
     c_points := map t_str (t_list (t_nth 2 t));
     c_limbs := map t_pairN (t_list (t_nth 3 t));
     c_colors := map t_tripleN (t_list (t_nth 4 t)) |}.
Definition t_header (t : tree) : header :=
  {| h_version := t_n (t_nth 0 t); h_dims := t_tripleN (t_nth 1 t);
     h_comps := map t_component (t_list (t_nth 2 t)) |}.
Definition t_point00 (t : tree) : point00 := (t_ns (t_nth 0 t), t_n (t_nth 1 t)).
Definition t_person00 (t : tree) : person00 :=
  {| ps_id := t_z (t_nth 0 t);
     ps_comps := map (fun c => map t_point00 (t_list c)) (t_list (t_nth 1 t)) |}.
Definition t_content00 (t : tree) : content00 :=
  {| k0_header := t_header (t_nth 0 t); k0_fps := t_n (t_nth 1 t);
     k0_frames := map (fun f => map t_person00 (t_list f)) (t_list (t_nth 2 t)) |}.
Definition t_content01 (t : tree) : content01 :=
  {| k1_header := t_header (t_nth 0 t); k1_fps := t_n (t_nth 1 t); k1_frames_field := t_n (t_nth 2 t);
     k1_people := t_n (t_nth 3 t);
     k1_data := map t_ns (t_list (t_nth 4 t)); k1_conf := map t_ns (t_list (t_nth 5 t)) |}.

Definition dispatch04 (t : tree) : tree :=
  let op := t_z (t_nth 0 t) in
  if (op =? 40)%Z then Nd (run_history40 (map t_ns (t_list (t_nth 1 t))) None (t_list (t_nth 2 t)))
  else if (op =? 41)%Z then of_ns (spec00 (t_content00 (t_nth 1 t)))
  else if (op =? 42)%Z then of_ns (spec01 (t_content01 (t_nth 1 t)))
  else if (op =? 43)%Z then of_result of_z (py_int_truediv (t_z (t_nth 1 t)) (t_z (t_nth 2 t)))
  else dispatch_with c04_legacy t.
