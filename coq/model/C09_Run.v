(* C09 - executed instance (binary64) of the model and the runner's dispatch.
   request  (op backend shape vals conf params)          body operations; vals = stored values, garbage included
            (op backend shape ((vals masks) ...))         representations on masked inputs
   reply    (1 payload) | (0 error-code);  floats are binary64 bit patterns.  Definitions only. *)
From Coq Require Import List Arith Bool ZArith PrimFloat.
Require Import Tensor Num Result Tree C09_Masked C09_Ops C09_TfNorm C09_Facts Gen_C09.
Import ListNotations.

(* ---- external numerics of the executed instance -------------------------------------------------------------- *)
Definition fhalfpi : float := 0x1.921fb54442d18p+0%float.    (* pi/2 = 1.5707963267948966 *)
(* atan by two half-angle reductions and the odd series up to y^15 (|y| <= tan(pi/16): error < 1e-13) *)
Definition atan_small (y : float) : float :=
  let y2 := (y * y)%float in
  (y * (1 - y2 * (1/3 - y2 * (1/5 - y2 * (1/7 - y2 * (1/9 - y2 * (1/11 - y2 * (1/13 - y2 * (1/15)))))))))%float.
Definition atan_01 (x : float) : float :=
  let h := fun z => (z / (1 + PrimFloat.sqrt (1 + z * z)))%float in
  (4 * atan_small (h (h x)))%float.
Definition atan_pos (x : float) : float := if PrimFloat.ltb 1 x then (fhalfpi - atan_01 (1 / x))%float else atan_01 x.
Definition fatan (x : float) : float := if PrimFloat.ltb x 0 then (- atan_pos (- x))%float else atan_pos x.
(* acos x = 2 atan (sqrt ((1 - x) / (1 + x))): nan outside [-1, 1], pi at -1 *)
Definition facos (x : float) : float := (2 * fatan (PrimFloat.sqrt ((1 - x) / (1 + x))))%float.

(* scipy interp1d(kind='linear'): searchsorted (left), clip to [1, n-1], two-point formula.  Quadratic and cubic
   splines are not implemented: every kind runs the linear instance (values of those kinds are not compared). *)
Fixpoint searchsorted (xs : list float) (q : float) (i : nat) : nat :=
  match xs with [] => i | x :: r => if PrimFloat.ltb x q then searchsorted r q (S i) else i end.
Definition flin (kind : nat) (xs : list float) (rows : list (list float)) (qs : list float) : list (list float) :=
  map (fun q =>
    let i := Nat.max 1 (Nat.min (searchsorted xs q 0) (length xs - 1)) in
    let xlo := nth (i - 1) xs 0%float in let xhi := nth i xs 0%float in
    let ylo := nth (i - 1) rows [] in let yhi := nth i rows [] in
    map (fun ab => ((snd ab - fst ab) / (xhi - xlo) * (q - xlo) + fst ab)%float) (combine ylo yhi)) qs.

Definition f1e20 : float := 1e20%float.
Definition ftiny : float := float_of_bits 4503599627370496.     (* 2^-1022 *)
Definition fid (x : float) : float := x.
Definition FE : ext F_ops := mkExt (O := F_ops) infinity neg_infinity ftiny f1e20 fid fatan facos flin.

(* ---- wire ---------------------------------------------------------------------------------------------------- *)
Definition t_f (t : tree) : float := float_of_bits (t_z t).
Definition t_fs (t : tree) : list float := map t_f (t_list t).
Definition of_f (x : float) : tree := L (bits_of_float x).
Definition of_fs (l : list float) : tree := Nd (map of_f l).
Definition of_cells (l : list (float * bool)) : tree := Nd [of_fs (map fst l); of_bools (map snd l)].
Definition of_tensorT (t : tensor float) : tree := Nd [of_nats (shape t); of_fs (data t)].
Definition of_body (b : body F_ops) : tree :=
  Nd [of_nats (shape (bdat b)); of_fs (map fst (data (bdat b))); of_bools (map snd (data (bdat b)));
      of_nats (shape (bconf b)); of_fs (data (bconf b))].
Definition t_marr (shape : list nat) (t : tree) : marr F_ops :=
  mkT shape (combine (t_fs (t_nth 0 t)) (t_bools (t_nth 1 t))).

Definition body_op (op : Z) (np tf : bool) (b : body F_ops) (p : tree) : tree :=
  (* (extraction is strict: decode the parameters inside the branch that owns them) *)
  if (op =? 1)%Z then of_result of_body ((if np then np_get_points F_ops else if tf then tf_get_points F_ops Gen_C09.tf_gather_int_cast else t_get_points F_ops) (t_nats (t_nth 0 p)) b)
  else if (op =? 2)%Z then of_result of_body ((if np then np_select_frames F_ops else if tf then tf_select_frames F_ops else t_select_frames F_ops) (t_nats (t_nth 0 p)) b)
  else if (op =? 3)%Z then
    (* Pose.normalize: NumPy and TensorFlow bodies (Torch: MaskedTensor.mean is not defined -> NotImplementedError) *)
    (if np then Nd [L 1; of_body (np_normalize F_ops FE (t_nat (t_nth 0 p)) (t_nat (t_nth 1 p)) (t_f (t_nth 2 p)) b)]
     else if tf then Nd [L 1; of_body (tf_normalize F_ops (t_nat (t_nth 0 p)) (t_nat (t_nth 1 p)) (t_f (t_nth 2 p)) b)]
     else of_result of_body (Err NotImplemented))
  else if (op =? 4)%Z then
    (if np || tf then
       let r := (if np then np_normalize_distribution F_ops FE else tf_normalize_distribution F_ops) (t_nat (t_nth 0 p)) b in
       Nd [L 1; Nd [of_body (fst r); of_cells (fst (snd r)); of_cells (snd (snd r))]]
     else of_result of_body (Err NotImplemented))
  else if (op =? 5)%Z then
    Nd [L 1; of_body ((if np then np_unnormalize_distribution F_ops else t_unnormalize_distribution F_ops)
                        (t_fs (t_nth 0 p)) (t_fs (t_nth 1 p)) b)]
  else if (op =? 6)%Z then Nd [L 1; of_body (np_flip F_ops (t_nat (t_nth 0 p)) b)]
  else if (op =? 7)%Z then
    Nd [L 1; of_body ((if np then np_matmul F_ops else t_matmul F_ops) (t_nat (t_nth 0 p)) (t_fs (t_nth 1 p)) b)]
  else if (op =? 8)%Z then of_result of_body (np_interpolate F_ops FE Gen_C09.interp_first_default_len (t_nat (t_nth 0 p)) (t_nat (t_nth 1 p)) b)
  else if (op =? 9)%Z then of_result of_body (np_bbox F_ops FE (t_nats (t_nth 0 p)) b)
  else if (op =? 10)%Z then of_result (fun r => Nd [of_body (fst r); of_fs (snd r)]) (np_focus F_ops FE b)
  else if (op =? 11)%Z then
    (if np then Nd [L 1; of_body (np_zero_filled F_ops b)] else Nd [L 1; of_tensorT (t_zero_filled F_ops b)])
  else if (op =? 12)%Z then Nd [L 1; of_body (np_roundtrip F_ops FE b)]
  else if (op =? 13)%Z then Nd [L 1; of_tensorT (t_zero_filled_mul F_ops b)]
  else Nd [L 0; L (-1)].

Definition rep_op (op : Z) (np : bool) (ins : list (marr F_ops)) : tree :=
  let p1 := nth 0 ins (mkT [] []) in let p2 := nth 1 ins (mkT [] []) in let p3 := nth 2 ins (mkT [] []) in
  if (op =? 20)%Z then Nd [L 1; of_tensorT ((if np then np_rep_distance F_ops FE else t_rep_distance F_ops) p1 p2)]
  else if (op =? 21)%Z then of_result of_tensorT (t_rep_angle F_ops FE p1 p2)
  else if (op =? 22)%Z then Nd [L 1; of_tensorT (t_rep_inner_angle F_ops FE p1 p2 p3)]
  else if (op =? 23)%Z then Nd [L 1; of_tensorT (t_rep_point_line F_ops p1 p2 p3)]
  else if (op =? 24)%Z then Nd [L 1; of_tensorT (t_rep_points F_ops p1)]
  else Nd [L 0; L (-1)].

Definition c09_dispatch (t : tree) : tree :=
  let op := t_z (t_nth 0 t) in
  let np := (t_z (t_nth 1 t) =? 0)%Z in
  let shp := t_nats (t_nth 2 t) in
  if (op <? 20)%Z then
    let raw := mkT shp (t_fs (t_nth 3 t)) in
    let conf := mkT (removelast shp) (t_fs (t_nth 4 t)) in
    let b := if np then np_ctor F_ops (of_plain F_ops raw) conf else t_ctor_plain F_ops raw conf in
    body_op op np (t_z (t_nth 1 t) =? 2)%Z b (t_nth 5 t)
  else rep_op op np (map (t_marr shp) (t_list (t_nth 3 t))).
