(* C08 - reading one file into each of the three body types (pose.py:34-64, pose_body.py:44-69,192-246,
   utils/reader.py:94-155) on a bytes object.  The header and frame decoders are the ones of the codec
   model (model/Codec.v); only the last step - which tensor reader wraps the ndarray and which class is
   constructed - depends on the backend.  Definitions only. *)
From Coq Require Import ZArith NArith List Bool.
Require Import ListN Result Bytes F32 Prog Codec C08_Body.
Import ListNotations.
Local Open Scope nat_scope.

(* what read_v0_2 holds right before cls(fps, data, confidence) *)
Record raw := { r_fps : N;                               (* float32 word *)
                r_F : nat; r_P : nat; r_T : nat; r_D : nat;
                r_data : list N; r_conf : list N }.      (* float32 words, row-major *)
(* pose_body.py:192-246, as Codec.read_v0_2 up to the constructor call *)
Definition read_raw (h : header) (a : rargs) : prog raw :=
  match a_sf a, a_st a with Some _, Some _ => Fail Value | _, _ =>
  match a_ef a, a_et a with Some _, Some _ => Fail Value | _, _ =>
  dop fps <- rd_u32;
  dop F <- rd_u32;
  dop P <- rd_u16;
  let T := total_points h in
  dop D <- plift (num_dims h);
  dop s <- plift (match a_st a with Some ms => rmap Some (time_to_frame false ms fps) | None => Ok (a_sf a) end);
  dop e <- plift (match a_et a with Some ms => rmap Some (time_to_frame true ms fps) | None => Ok (a_ef a) end);
  dop dat <- read_frames (Z.of_N F) (Z.of_N (P * T) * D) s e;
  dop cnf <- read_frames (Z.of_N F) (Z.of_N (P * T)) s e;
  Ret {| r_fps := fps; r_F := Z.to_nat (fst dat); r_P := N.to_nat P; r_T := N.to_nat T; r_D := Z.to_nat D;
         r_data := snd dat; r_conf := snd cnf |}
  end end.
(* row-major view of the two ndarrays handed over by unpack_numpy (utils/reader.py:94-116): the point
   (f, p, t) has confidence conf[i] and coordinates data[i*D .. i*D+D) with i = (f*P + p)*T + t *)
Definition point := (N * list N)%type.
Definition points_of (F P T D : nat) (data conf : list N) : t3 point :=
  map (fun f => map (fun p => map (fun t =>
        let i := (f * P + p) * T + t in (nth i conf 0%N, firstn D (skipn (i * D) data)))
      (seq 0 T)) (seq 0 P)) (seq 0 F).
Definition raw_points (r : raw) : t3 point := points_of (r_F r) (r_P r) (r_T r) (r_D r) (r_data r) (r_conf r).
(* unpack_torch / unpack_tensorflow (utils/reader.py:118-155) wrap the same ndarray: torch.from_numpy(arr),
   tf.constant(arr) keep shape, dtype and content; cls(fps, data, confidence) with a bare tensor *)
Definition body_of_raw (c : cfg) (b : bk) (r : raw) : result body :=
  ctor c b (f32_to_f64 (r_fps r))
       (Plain [r_F r; r_P r; r_T r; r_D r] (map3 snd (raw_points r)))
       [r_F r; r_P r; r_T r] (map3 fst (raw_points r)).
(* Pose.read(bytes, pose_body=cls, **args) with an empty header memo; legacy versions are outside C08 *)
Definition read_raw_file (buffer : bytes) (a : rargs) : result raw :=
  match run_plain rd_header {| pbuf := buffer; poff := 0 |} with
  | Err e => Err e
  | Ok (h, r) =>
      match version_class (h_version h) with
      | V02 => rmap fst (run_plain (read_raw h a) r)
      | _ => Err NotImplemented
      end
  end.
Definition read_body (c : cfg) (b : bk) (buffer : bytes) (a : rargs) : result body :=
  do r <- read_raw_file buffer a; body_of_raw c b r.
(* Pose.read(bytes).body.torch() / .tensorflow() *)
Definition read_convert (c : cfg) (b : bk) (buffer : bytes) (a : rargs) : result body :=
  do x <- read_body c Np buffer a; np_to c b x.
