(* C10 - the masked-tensor classes of both frameworks as an operation language over a pair
   (value tensor, validity mask), each method transcribed from
     torch/masked/tensor.py, torch/masked/torch.py, tensorflow/masked/tensor.py, tensorflow/masked/tensorflow.py
   plus the reference semantics of the same language on ONE tensor of (value, validity) pairs.
   Definitions only.  A masked tensor is a pair of tensors, each with its own shape - exactly what the
   classes hold - so that a method which forgets to move the mask is expressible.
   The five places where the pinned source is known to break the property (DESIGN section 7, F9 / F16) are
   switches of [cfg]; the translator regenerates the switch values from the source on every run. *)
From Coq Require Import List Arith ZArith Bool.
Require Import Result Tensor Num C10_Tensor.
Import ListNotations.

Inductive fw := Torch | TF.
Record cfg := {
  matmul_rowall : bool;   (* matmul: mask = all(mask, -1, keepdims) broadcast to the product's shape   | pinned: mask = self.mask *)
  plain_bcast : bool;     (* arithmetic with a plain tensor / div(update_mask=False): mask broadcast to the result | pinned: self.mask *)
  unsq_listed : bool;     (* "unsqueeze" in TorchFallback.doesnt_change_mask (pinned: yes) *)
  var_keepdims : bool;    (* TF variance: means = self.mean(axis, keepdims=True)                       | pinned: reduced shape *)
  zf_where : bool         (* zero_filled = where(mask, tensor, 0)                                      | pinned: tensor * mask *)
}.
Definition repaired : cfg := {| matmul_rowall := true; plain_bcast := true; unsq_listed := false; var_keepdims := true; zf_where := true |}.
Definition pinned : cfg := {| matmul_rowall := false; plain_bcast := false; unsq_listed := true; var_keepdims := false; zf_where := false |}.

(* elementwise functions the fall-back metaclasses forward with the mask kept (doesnt_change_mask) *)
Inductive uname := USqrt | USquare | UCos | USin | UTan | UAcos | UAsin | UAtan.
Inductive aop := Add | Sub | Mul | Div | RDiv.
Inductive stat := Mean | Var | Std.

Section Model.
Variable O : ops.
Notation A := (T O).
Variable trig : uname -> A -> A.          (* cos, sin, ... : not interpreted *)

Definition mt : Type := tensor A * tensor bool.          (* .tensor, .mask *)
Definition pt : Type := tensor (A * bool).               (* reference: one tensor of (value, valid) *)
Definition z0 : A := zero O.
Definition dp : A * bool := (zero O, false).
Definition fsum (l : list A) : A := fold_left (add O) l (zero O).
Definition dot (row col : list A) : A := fsum (map (fun p => mul O (fst p) (snd p)) (combine row col)).
Definition column (m : tensor A) (e : nat) : list A :=
  map (fun k => nth (k * nth 1 (shape m) 0 + e) (data m) z0) (seq 0 (nth 0 (shape m) 0)).
Definition finite (x : A) : bool := eqb O (sub O x x) (zero O).      (* tf.math.is_finite *)
Definition fix_nan (x : A) : A := if finite x then x else zero O.     (* tensor.py (tf) 198-209 *)
Definition nonzero (x : A) : bool := negb (eqb O x (zero O)).         (* tf.cast(x, tf.bool) *)
Definition ind (b : bool) : A := if b then one O else zero O.         (* tf.cast(mask, dtype) *)
Definition uapply (u : uname) (x : A) : A :=
  match u with USqrt => sqrt O x | USquare => mul O x x | _ => trig u x end.
Definition aop_fn (op : aop) (x y : A) : A :=
  match op with Add => add O x y | Sub => sub O x y | Mul => mul O x y | Div => div O x y | RDiv => div O y x end.

Inductive operand := OReg (r : nat) | OPlain (t : tensor A).          (* a Python scalar is a rank-0 plain tensor *)
Inductive instr :=
| IGetItem (r : nat) (key : list idx)                    (* torch tensor.py 49-60  | tf tensor.py 46-67 (non-list key) *)
| IGetList (r : nat) (ixs : list Z)                      (* key is a list: torch fancy index | tf.gather, tf 61-63, 358-375 *)
| IArith (op : aop) (r : nat) (o : operand)              (* torch 62-148 | tf 69-110 *)
| IDivM (r r2 : nat) (upd : bool)                        (* torch 273-293 (tf.div does not exist: not offered there) *)
| ISum (r : nat) (d : option Z)                          (* torch 183-199 | tf 162-179 *)
| ITranspose (r : nat) (d0 d1 : Z)                       (* torch 312-328 *)
| IPermute (r : nat) (dims : list Z)                     (* torch 330-346 | tf transpose(perm) 262-279 *)
| ISqueeze (r : nat) (d : option Z)                      (* torch 348-364, torch.py 104-121 | tf 299-316 *)
| ISplit (r : nat) (arg : nat + list nat) (d : Z)        (* torch 366-384 | tf 318-337 *)
| IReshape (r : nat) (ns : list Z)                       (* torch 386-402 | tf 339-356 *)
| ICat (os : list operand) (d : Z)                       (* torch.py 40-60 | tensorflow.py 52-72 *)
| IStack (rs : list nat) (d : Z)                         (* torch.py 62-81 | tensorflow.py 74-93 *)
| IMatmul (r : nat) (m : tensor A)                       (* torch 295-310 | tf 244-260 *)
| IStat (k : stat) (r : nat) (d : option Z)              (* tf 395-452 *)
| IZeroFill (r : nat)                                    (* MaskedTensor(x.zero_filled()): torch 262-271, 18-20 | tf 211-220, 8-11 *)
| IUnary (u : uname) (meth : bool) (r : nat)             (* tf .sqrt()/.square() 123-160 | fall-back: torch.py 8-34, tensorflow.py 8-43 *)
| IUnsqueeze (r : nat) (d : Z).                          (* MaskedTorch.unsqueeze through the fall-back, torch.py 10, 25-29 *)

(* ---- typing helpers shared by both semantics *)
Definition get {X} (env : list X) (r : nat) : result X := match nth_error env r with Some x => Ok x | None => Err Key end.
Fixpoint gets {X} (env : list X) (rs : list nat) : result (list X) :=
  match rs with [] => Ok [] | r :: rs' => do x <- get env r; do xs <- gets env rs'; Ok (x :: xs) end.
Definition norm_opt (d : option Z) (n : nat) : result (option nat) :=
  match d with None => Ok None | Some z => do x <- norm_dim z n; Ok (Some x) end.
Definition single (p : plan) : list plan := [p].
Fixpoint chunk_sizes (fuel a n : nat) : list nat :=
  match fuel with
  | 0 => []
  | S f => if Nat.eqb n 0 then [] else if Nat.leb n a then [n] else a :: chunk_sizes f a (n - a)
  end.
Definition split_sizes (f : fw) (arg : nat + list nat) (n : nat) : result (list nat) :=
  match arg with
  | inl a =>
      if Nat.eqb a 0 then Err Value else
      match f with
      | Torch => Ok (if Nat.eqb n 0 then [0] else chunk_sizes n a n)          (* chunks of size a, the last one smaller *)
      | TF => if Nat.eqb (n mod a) 0 then Ok (repeat (n / a) a) else Err Value  (* a equal parts *)
      end
  | inr l => if negb (Nat.eqb (length l) 0) && Nat.eqb (sum_nat l) n then Ok l else Err Value
  end.
Fixpoint narrow_all (d pos : nat) (sizes : list nat) (s : list nat) : result (list plan) :=
  match sizes with
  | [] => Ok []
  | k :: r => do p <- p_narrow d pos k s; do ps <- narrow_all d (pos + k) r s; Ok (p :: ps)
  end.
Definition dims_of (f : fw) (ds : list Z) (n : nat) : result (list nat) :=
  match f with Torch => norm_dims ds n | TF => nonneg_dims ds n end.
(* one-input structural methods: register and, from the operand's shape, the plans of the results *)
Definition plans_of (f : fw) (i : instr) : option (nat * (list nat -> result (list plan))) :=
  match i with
  | IGetItem r key => Some (r, fun s => rmap single (p_getitem key s))
  | IGetList r ixs => Some (r, fun s =>
      match s, ixs with
      | n :: _, _ :: _ => do ix <- dims_of f ixs n; rmap single (p_take ix s)
      | _, _ => Err Index
      end)
  | ITranspose r d0 d1 =>
      match f with
      | Torch => Some (r, fun s => do a <- norm_dim d0 (length s); do b <- norm_dim d1 (length s);
                                   rmap single (p_permute (swap_perm a b (length s)) s))
      | TF => None
      end
  | IPermute r dims => Some (r, fun s => do p <- dims_of f dims (length s); rmap single (p_permute p s))
  | ISqueeze r None => Some (r, fun s => rmap single (p_drop (map (fun e => negb (Nat.eqb e 1)) s) s))
  | ISqueeze r (Some d) => Some (r, fun s =>
      do d' <- norm_dim d (length s);
      if Nat.eqb (nth d' s 0) 1 then rmap single (p_drop (map (fun k => negb (Nat.eqb k d')) (seq 0 (length s))) s)
      else match f with Torch => Ok [(s, fun ix => ix)] | TF => Err Value end)
  | ISplit r arg d => Some (r, fun s =>
      do d' <- norm_dim d (length s); do sizes <- split_sizes f arg (nth d' s 0); narrow_all d' 0 sizes s)
  | IReshape r ns => Some (r, fun s => rmap single (p_reshape ns s))
  | _ => None
  end.
Definition cat_planZ (d : Z) (shapes : list (list nat)) : result plan :=
  match shapes with s0 :: _ => do d' <- norm_dim d (length s0); cat_plan d' shapes | [] => Err Value end.
Definition stack_planZ (d : Z) (shapes : list (list nat)) : result plan :=
  match shapes with s0 :: _ => do d' <- norm_dim d (S (length s0)); stack_plan d' shapes | [] => Err Value end.
Definition arith_ok (f : fw) (op : aop) (o : operand) : bool :=
  match op, f, o with RDiv, TF, OPlain _ => true | RDiv, _, _ => false | _, _, _ => true end.
Definition unary_ok (f : fw) (u : uname) (meth : bool) : bool :=
  if meth then match f, u with TF, USqrt => true | TF, USquare => true | _, _ => false end else true.
Definition stat_ok (f : fw) : bool := match f with TF => true | Torch => false end.
Definition sum_ok (f : fw) (d : option Z) : bool := match f, d with Torch, None => false | _, _ => true end.
Definition matmul_ok (s sm : list nat) : bool :=
  Nat.leb 2 (length s) && Nat.eqb (length sm) 2 && Nat.eqb (last s 0) (nth 0 sm 0).

(* ================= the classes: value and mask handled separately, as in the source ================= *)
Definition exec_struct (p : list nat -> result (list plan)) (m : mt) : result (list mt) :=
  do pv <- p (shape (fst m));                 (* tensor = self.tensor.<op>(args) *)
  do pm <- p (shape (snd m));                 (* mask   = self.mask.<op>(args)   *)
  Ok (combine (map (fun q => reindex z0 (fst q) (snd q) (fst m)) pv)
              (map (fun q => reindex false (fst q) (snd q) (snd m)) pm)).
Definition wrap (t : tensor A) : mt := (t, tconst (shape t) true).        (* MaskedTensor(tensor): mask = ones(tensor.shape) *)
Definition operand_mt (env : list mt) (o : operand) : result mt :=
  match o with OReg r => get env r | OPlain t => Ok (wrap t) end.
Fixpoint operands_mt (env : list mt) (os : list operand) : result (list mt) :=
  match os with [] => Ok [] | o :: r => do x <- operand_mt env o; do xs <- operands_mt env r; Ok (x :: xs) end.
Definition zero_filled (c : cfg) (m : mt) : result (tensor A) :=
  if zf_where c then bzip false z0 (fun b x => if b then x else zero O) (snd m) (fst m)   (* where(mask, tensor, zeros_like(tensor)) *)
  else bzip z0 false (fun x b => mul O x (ind b)) (fst m) (snd m).                        (* tensor * cast(mask) *)
Definition reduce {X} (dflt : X) (keep : bool) (d : option nat) (t : tensor X) : tensor (list X) :=
  let sl := slices_opt dflt d t in if keep then with_shape (keep_shape d (shape t)) sl else sl.
Definition mean_mt (c : cfg) (keep : bool) (d : option Z) (m : mt) : result mt :=      (* tf tensor.py 395-414 *)
  do zf <- zero_filled c m;
  do dv <- norm_opt d (length (shape zf));
  do dm <- norm_opt d (length (shape (snd m)));
  let mt_sum := tmap fsum (reduce z0 keep dv zf) in
  let mt_count := tmap fsum (reduce z0 keep dm (tmap ind (snd m))) in
  do q <- bzip z0 z0 (div O) mt_sum mt_count;
  Ok (tmap fix_nan q, tmap nonzero mt_count).
Definition var_mt (c : cfg) (d : option Z) (m : mt) : result mt :=                     (* tf tensor.py 416-434 *)
  do means <- mean_mt c (var_keepdims c) d m;
  do dv <- bzip z0 z0 (sub O) (fst m) (fst means);                                       (* diff = self - means *)
  do dk <- bzip false false andb (snd m) (snd means);
  mean_mt c false d (tmap (fun x => mul O x x) dv, dk).
Definition exec (c : cfg) (f : fw) (i : instr) (env : list mt) : result (list mt) :=
  match plans_of f i with
  | Some (r, p) => do m <- get env r; exec_struct p m
  | None =>
    match i with
    | IArith op r o =>
        if arith_ok f op o then
          do m <- get env r;
          match o with
          | OReg r2 =>
              do m2 <- get env r2;
              do v <- bzip z0 z0 (aop_fn op) (fst m) (fst m2);
              do k <- bzip false false andb (snd m) (snd m2);                             (* self.mask & other.mask *)
              Ok [(v, k)]
          | OPlain t =>
              do v <- bzip z0 z0 (aop_fn op) (fst m) t;
              do k <- (if plain_bcast c then apply_plan false (p_broadcast (shape v)) (snd m) else Ok (snd m));
              Ok [(v, k)]
          end
        else Err Type_
    | IDivM r r2 upd =>
        match f with
        | Torch =>
            do m <- get env r; do m2 <- get env r2;
            do v <- bzip z0 z0 (div O) (fst m) (fst m2);
            do k <- (if upd then bzip false false andb (snd m) (snd m2)
                     else if plain_bcast c then apply_plan false (p_broadcast (shape v)) (snd m) else Ok (snd m));
            Ok [(v, k)]
        | TF => Err Type_
        end
    | ISum r d =>
        if sum_ok f d then
          do m <- get env r;
          do dv <- norm_opt d (length (shape (fst m)));
          do dm <- norm_opt d (length (shape (snd m)));
          Ok [(tmap fsum (slices_opt z0 dv (fst m)),                                      (* tensor.sum(dim) *)
               tmap (forallb (fun b => b)) (slices_opt false dm (snd m)))]                (* mask.prod(dim).bool() *)
        else Err Type_
    | ICat os d =>
        do ms <- operands_mt env os;
        do v <- multi z0 (cat_planZ d) (map fst ms);
        do k <- multi false (cat_planZ d) (map snd ms);
        Ok [(v, k)]
    | IStack rs d =>
        do ms <- gets env rs;
        do v <- multi z0 (stack_planZ d) (map fst ms);
        do k <- multi false (stack_planZ d) (map snd ms);
        Ok [(v, k)]
    | IMatmul r mat =>
        do m <- get env r;
        if matmul_ok (shape (fst m)) (shape mat) then
          let e := nth 1 (shape mat) 0 in
          let v := expand_last e (fun row => map (fun j => dot row (column mat j)) (seq 0 e))
                               (slices z0 (length (shape (fst m)) - 1) (fst m)) in
          let k := if matmul_rowall c
                   then expand_last e (fun row => repeat (forallb (fun b => b) row) e)
                                    (slices false (length (shape (snd m)) - 1) (snd m))
                   else snd m in
          Ok [(v, k)]
        else Err Value
    | IStat k r d =>
        if stat_ok f then
          do m <- get env r;
          match k with
          | Mean => do x <- mean_mt c false d m; Ok [x]
          | Var => do x <- var_mt c d m; Ok [x]
          | Std => do x <- var_mt c d m; Ok [(tmap (sqrt O) (fst x), snd x)]              (* variance.sqrt(): mask kept *)
          end
        else Err Type_
    | IZeroFill r => do m <- get env r; do zf <- zero_filled c m; Ok [wrap zf]
    | IUnary u meth r =>
        if unary_ok f u meth then do m <- get env r; Ok [(tmap (uapply u) (fst m), snd m)] else Err Type_
    | IUnsqueeze r d =>
        match f with
        | Torch =>
            if unsq_listed c then                                                         (* MaskedTensor(res, mask): the mask is NOT unsqueezed *)
              do m <- get env r;
              do d' <- norm_dim d (S (length (shape (fst m))));
              do v <- apply_plan z0 (p_unsqueeze d') (fst m);
              Ok [(v, snd m)]
            else Err Type_                                                                (* the fall-back returns a plain tensor *)
        | TF => Err Type_
        end
    | _ => Err Type_
    end
  end.
Fixpoint run (c : cfg) (f : fw) (p : list instr) (env : list mt) : result (list mt) :=
  match p with [] => Ok env | i :: p' => do outs <- exec c f i env; run c f p' (env ++ outs) end.

(* ================= reference: one tensor of (value, valid) pairs ================= *)
Definition pair_of (m : mt) : pt := tzip (fst m) (snd m).
Definition lift (t : tensor A) : pt := tmap (fun x => (x, true)) t.
Definition operand_pt (env : list pt) (o : operand) : result pt :=
  match o with OReg r => get env r | OPlain t => Ok (lift t) end.
Fixpoint operands_pt (env : list pt) (os : list operand) : result (list pt) :=
  match os with [] => Ok [] | o :: r => do x <- operand_pt env o; do xs <- operands_pt env r; Ok (x :: xs) end.
Definition valid_values (l : list (A * bool)) : list A := map fst (filter snd l).
Definition count (l : list A) : A := fsum (map (fun _ => one O) l).
Definition mean_of (vs : list A) : A * bool := (fix_nan (div O (fsum vs) (count vs)), nonzero (count vs)).
Definition mean_ref (l : list (A * bool)) : A * bool := mean_of (valid_values l).            (* only valid elements *)
Definition var_ref (l : list (A * bool)) : A * bool :=
  let vs := valid_values l in
  let mu := fst (mean_of vs) in
  mean_of (map (fun v => let e := sub O v mu in mul O e e) vs).
Definition rexec (f : fw) (i : instr) (env : list pt) : result (list pt) :=
  match plans_of f i with
  | Some (r, p) => do m <- get env r; do ps <- p (shape m); Ok (map (fun q => reindex dp (fst q) (snd q) m) ps)
  | None =>
    match i with
    | IArith op r o =>
        if arith_ok f op o then
          do m <- get env r;
          match o with
          | OReg r2 =>                                   (* valid exactly when both operands are *)
              do m2 <- get env r2;
              do x <- bzip dp dp (fun a b : A * bool => (aop_fn op (fst a) (fst b), snd a && snd b)) m m2; Ok [x]
          | OPlain t =>                                  (* a plain tensor / scalar has no invalid element *)
              do x <- bzip dp z0 (fun (a : A * bool) (y : A) => (aop_fn op (fst a) y, snd a)) m t; Ok [x]
          end
        else Err Type_
    | IDivM r r2 upd =>
        match f with
        | Torch =>
            do m <- get env r; do m2 <- get env r2;
            do x <- bzip dp dp (fun a b : A * bool => (div O (fst a) (fst b), if upd then snd a && snd b else snd a)) m m2; Ok [x]
        | TF => Err Type_
        end
    | ISum r d =>
        if sum_ok f d then
          do m <- get env r; do d' <- norm_opt d (length (shape m));
          Ok [tmap (fun l : list (A * bool) => (fsum (map fst l), forallb snd l)) (slices_opt dp d' m)]
        else Err Type_
    | ICat os d => do ms <- operands_pt env os; do x <- multi dp (cat_planZ d) ms; Ok [x]
    | IStack rs d => do ms <- gets env rs; do x <- multi dp (stack_planZ d) ms; Ok [x]
    | IMatmul r mat =>
        do m <- get env r;
        if matmul_ok (shape m) (shape mat) then
          let e := nth 1 (shape mat) 0 in
          Ok [expand_last e (fun row : list (A * bool) => map (fun j => (dot (map fst row) (column mat j), forallb snd row)) (seq 0 e))
                          (slices dp (length (shape m) - 1) m)]
        else Err Value
    | IStat k r d =>
        if stat_ok f then
          do m <- get env r; do d' <- norm_opt d (length (shape m));
          let sl := slices_opt dp d' m in
          Ok [match k with
              | Mean => tmap mean_ref sl
              | Var => tmap var_ref sl
              | Std => tmap (fun l : list (A * bool) => (sqrt O (fst (var_ref l)), snd (var_ref l))) sl
              end]
        else Err Type_
    | IZeroFill r => do m <- get env r; Ok [tmap (fun a : A * bool => (if snd a then fst a else zero O, true)) m]
    | IUnary u meth r =>
        if unary_ok f u meth then do m <- get env r; Ok [tmap (fun a : A * bool => (uapply u (fst a), snd a)) m] else Err Type_
    | _ => Err Type_
    end
  end.
Fixpoint rrun (f : fw) (p : list instr) (env : list pt) : result (list pt) :=
  match p with [] => Ok env | i :: p' => do outs <- rexec f i env; rrun f p' (env ++ outs) end.
End Model.
