(* C12 - wire encodings and the runner entry point.  Definitions only.
   request  (1 (header F P T D cz) (op ...))     header = ((name (point ...) fmtlen) ...)
   reply    (start-result step ...)               step = (pre (1 state)) | (pre (0 code)); stops after the first error
   state    (backend header mask-shape mask conf-shape conf-zero inv-as-stated inv-strengthened) *)
From Coq Require Import String List Arith Bool ZArith NArith.
Require Import Result Tensor Tree C12_Model.
Import ListNotations.

Definition t_name (t : tree) : name := t_ns t.
Definition t_comp (t : tree) : comp :=
  {| c_name := t_name (t_nth 0 t); c_points := map t_name (t_list (t_nth 1 t)); c_fmt := t_nat (t_nth 2 t) |}.
Definition t_points_arg (t : tree) : points_arg :=
  match t_opt t with
  | Some d => Some (map (fun kv => (t_name (t_nth 0 kv), map t_name (t_list (t_nth 1 kv)))) (t_list d))
  | None => None
  end.
Definition t_op (t : tree) : op :=
  let a i := t_nth i t in
  match t_nat (a 0) with
  | 0 => GetComponents (map t_name (t_list (a 1))) (t_points_arg (a 2))
  | 1 => RemoveComponents (map t_name (t_list (a 1))) (t_points_arg (a 2))
  | 2 => BBox
  | 3 => Interpolate (t_z (a 1)) (t_bools (a 2))
  | 4 => SliceStep (t_z (a 1))
  | 5 => SelectFrames (t_zs (a 1))
  | 6 => DropoutUniform (t_nats (a 1))
  | 7 => DropoutNormal (t_nats (a 1))
  | 8 => Flip (t_z (a 1))
  | 9 => Augment2d (t_bool (a 1))
  | 10 => Normalize (t_nat (a 1)) (t_nat (a 2))
  | 11 => NormalizeDistribution (t_bool (a 1)) (t_bools (a 2))
  | 12 => Focus
  | 13 => Copy
  | 14 => ToTorch (t_bool (a 1))
  | _ => ToTensorflow
  end.

Definition of_name (n : name) : tree := of_ns n.
Definition of_comp (c : comp) : tree := Nd [of_name (c_name c); Nd (map of_name (c_points c)); of_nat (c_fmt c)].
Definition of_backend (b : backend) : tree := of_nat (match b with Np => 0 | Torch => 1 | Tf => 2 end).
Definition of_state (st : state) : tree :=
  Nd [of_backend (s_be st); Nd (map of_comp (s_hdr st));
      of_nats (shape (s_mask st)); of_bools (data (s_mask st));
      of_nats (shape (s_cz st)); of_bools (data (s_cz st)); of_bool (inv_stmt_b st); of_bool (invb st)].

Fixpoint trace (st : state) (ops : list op) : list tree :=
  match ops with
  | [] => []
  | o :: r =>
      let p := of_bool (pre st o) in
      match step st o with
      | Ok st' => Nd [p; Nd [L 1; of_state st']] :: trace st' r
      | Err e => [Nd [p; Nd [L 0; of_nat (err_code e)]]]
      end
  end.
Definition dispatch (t : tree) : tree :=
  let s := t_nth 1 t in
  let h := map t_comp (t_list (t_nth 0 s)) in
  match start_state h (t_nat (t_nth 1 s)) (t_nat (t_nth 2 s)) (t_nat (t_nth 3 s)) (t_nat (t_nth 4 s)) (t_bools (t_nth 5 s)) with
  | Ok st => Nd (Nd [L 1; of_state st] :: trace st (map t_op (t_list (t_nth 2 t))))
  | Err e => Nd [Nd [L 0; of_nat (err_code e)]]
  end.
