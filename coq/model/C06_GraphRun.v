(* dispatch for the object-graph histories of C06:
   (9 (file0 file1 ...) (op ...)) with op = (0 fileidx args)          Pose.read of bytes
                                           (1 k path payload)         in-place edit: the cell reached from the k-th pose handed
                                                                      out by following `path` gets `payload`
                                           (2 k)                      Pose.copy() of the k-th pose handed out
                                           (3 k path i payload)       a newly built object (no mutable parts) assigned to the i-th
                                                                      pointer field of the object at `path`
                                           (4 k path)                 the last pointer field of the object at `path` dropped (pop)
                                           (5 fileidx args)           Pose.read of a seekable stream holding the file
   -> ( (handed? ...)  one flag per op: did it hand out a new Pose object
        (pose ...)     what every pose handed out holds at the end: () or (pose)
        (cells ...)    the cells each of them is made of
        memo-cells ) *)
From Coq Require Import ZArith NArith List Bool.
Require Import ListN Result Tree Bytes Prog Codec CodecTree PoseRead Graph C06_Graph.
Import ListNotations.

Section Run.
Variable legacy : vclass -> header -> rargs -> prog body.
Definition gop_of_tree (files : list (list N)) (t : tree) : gop :=
  let kind := t_z (t_nth 0 t) in
  if (kind =? 0)%Z then GRead (nth (t_nat (t_nth 1 t)) files []) (t_rargs (t_nth 2 t))
  else if (kind =? 1)%Z then GEdit (t_nat (t_nth 1 t)) (t_nats (t_nth 2 t)) (fun _ => t_ns (t_nth 3 t))
  else if (kind =? 3)%Z then GAssign (t_nat (t_nth 1 t)) (t_nats (t_nth 2 t)) (t_nat (t_nth 3 t)) (t_ns (t_nth 4 t))
  else if (kind =? 4)%Z then GPop (t_nat (t_nth 1 t)) (t_nats (t_nth 2 t))
  else if (kind =? 5)%Z then GReadS (nth (t_nat (t_nth 1 t)) files []) (t_rargs (t_nth 2 t))
  else GCopy (t_nat (t_nth 1 t)).
Fixpoint run_flags (s : gstate) (ops : list gop) : list tree * gstate :=
  match ops with
  | [] => ([], s)
  | o :: r =>
      let '(s', _) := step_g legacy s o in
      let '(fl, s'') := run_flags s' r in
      (of_bool (negb (Nat.eqb (length (ghanded s')) (length (ghanded s)))) :: fl, s'')
  end.
Definition run_graph (files : list (list N)) (ops : list tree) : tree :=
  let '(fl, s) := run_flags ginit (map (gop_of_tree files) ops) in
  let ks := seq 0 (length (ghanded s)) in
  Nd [Nd fl;
      Nd (map (fun k => of_opt (option_map of_pose (pose_at s k))) ks);
      Nd (map (fun k => of_nats (cells_of s k)) ks);
      of_nats (memo_cells s)].
Definition graph_dispatch (t : tree) : tree := run_graph (map t_ns (t_list (t_nth 1 t))) (t_list (t_nth 2 t)).
End Run.
