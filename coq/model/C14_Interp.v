(* C14 - NumPyPoseBody.interpolate (definitions only; generic over Num.ops).
   Source: src/python/pose_format/numpy/pose_body.py:301-386 and the constructor :43-51.
   SciPy's interp1d: the linear kind is the concrete two-weight formula of
   scipy/interpolate/_interpolate.py `_call_linear`; the quadratic / cubic kinds are the Section variable
   [spline] (hypotheses are stated where the theorems are, proofs/C14_Track.v).
   interp1d's bounds_error is not modelled as a branch: the slice handed to it lies inside
   [first,last] (theorem no_bounds_error).  The model is of the REPAIRED index default
   (proposed-fixes/F17-interpolate-first-default.diff): `else len(new_steps)`; the shipped `else 0`
   invents an observation / raises when the new frame count is 1. *)
From Coq Require Import List Arith Bool ZArith PrimFloat.
Require Import Num Result C14_Count.
Import ListNotations.

Inductive kind := Linear | Quadratic | Cubic.

Definition map2 {A B C} (f : A -> B -> C) (la : list A) (lb : list B) : list C :=
  map (fun ab => f (fst ab) (snd ab)) (combine la lb).
Fixpoint find_index {A} (p : A -> bool) (l : list A) : option nat :=
  match l with
  | [] => None
  | a :: r => if p a then Some 0 else option_map S (find_index p r)
  end.
(* Python slice l[i:j] for 0 <= i, j <= len l *)
Definition slice {A} (i j : nat) (l : list A) : list A := firstn (j - i) (skipn i l).

Section Model.
Variable O : ops.
Notation T := (Num.T O).
Variable spline : nat -> list T -> list (list T) -> T -> list T.

(* :326-327  np.linspace(0, 1, n): arange(n) * (1 / (n - 1)), last sample set to the stop value; n = 1 gives [0] *)
Definition grid (n : nat) : list T :=
  match n with
  | 0 => []
  | 1 => [zero O]
  | _ => let step := div O (one O) (Num.of_nat O (n - 1)) in
         map (fun i => if Nat.eqb i (n - 1) then one O else mul O (Num.of_nat O i) step) (seq 0 n)
  end.

(* :344  mask of a row = mask of its confidence (last column), :331 mask = (confidence == 0) *)
Definition conf_of (row : list T) : T := last row (zero O).
Definition observed (row : list T) : bool := negb (eqb O (conf_of row) (zero O)).
(* :346,:351  partial_steps / partial_frames *)
Definition compress (steps : list T) (rows : list (list T)) : list (T * list T) :=
  filter (fun sr => observed (snd sr)) (combine steps rows).
(* :356-358 *)
Definition this_kind (k : kind) (c : nat) : kind :=
  if 3 <? c then k
  else if (2 <? c) && (match k with Cubic => true | _ => false end) then Quadratic
  else Linear.

(* scipy interp1d._call_linear: searchsorted(left) clipped to [1, len-1]; y = w1*y_hi + w0*y_lo *)
Definition seg (x0 : T) (y0 : list T) (x1 : T) (y1 : list T) (x : T) : list T :=
  let d := sub O x1 x0 in
  let w1 := div O (sub O x x0) d in
  let w0 := div O (sub O x1 x) d in
  map2 (fun a b => add O (mul O w1 b) (mul O w0 a)) y0 y1.
Fixpoint lerp_from (x0 : T) (y0 : list T) (rest : list (T * list T)) (x : T) : list T :=
  match rest with
  | [] => y0
  | (x1, y1) :: rest' =>
      match rest' with
      | [] => seg x0 y0 x1 y1 x
      | _ :: _ => if leb O x x1 then seg x0 y0 x1 y1 x else lerp_from x1 y1 rest' x
      end
  end.
Definition lerp (obs : list (T * list T)) (x : T) : list T :=
  match obs with
  | [] => []
  | (x0, y0) :: rest => lerp_from x0 y0 rest x
  end.
(* :359  f = interp1d(partial_steps, partial_frames, axis=0, kind=this_kind), at one abscissa *)
Definition eval_f (k : kind) (obs : list (T * list T)) (x : T) : list T :=
  match this_kind k (length obs) with
  | Linear => lerp obs x
  | Quadratic => spline 2 (map fst obs) (map snd obs) x
  | Cubic => spline 3 (map fst obs) (map snd obs) x
  end.
(* :353-359  one observation: f = lambda l: partial_frames  (one row whatever l is) *)
Definition f_of (k : kind) (obs : list (T * list T)) (l : list T) : list (list T) :=
  match obs with
  | [] => []
  | [(_, y0)] => [y0]
  | _ => map (eval_f k obs) l
  end.
Definition zeros (n w : nat) : list (list T) := repeat (repeat (zero O) w) n.
(* :367-371  np.argwhere(new_steps >= first_step)[0][0] / (new_steps > last_step) *)
Definition first_index (first : T) (new_steps : list T) : nat :=
  match find_index (fun x => leb O first x) new_steps with Some i => i | None => length new_steps end.
Definition last_index (last_ : T) (new_steps : list T) : nat :=
  match find_index (fun x => ltb O last_ x) new_steps with Some i => i | None => length new_steps end.
(* :360-382 after the observations are known; w = dims + 1 *)
Definition interp_obs (k : kind) (w : nat) (new_steps : list T) (obs : list (T * list T)) : list (list T) :=
  let n := length new_steps in
  match obs with
  | [] => zeros n w                                             (* :348-349 *)
  | (first, _) :: _ =>
      let last_ := last (map fst obs) (zero O) in
      if eqb O first (zero O) && eqb O last_ (one O) then f_of k obs new_steps      (* :363-364 *)
      else
        let fi := first_index first new_steps in
        let li := last_index last_ new_steps in
        if Nat.eqb fi li then zeros n w                           (* :373-374 *)
        else zeros fi w ++ f_of k obs (slice fi li new_steps) ++ zeros (n - li) w   (* :376-382 *)
  end.
(* :340-382 one point of one person; rows = (frames, dims + 1) *)
Definition interp_track (k : kind) (w : nat) (steps new_steps : list T) (rows : list (list T)) : list (list T) :=
  interp_obs k w new_steps (compress steps rows).

(* bodies: data (frames, people, points, dims), confidence (frames, people, points) *)
Record body := mkBody {
  b_fps : float; b_people : nat; b_points : nat; b_dims : nat;
  b_data : list (list (list (list T)));
  b_conf : list (list (list T)) }.
Record out_body := mkOut {
  o_fps : float;
  o_data : list (list (list (list T)));
  o_conf : list (list (list T));
  o_mask : list (list (list bool)) }.
(* :329-336  points_perspective + confidence as an extra coordinate: the track of point t of person p *)
Definition track (b : body) (p t : nat) : list (list T) :=
  map2 (fun fd fc => nth t (nth p fd []) [] ++ [nth t (nth p fc []) (zero O)]) (b_data b) (b_conf b).
Definition tracks_result (b : body) (k : kind) (n : nat) : list (list (list (list T))) :=
  let steps := grid (length (b_data b)) in
  let new_steps := grid n in
  map (fun t => map (fun p => interp_track k (S (b_dims b)) steps new_steps (track b p t)) (seq 0 (b_people b)))
      (seq 0 (b_points b)).
Definition cell (res : list (list (list (list T)))) (j p t : nat) : list T := nth j (nth p (nth t res []) []) [].
(* :316-386; the constructor :43-51 re-derives the mask from confidence == 0 *)
Definition interpolate (b : body) (new_fps : option float) (k : kind) : result out_body :=
  let new := match new_fps with Some f => f | None => b_fps b end in                (* :317-318 *)
  let F := length (b_data b) in
  if Nat.eqb F 1 then Err Value                                                      (* :321-322 *)
  else
    do n <- new_frame_count F new (b_fps b);                                         (* :325-327 *)
    if Nat.eqb (b_points b) 0 || Nat.eqb (b_people b) 0 then Err Value               (* np.stack([]) *)
    else
      let res := tracks_result b k n in
      if forallb (forallb (fun r => Nat.eqb (length r) n)) res then                  (* np.stack needs equal shapes *)
        let conf := map (fun j => map (fun p => map (fun t => last (cell res j p t) (zero O))
                         (seq 0 (b_points b))) (seq 0 (b_people b))) (seq 0 n) in
        Ok {| o_fps := new;
              o_data := map (fun j => map (fun p => map (fun t => removelast (cell res j p t))
                         (seq 0 (b_points b))) (seq 0 (b_people b))) (seq 0 n);
              o_conf := conf;
              o_mask := map (map (map (fun c => eqb O c (zero O)))) conf |}
      else Err Value.
End Model.
