(* C14 - new frame count of NumPyPoseBody.interpolate (definitions only).
   numpy/pose_body.py:325   _new_frames = round(_frames * new_fps / self.fps)
   binary64 product and quotient are the kernel's primitive floats (bit-exact with CPython); Python's
   round() of a float is "nearest integer, ties to even" of the exact binary64 value, raising
   ValueError on NaN and OverflowError on an infinity. *)
From Coq Require Import ZArith PrimFloat SpecFloat FloatOps List.
Require Import Result Num.
Local Open Scope Z_scope.

(* nearest integer, ties to even, of m * 2^e *)
Definition rhe_pos (m : positive) (e : Z) : Z :=
  match e with
  | Z0 => Zpos m
  | Zpos _ => Zpos m * 2 ^ e
  | Zneg k =>
      let d := 2 ^ (Zpos k) in
      let q := Zpos m / d in
      let r := Zpos m mod d in
      if 2 * r <? d then q else if d <? 2 * r then q + 1 else if Z.even q then q else q + 1
  end.
Definition sf_round (f : spec_float) : result Z :=
  match f with
  | S754_zero _ => Ok 0
  | S754_finite s m e => Ok (if s then - rhe_pos m e else rhe_pos m e)
  | S754_infinity _ => Err Overflow
  | S754_nan => Err Value
  end.
Definition py_round (f : float) : result Z := sf_round (Prim2SF f).
(* the quotient as Python evaluates it, left to right; x / 0.0 raises ZeroDivisionError *)
Definition count_quotient (frames : nat) (new_fps old_fps : float) : float :=
  PrimFloat.div (PrimFloat.mul (f_of_Z (Z.of_nat frames)) new_fps) old_fps.
(* numpy/pose_body.py:325-327; np.linspace raises ValueError for a negative number of samples *)
Definition new_frame_count (frames : nat) (new_fps old_fps : float) : result nat :=
  if PrimFloat.eqb old_fps 0 then Err ZeroDiv
  else do z <- py_round (count_quotient frames new_fps old_fps);
       if z <? 0 then Err Value else Ok (Z.to_nat z).
