(* C06: object identity.  Header objects live on a heap; a pose holds the address of its header, the
   process-global memo holds one too.  PoseHeader.read / set_cache / Pose.copy as they are in the source
   (pose_header.py:240-270,325-345, pose.py copy): a memo hit hands out copy.deepcopy(memoised header), a miss
   stores copy.deepcopy(parsed header) and hands out the parsed object, copy() deep-copies the header.
   Callers can mutate only objects they hold (addresses returned to them).  Definitions only. *)
From Coq Require Import ZArith NArith List Bool.
Require Import ListN Result Bytes Prog Codec PoseRead.
Import ListNotations.
Open Scope N_scope.

Definition addr := nat.
Record hmemo := { hm_start : N; hm_end : N; hm_slice : bytes; hm_addr : addr }.
Record hstate := { heap : list header; hmem : option hmemo; handed : list addr (* addresses given to callers *) }.
Definition deref (s : hstate) (a : addr) (d : header) : header := nth a (heap s) d.
Definition dummy_header : header := {| h_version := 0; h_dims := (0, 0, 0); h_comps := [] |}.
(* allocate a new object holding [h] (a deep copy is a new object with an equal value) *)
Definition alloc (h : header) (s : hstate) : addr * hstate :=
  (length (heap s), {| heap := heap s ++ [h]; hmem := hmem s; handed := handed s |}).
Definition hand_out (a : addr) (s : hstate) : hstate := {| heap := heap s; hmem := hmem s; handed := handed s ++ [a] |}.
(* the value-level memo seen by check_cache *)
Definition memo_view (s : hstate) : option memo :=
  match hmem s with
  | Some c => Some {| m_start := hm_start c; m_end := hm_end c; m_slice := hm_slice c; m_header := deref s (hm_addr c) dummy_header |}
  | None => None
  end.

Section WithLegacy.
Variable legacy : vclass -> header -> rargs -> prog body.

(* Pose.read on bytes: returns the address of the result's header and its body *)
Definition read_h (s : hstate) (buffer : bytes) (a : rargs) : result (addr * body) * hstate :=
  match check_cache (memo_view s) buffer with
  | Some c =>
      (* hit: return copy.deepcopy(cached_header) *)
      let '(a1, s1) := alloc (m_header c) s in
      let s2 := hand_out a1 s1 in
      (rmap (fun br => (a1, fst br)) (run_plain (read_body legacy (m_header c) a) {| pbuf := buffer; poff := m_end c |}), s2)
  | None =>
      match run_plain rd_header {| pbuf := buffer; poff := 0 |} with
      | Err e => (Err e, s)
      | Ok (h, r) =>
          let '(a1, s1) := alloc h s in                 (* the parsed PoseHeader object, returned to the caller *)
          let '(am, s2) := alloc h s1 in                (* set_cache stores copy.deepcopy(header) *)
          let s3 := {| heap := heap s2;
                       hmem := Some {| hm_start := 0; hm_end := poff r; hm_slice := py_slice 0 (poff r) buffer; hm_addr := am |};
                       handed := handed s2 |} in
          let s4 := hand_out a1 s3 in
          (rmap (fun br => (a1, fst br)) (run_plain (read_body legacy h a) r), s4)
      end
  end.

(* the operations a process performs *)
Inductive hop :=
| HRead (buffer : bytes) (a : rargs)
| HMutate (k : nat) (f : header -> header)      (* in-place edit of the k-th object handed out so far *)
| HCopy (k : nat).                               (* Pose.copy() of the pose holding the k-th object *)
Fixpoint set_nth {X} (n : nat) (x : X) (l : list X) : list X :=
  match l, n with
  | [], _ => []
  | _ :: r, O => x :: r
  | y :: r, S m => y :: set_nth m x r
  end.
Definition step_h (s : hstate) (o : hop) : hstate * option (result (addr * body)) :=
  match o with
  | HRead buffer a => let '(r, s') := read_h s buffer a in (s', Some r)
  | HMutate k f =>
      match nth_error (handed s) k with
      | Some ad => ({| heap := set_nth ad (f (deref s ad dummy_header)) (heap s); hmem := hmem s; handed := handed s |}, None)
      | None => (s, None)
      end
  | HCopy k =>
      match nth_error (handed s) k with
      | Some ad => let '(a1, s1) := alloc (deref s ad dummy_header) s in (hand_out a1 s1, None)
      | None => (s, None)
      end
  end.
Definition hinit : hstate := {| heap := []; hmem := None; handed := [] |}.
Fixpoint run_h (s : hstate) (ops : list hop) : hstate :=
  match ops with [] => s | o :: r => run_h (fst (step_h s o)) r end.
End WithLegacy.
