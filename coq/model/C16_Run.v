(* dispatch for the C16 runner.  Frames are integer tokens; floats cross as binary64 words.
     body   = (fpsbits (data tokens) (mask tokens) (confidence tokens))
     backend: 0 NumPy, 1 Torch, 2 TensorFlow
   (1 be body (idx ...))                      select_frames                      -> result body
   (2 be body by)                             slice_step                         -> result body
   (3 be kind body pbits (sample ...))        generic dropout, kind 0 given / 1 uniform / 2 normal
   (4 kind body pbits (perm ...))             TensorFlow dropout (repaired), kind as above; pbits is rounded to float32
   (5 body pbits (perm1 ...))                 TensorFlow dropout as pinned (F10)
   (6 which be hdr body arg (oracle ...))     pose level: 0/1 generic uniform/normal, 2/3 TF uniform/normal, 4 slice_step
   replies: (1 payload) | (0 errcode) | (2 k) = the oracle argument is not a possible draw (k = size it must have) *)
From Coq Require Import ZArith NArith List Bool SpecFloat.
Require Import Result Tree F32 C16_Frames Gen_C16.
Import ListNotations.

Definition cap_c : spec_float := sf_of_b64 Gen_C16.dropout_cap_bits.
Definition listed_slice_step : bool := Gen_C16.slice_step_listed.
Definition header_has_slice_step : bool := Gen_C16.header_has_slice_step.

Definition t_backend (t : tree) : backend :=
  match t_z t with 1%Z => Torch | 2%Z => TF | _ => NumPy end.
Definition t_body (t : tree) : body Z :=
  mkB (sf_of_b64 (t_n (t_nth 0 t))) (t_zs (t_nth 1 t)) (t_zs (t_nth 2 t)) (t_zs (t_nth 3 t)).
Definition of_body (b : body Z) : tree :=
  Nd [of_n (b64_of_sf (fps b)); of_zs (dat b); of_zs (msk b); of_zs (cnf b)].
Definition of_drop (x : body Z * list nat) : tree := Nd [of_body (fst x); of_nats (snd x)].
Definition of_pdrop (x : pose Z Z * list nat) : tree := Nd [L (header (fst x)); of_body (pbody (fst x)); of_nats (snd x)].
Definition bad_oracle (k : nat) : tree := Nd [L 2; of_nat k].

Definition run_generic (be : backend) (kind : Z) (b : body Z) (p : spec_float) (s : list nat) : result (body Z * list nat) :=
  match kind with
  | 1%Z => dropout_uniform cap_c be b p s
  | 2%Z => dropout_normal cap_c be b p s
  | _ => dropout_given cap_c be b p s
  end.
Definition generic_fraction (kind : Z) (p : spec_float) : spec_float := match kind with 2%Z => SFabs p | _ => p end.
Definition run_tf (kind : Z) (b : body Z) (p : spec_float) (perm : list nat) : result (body Z * list nat) :=
  match kind with
  | 1%Z => tf_dropout_uniform b (round32 p) perm
  | 2%Z => tf_dropout_normal b (round32 p) perm
  | _ => tf_dropout_given_py b p perm
  end.

Definition dispatch (t : tree) : tree :=
  let op := t_z (t_nth 0 t) in
  match op with
  | 1%Z => of_result of_body (select_frames (t_backend (t_nth 1 t)) (t_body (t_nth 2 t)) (t_zs (t_nth 3 t)))
  | 2%Z => of_result of_body (slice_step (t_backend (t_nth 1 t)) (t_body (t_nth 2 t)) (t_z (t_nth 3 t)))
  | 3%Z =>
      let be := t_backend (t_nth 1 t) in let kind := t_z (t_nth 2 t) in
      let b := t_body (t_nth 3 t) in let p := sf_of_b64 (t_n (t_nth 4 t)) in let s := t_nats (t_nth 5 t) in
      match sample_size cap_c (frames b) (generic_fraction kind p) with
      | Some k => if valid_sample (frames b) k s then of_result of_drop (run_generic be kind b p s) else bad_oracle k
      | None => of_result of_drop (run_generic be kind b p s)
      end
  | 4%Z =>
      let kind := t_z (t_nth 1 t) in let b := t_body (t_nth 2 t) in
      let p := sf_of_b64 (t_n (t_nth 3 t)) in let perm := t_nats (t_nth 4 t) in
      if valid_perm (frames b) perm then of_result of_drop (run_tf kind b p perm) else bad_oracle (frames b)
  | 5%Z =>
      let b := t_body (t_nth 1 t) in let p := sf_of_b64 (t_n (t_nth 2 t)) in let perm := t_nats (t_nth 3 t) in
      if valid_perm (frames b - 1) perm then of_result of_drop (tf_pinned_dropout_given b (round32 p) perm)
      else bad_oracle (frames b - 1)
  | 6%Z =>
      let which := t_z (t_nth 1 t) in let be := t_backend (t_nth 2 t) in
      let ps := mkP (t_z (t_nth 3 t)) (t_body (t_nth 4 t)) in
      let a := t_nth 5 t in let o := t_nats (t_nth 6 t) in
      let b := pbody ps in
      match which with
      | 4%Z => of_result (fun q : pose Z Z => Nd [L (header q); of_body (pbody q)])
                 (pose_slice_step listed_slice_step header_has_slice_step be ps (t_z a))
      | 2%Z => if valid_perm (frames b) o then of_result of_pdrop (pose_tf_dropout_uniform ps (round32 (sf_of_b64 (t_n a))) o)
               else bad_oracle (frames b)
      | 3%Z => if valid_perm (frames b) o then of_result of_pdrop (pose_tf_dropout_normal ps (round32 (sf_of_b64 (t_n a))) o)
               else bad_oracle (frames b)
      | _ =>
          let p := sf_of_b64 (t_n a) in
          let kind := if (which =? 1)%Z then 2%Z else 1%Z in
          match sample_size cap_c (frames b) (generic_fraction kind p) with
          | Some k => if negb (valid_sample (frames b) k o) then bad_oracle k
                      else of_result of_pdrop (if (which =? 1)%Z then pose_dropout_normal cap_c be ps p o
                                               else pose_dropout_uniform cap_c be ps p o)
          | None => of_result of_pdrop (if (which =? 1)%Z then pose_dropout_normal cap_c be ps p o
                                        else pose_dropout_uniform cap_c be ps p o)
          end
      end
  | _ => Nd [L 0; L (-1)]
  end.
