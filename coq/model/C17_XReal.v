(* C17 - IEEE-754 special values over exact reals.  Definitions only.
   [xv] is the value domain used for the totality clauses (never NaN / never infinite / exactly 0
   under the mask): finite values are real numbers (no rounding, overflow, underflow or signed zero),
   and NaN, +inf, -inf follow the IEEE rules that produce and propagate them (x/0, 0/0, inf-inf,
   0*inf, sqrt of a negative, acos outside [-1,1], comparisons with NaN are false).  This is what
   "garbage under the mask" can be in the real tensors. *)
From Coq Require Import Reals ZArith.
Require Import Num.
Local Open Scope R_scope.

Inductive xv := Fin (r : R) | PInf | NInf | NaN.

Definition inf_of (pos : bool) : xv := if pos then PInf else NInf.
Definition xopp (a : xv) : xv := match a with Fin x => Fin (- x) | PInf => NInf | NInf => PInf | NaN => NaN end.
Definition xadd (a b : xv) : xv :=
  match a, b with
  | NaN, _ | _, NaN => NaN
  | Fin x, Fin y => Fin (x + y)
  | PInf, NInf | NInf, PInf => NaN
  | PInf, _ | _, PInf => PInf
  | NInf, _ | _, NInf => NInf
  end.
Definition xsub (a b : xv) : xv :=
  match a, b with
  | NaN, _ | _, NaN => NaN
  | Fin x, Fin y => Fin (x - y)
  | PInf, PInf | NInf, NInf => NaN
  | PInf, _ | _, NInf => PInf
  | NInf, _ | _, PInf => NInf
  end.
(* sign of inf * finite x *)
Definition inf_times (pos : bool) (x : R) : xv :=
  if Req_EM_T x 0 then NaN else if Rlt_dec 0 x then inf_of pos else inf_of (negb pos).
Definition xmul (a b : xv) : xv :=
  match a, b with
  | NaN, _ | _, NaN => NaN
  | Fin x, Fin y => Fin (x * y)
  | Fin x, PInf | PInf, Fin x => inf_times true x
  | Fin x, NInf | NInf, Fin x => inf_times false x
  | PInf, PInf | NInf, NInf => PInf
  | PInf, NInf | NInf, PInf => NInf
  end.
Definition xdiv (a b : xv) : xv :=
  match a, b with
  | NaN, _ | _, NaN => NaN
  | Fin x, Fin y =>
      if Req_EM_T y 0 then (if Req_EM_T x 0 then NaN else if Rlt_dec 0 x then PInf else NInf)   (* signed zero not modelled *)
      else Fin (x / y)
  | Fin _, PInf | Fin _, NInf => Fin 0
  | PInf, Fin y => if Rle_dec 0 y then PInf else NInf
  | NInf, Fin y => if Rle_dec 0 y then NInf else PInf
  | _, _ => NaN
  end.
Definition xsqrt (a : xv) : xv :=
  match a with Fin x => if Rle_dec 0 x then Fin (R_sqrt.sqrt x) else NaN | PInf => PInf | _ => NaN end.
Definition xabs (a : xv) : xv := match a with Fin x => Fin (Rabs x) | PInf | NInf => PInf | NaN => NaN end.
Definition xleb (a b : xv) : bool :=
  match a, b with
  | NaN, _ | _, NaN => false
  | Fin x, Fin y => Rleb x y
  | NInf, _ | _, PInf => true
  | _, _ => false
  end.
Definition xltb (a b : xv) : bool :=
  match a, b with
  | NaN, _ | _, NaN => false
  | Fin x, Fin y => Rltb x y
  | NInf, NInf | PInf, PInf => false
  | NInf, _ | _, PInf => true
  | _, _ => false
  end.
Definition xeqb (a b : xv) : bool :=
  match a, b with
  | Fin x, Fin y => Reqb x y
  | PInf, PInf | NInf, NInf => true
  | _, _ => false
  end.
Definition X_ops : ops :=
  {| T := xv; zero := Fin 0; one := Fin 1; add := xadd; sub := xsub; mul := xmul; div := xdiv; opp := xopp;
     sqrt := xsqrt; abs := xabs; leb := xleb; ltb := xltb; eqb := xeqb; of_Z := fun z => Fin (IZR z) |}.
(* torch.atan / torch.acos on special values; the real functions are parameters (see model/C17_Spec.v) *)
Definition x_atan (atan : R -> R) (a : xv) : xv :=
  match a with Fin x => Fin (atan x) | PInf => Fin (PI / 2) | NInf => Fin (- (PI / 2)) | NaN => NaN end.
Definition x_acos (acos : R -> R) (a : xv) : xv :=
  match a with
  | Fin x => if Rle_dec (-1) x then (if Rle_dec x 1 then Fin (acos x) else NaN) else NaN
  | _ => NaN
  end.
Definition is_fin (a : xv) : Prop := exists r, a = Fin r.
