(* C10 - tensor operations used by the masked-tensor model, all built on base/Tensor.v.
   Definitions only.  Every operation is polymorphic in the element type and never inspects the
   elements, so the *same* function is applied to the value tensor, to the validity mask and (in the
   reference semantics) to the tensor of (value, validity) pairs.  Structural operations are "plans":
   from the input shape alone they compute the output shape and an index function, and are executed
   by [reindex]. *)
From Coq Require Import List Arith ZArith Bool Lia.
Require Import Result Tensor.
Import ListNotations.

(* ---- list helpers *)
Definition insert_at {A} (d : nat) (x : A) (l : list A) : list A := firstn d l ++ x :: skipn d l.
Definition remove_at {A} (d : nat) (l : list A) : list A := firstn d l ++ skipn (S d) l.
Definition replace_at {A} (d : nat) (x : A) (l : list A) : list A := firstn d l ++ x :: skipn (S d) l.
Fixpoint sum_nat (l : list nat) : nat := match l with [] => 0 | x :: r => x + sum_nat r end.
Fixpoint index_of (a : nat) (l : list nat) : nat :=
  match l with [] => 0 | x :: r => if Nat.eqb x a then 0 else S (index_of a r) end.
Definition mem_nat (a : nat) (l : list nat) : bool := existsb (Nat.eqb a) l.
Fixpoint select {A} (keep : list bool) (l : list A) : list A :=
  match keep, l with
  | true :: k, x :: r => x :: select k r
  | false :: k, _ :: r => select k r
  | _, _ => []
  end.
Fixpoint undrop (keep : list bool) (ix : list nat) : list nat :=
  match keep with
  | [] => []
  | true :: k => match ix with i :: r => i :: undrop k r | [] => 0 :: undrop k [] end
  | false :: k => 0 :: undrop k ix
  end.
Definition list_eqb (a b : list nat) : bool :=
  Nat.eqb (length a) (length b) && forallb (fun p => Nat.eqb (fst p) (snd p)) (combine a b).

(* ---- tabulation: every operation below produces its result this way *)
Definition tabulate {X} (ns : list nat) (cell : nat -> X) : tensor X := mkT ns (map cell (seq 0 (prod ns))).
Definition tconst {X} (ns : list nat) (x : X) : tensor X := tabulate ns (fun _ => x).

(* ---- plans *)
Definition plan : Type := list nat * (list nat -> list nat).
Definition planner : Type := list nat -> result plan.
Definition apply_plan {X} (d : X) (p : planner) (t : tensor X) : result (tensor X) :=
  match p (shape t) with Ok (ns, f) => Ok (reindex d ns f t) | Err e => Err e end.

(* dimension arguments: d in [-n, n), Python style *)
Definition norm_dim (d : Z) (n : nat) : result nat :=
  if ((- Z.of_nat n <=? d) && (d <? Z.of_nat n))%Z
  then Ok (Z.to_nat (if (d <? 0)%Z then d + Z.of_nat n else d)) else Err Index.
Fixpoint norm_dims (ds : list Z) (n : nat) : result (list nat) :=
  match ds with [] => Ok [] | d :: r => do x <- norm_dim d n; do xs <- norm_dims r n; Ok (x :: xs) end.
Fixpoint nonneg_dims (ds : list Z) (n : nat) : result (list nat) :=
  match ds with
  | [] => Ok []
  | d :: r => if ((0 <=? d) && (d <? Z.of_nat n))%Z then do xs <- nonneg_dims r n; Ok (Z.to_nat d :: xs) else Err Index
  end.

(* ---- indexing: t[key], key a tuple of integers and slices (step >= 1), Python semantics *)
Inductive idx := IInt (i : Z) | ISlice (start stop : option Z) (step : Z).
Definition slice_bound (o : option Z) (dflt n : Z) : Z :=
  match o with
  | None => dflt
  | Some x => let x' := if (x <? 0)%Z then (x + n)%Z else x in Z.max 0 (Z.min n x')
  end.
Definition slice_range (a b : option Z) (st : Z) (n : nat) : nat * nat :=   (* first index, number of indices *)
  let nz := Z.of_nat n in
  let lo := slice_bound a 0 nz in let hi := slice_bound b nz nz in
  (Z.to_nat lo, if (hi <=? lo)%Z then 0 else Z.to_nat ((hi - lo + st - 1) / st)).
Fixpoint p_getitem (key : list idx) (s : list nat) : result plan :=
  match key with
  | [] => Ok (s, fun ix => ix)
  | k :: key' =>
      match s with
      | [] => Err Index
      | n :: s' =>
          match k with
          | IInt i =>
              do i' <- norm_dim i n;
              do p <- p_getitem key' s';
              Ok (fst p, fun ix => i' :: snd p ix)
          | ISlice a b st =>
              if (st <? 1)%Z then Err Value else
              let r := slice_range a b st n in
              do p <- p_getitem key' s';
              Ok (snd r :: fst p, fun ix => match ix with j :: ix' => (fst r + j * Z.to_nat st) :: snd p ix' | [] => [] end)
          end
      end
  end.
(* t[[i0, i1, ...]] / gather along axis 0 *)
Definition p_take (ixs : list nat) (s : list nat) : result plan :=
  match s with
  | [] => Err Index
  | n :: s' =>
      if forallb (fun i => Nat.ltb i n) ixs
      then Ok (length ixs :: s', fun ix => match ix with j :: r => nth j ixs 0 :: r | [] => [] end)
      else Err Index
  end.
(* permute: output axis k is input axis perm[k] *)
Definition is_perm (perm : list nat) (r : nat) : bool :=
  Nat.eqb (length perm) r && forallb (fun a => mem_nat a perm) (seq 0 r).
Definition p_permute (perm : list nat) (s : list nat) : result plan :=
  if is_perm perm (length s)
  then Ok (map (fun p => nth p s 0) perm, fun ix => map (fun a => nth (index_of a perm) ix 0) (seq 0 (length s)))
  else Err Value.
Definition swap_perm (d0 d1 r : nat) : list nat :=
  map (fun k => if Nat.eqb k d0 then d1 else if Nat.eqb k d1 then d0 else k) (seq 0 r).
(* drop the axes whose flag is false (they all have extent 1) *)
Definition p_drop (keep : list bool) (s : list nat) : result plan := Ok (select keep s, undrop keep).
Definition p_unsqueeze (d : nat) (s : list nat) : result plan :=
  if Nat.leb d (length s) then Ok (insert_at d 1 s, remove_at d) else Err Index.
(* reshape: row-major order is kept *)
Definition resolve_shape (sz : nat) (ns : list Z) : result (list nat) :=
  if forallb (fun x => (-1 <=? x)%Z) ns then
    let known := map Z.to_nat (filter (fun x => (0 <=? x)%Z) ns) in
    let holes := length (filter (fun x => (x <? 0)%Z) ns) in
    match holes with
    | 0 => Ok (map Z.to_nat ns)
    | 1 => let rest := prod known in
           if Nat.eqb rest 0 then Err Value else
           if Nat.eqb (sz mod rest) 0 then Ok (map (fun x => if (x <? 0)%Z then sz / rest else Z.to_nat x) ns) else Err Value
    | _ => Err Value
    end
  else Err Value.
Definition p_reshape (ns : list Z) (s : list nat) : result plan :=
  do ns' <- resolve_shape (prod s) ns;
  if Nat.eqb (prod ns') (prod s) then Ok (ns', fun ix => unravel s (ravel ns' ix)) else Err Value.
(* the block [start, start+len) of axis d *)
Fixpoint shift_at (d start : nat) (ix : list nat) : list nat :=
  match ix with [] => [] | i :: r => match d with 0 => (start + i) :: r | S d' => i :: shift_at d' start r end end.
Definition p_narrow (d start len : nat) (s : list nat) : result plan :=
  if Nat.ltb d (length s) && Nat.leb (start + len) (nth d s 0)
  then Ok (replace_at d len s, shift_at d start) else Err Index.
(* broadcasting (NumPy rules) *)
Fixpoint bshape_rev (a b : list nat) : result (list nat) :=      (* both reversed: last axis first *)
  match a, b with
  | [], _ => Ok b
  | _, [] => Ok a
  | x :: a', y :: b' =>
      do r <- bshape_rev a' b';
      if Nat.eqb x y then Ok (x :: r) else if Nat.eqb x 1 then Ok (y :: r) else if Nat.eqb y 1 then Ok (x :: r) else Err Value
  end.
Definition broadcast_shapes (a b : list nat) : result (list nat) := rmap (@rev nat) (bshape_rev (rev a) (rev b)).
Fixpoint bcast_pair (ix s : list nat) : list nat :=
  match ix, s with i :: ix', e :: s' => (if Nat.eqb e 1 then 0 else i) :: bcast_pair ix' s' | _, _ => [] end.
Definition bcast_ix (s : list nat) (ix : list nat) : list nat := bcast_pair (skipn (length ix - length s) ix) s.
Fixpoint bcompat_rev (s t : list nat) : bool :=                    (* s broadcasts to t (both reversed) *)
  match s, t with
  | [], _ => true
  | _ :: _, [] => false
  | x :: s', y :: t' => (Nat.eqb x y || Nat.eqb x 1) && bcompat_rev s' t'
  end.
Definition p_broadcast (target : list nat) (s : list nat) : result plan :=
  if bcompat_rev (rev s) (rev target) then Ok (target, bcast_ix s) else Err Value.
(* cell k of [t] seen through broadcasting to shape ns *)
Definition bget {X} (d : X) (ns : list nat) (t : tensor X) (k : nat) : X :=
  nth (ravel (shape t) (bcast_ix (shape t) (unravel ns k))) (data t) d.
(* elementwise binary operation with broadcasting *)
Definition bzip {X Y Z} (dx : X) (dy : Y) (g : X -> Y -> Z) (a : tensor X) (b : tensor Y) : result (tensor Z) :=
  do ns <- broadcast_shapes (shape a) (shape b);
  Ok (tabulate ns (fun k => g (bget dx ns a k) (bget dy ns b k))).

(* ---- several tensors: concatenation and stacking, via one flat tensor holding all the data *)
Definition flatcat {X} (ts : list (tensor X)) : tensor X :=
  let d := concat (map data ts) in mkT [length d] d.
Fixpoint locate (exts : list nat) (i : nat) : nat * nat :=        (* which block holds position i, and where *)
  match exts with
  | [] => (0, i)
  | e :: r => if Nat.ltb i e then (0, i) else let p := locate r (i - e) in (S (fst p), snd p)
  end.
Definition offset_of (shapes : list (list nat)) (k : nat) : nat := sum_nat (map prod (firstn k shapes)).
Definition same_except (d : nat) (a b : list nat) : bool := list_eqb (replace_at d 0 a) (replace_at d 0 b).
Definition cat_plan (d : nat) (shapes : list (list nat)) : result plan :=
  match shapes with
  | [] => Err Value
  | s0 :: _ =>
      if Nat.ltb d (length s0) && forallb (same_except d s0) shapes then
        let exts := map (fun s => nth d s 0) shapes in
        Ok (replace_at d (sum_nat exts) s0,
            fun ix => let p := locate exts (nth d ix 0) in
                      [offset_of shapes (fst p) + ravel (nth (fst p) shapes []) (replace_at d (snd p) ix)])
      else Err Value
  end.
Definition stack_plan (d : nat) (shapes : list (list nat)) : result plan :=
  match shapes with
  | [] => Err Value
  | s0 :: _ =>
      if Nat.leb d (length s0) && forallb (list_eqb s0) shapes then
        Ok (insert_at d (length shapes) s0, fun ix => [nth d ix 0 * prod s0 + ravel s0 (remove_at d ix)])
      else Err Value
  end.
Definition multi {X} (dflt : X) (p : list (list nat) -> result plan) (ts : list (tensor X)) : result (tensor X) :=
  match p (map shape ts) with Ok (ns, f) => Ok (reindex dflt ns f (flatcat ts)) | Err e => Err e end.

(* ---- reductions: the tensor of slices along one axis (or of the whole tensor) *)
Definition slices {X} (dflt : X) (d : nat) (t : tensor X) : tensor (list X) :=
  let s := shape t in let ns := remove_at d s in
  tabulate ns (fun k => map (fun i => nth (ravel s (insert_at d i (unravel ns k))) (data t) dflt) (seq 0 (nth d s 0))).
Definition slices_opt {X} (dflt : X) (d : option nat) (t : tensor X) : tensor (list X) :=
  match d with Some d' => slices dflt d' t | None => mkT [] [data t] end.
(* the shape a reduction result has when the reduced axes are kept with extent 1 *)
Definition keep_shape (d : option nat) (s : list nat) : list nat :=
  match d with Some d' => replace_at d' 1 s | None => map (fun _ => 1) s end.
Definition with_shape {X} (ns : list nat) (t : tensor X) : tensor X := mkT ns (data t).
(* last axis: every cell of [t] becomes a row produced by [row] (length e) *)
Definition expand_last {X Y} (e : nat) (row : X -> list Y) (t : tensor X) : tensor Y :=
  mkT (shape t ++ [e]) (flat_map row (data t)).
