(* Names of components and points: the UTF-8 bytes of the Python str, as an inductive of our own so that the
   extracted code mentions no type called [string] (the generic OCaml driver opens the extracted module).
   Literals are written "like this" through a String Notation. *)
From Coq Require Import NArith List Bool.
From Coq.Strings Require Import Byte.
Import ListNotations.
Inductive str := Snil | Scons (c : N) (r : str).
Fixpoint str_eqb (a b : str) : bool :=
  match a, b with
  | Snil, Snil => true
  | Scons x a', Scons y b' => N.eqb x y && str_eqb a' b'
  | _, _ => false
  end.
Definition str_of_bytes (l : list byte) : str := fold_right (fun b r => Scons (Byte.to_N b) r) Snil l.
Fixpoint bytes_of_str (s : str) : option (list byte) :=
  match s with
  | Snil => Some []
  | Scons c r => match Byte.of_N c, bytes_of_str r with Some b, Some l => Some (b :: l) | _, _ => None end
  end.
Declare Scope str_scope.
Delimit Scope str_scope with str.
String Notation str str_of_bytes bytes_of_str : str_scope.
Definition str_of_codes (l : list N) : str := fold_right Scons Snil l.
Fixpoint codes_of_str (s : str) : list N := match s with Snil => [] | Scons c r => c :: codes_of_str r end.
