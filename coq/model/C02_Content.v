(* C02, reader direction: the contents the independent encoder (model/C02_SpecV02.v) is applied to, what a reader
   returns for such a content, and the argument of Pose.write made from a pose that was just read.
   Definitions only. *)
From Coq Require Import ZArith NArith List Bool.
Require Import ListN Result Bytes F32 Prog Codec.
Import ListNotations.
Open Scope N_scope.

(* docs/specs/v0.2.md lists "for every frame, person, point" the coordinates and then the confidences: a content is
   coherent when its version is 0.2 (as the reader classifies the float, pose_body.py:62-69), its shape is
   (frames, people, points of the header, dimensions of the header) with at least one dimension, and the two blocks
   have exactly the lengths the shape gives.  Nothing here restricts the values that are encoded. *)
Definition coherent (c : pose) : bool :=
  let h := p_header c in let b := p_body c in
  match version_class (h_version h) with
  | V02 =>
    match num_dims h with
    | Ok d =>
      match b_shape b with
      | [F; P; T; D] =>
          (T =? total_points h) && (Z.of_N D =? d)%Z && (1 <=? D) &&
          (lenN (b_data b) =? F * (P * (T * D))) && (lenN (b_conf b) =? F * (P * T))
      | _ => false
      end
    | Err _ => false
    end
  | _ => false
  end.

(* the one thing Pose.read derives instead of reading (numpy/pose_body.py:43-52): a point is missing iff its
   confidence word is +0 or -0 *)
Definition with_derived_mask (c : pose) : pose :=
  let b := p_body c in
  {| p_header := p_header c;
     p_body := {| b_fps := b_fps b; b_shape := b_shape b; b_data := b_data b; b_conf := b_conf b;
                  b_mask := map is_zero32 (b_conf b) |} |}.

(* a pose that was read, handed to Pose.write (pose.py:66-87): the float32 arrays and the frame rate widen exactly to
   the Python floats / float64 the writer converts again; integers are the integers read.
   (The same function as proofs/C04_Rewrite.v [to_wpose].) *)
Definition wcomp_of_read (c : component) : wcomponent :=
  {| wc_name := c_name c; wc_format := c_format c; wc_points := c_points c;
     wc_limbs := map (fun l => (Z.of_N (fst l), Z.of_N (snd l))) (c_limbs c);
     wc_colors := map (fun k => (Z.of_N (fst (fst k)), Z.of_N (snd (fst k)), Z.of_N (snd k))) (c_colors c) |}.
Definition wpose_of_read (p : pose) : wpose :=
  let h := p_header p in let b := p_body p in
  {| w_dims := (Z.of_N (fst (fst (h_dims h))), Z.of_N (snd (fst (h_dims h))), Z.of_N (snd (h_dims h)));
     w_comps := map wcomp_of_read (h_comps h);
     w_fps := f32_to_f64 (b_fps b);
     w_shape := b_shape b;
     w_data := map f32_to_f64 (b_data b);
     w_cshape := firstn 3 (b_shape b);
     w_conf := map f32_to_f64 (b_conf b) |}.

(* what re-writing does to a content: the version becomes the literal 0.2 of the writer and every NaN becomes the
   quiet NaN 0x7fc00000 (F32.v: NaN payloads are canonicalised by the model of float32 -> double -> float32) *)
Definition rewritten (c : pose) : pose :=
  let h := p_header c in let b := p_body c in
  {| p_header := {| h_version := version_word; h_dims := h_dims h; h_comps := h_comps h |};
     p_body := {| b_fps := canon_nan32 (b_fps b); b_shape := b_shape b; b_data := map canon_nan32 (b_data b);
                  b_conf := map canon_nan32 (b_conf b); b_mask := b_mask b |} |}.
(* no float field of the content is a NaN other than the quiet NaN 0x7fc00000 *)
Definition nans_canonical (c : pose) : bool :=
  let b := p_body c in
  forallb (fun w => canon_nan32 w =? w) (b_fps b :: b_data b ++ b_conf b).
