(* v0.2 codec: Pose.write (pose.py:66-87, pose_header.py:94-124,202-226,338-352,
   numpy/pose_body.py:110-129) and the plain Pose.read path for v0.2 bodies
   (pose_header.py:63-92,186-203,305-336 miss path; pose_body.py:92-147,192-246;
   numpy/pose_body.py:43-52).  Definitions only. *)
From Coq Require Import ZArith NArith List Bool SpecFloat.
Require Import ListN Result Bytes Utf8 Utf8S F32 Prog.
Import ListNotations.
Open Scope N_scope.

Definition str := list N.                         (* code points *)

(* ---------- what is handed to Pose.write ---------- *)
Record wcomponent := { wc_name : str; wc_format : str; wc_points : list str;
                       wc_limbs : list (Z * Z); wc_colors : list (Z * Z * Z) }.
Record wpose := { w_dims : Z * Z * Z;              (* width, height, depth (ints after math.ceil) *)
                  w_comps : list wcomponent;
                  w_fps : N;                        (* binary64 word of the Python float *)
                  w_shape : list N;                 (* body.data.shape *)
                  w_data : list N;                  (* binary64 words, row-major *)
                  w_cshape : list N;                (* body.confidence.shape *)
                  w_conf : list N }.
(* ---------- what Pose.read returns ---------- *)
Record component := { c_name : str; c_format : str; c_points : list str;
                      c_limbs : list (N * N); c_colors : list (N * N * N) }.
Record header := { h_version : N;                 (* float32 word *)
                   h_dims : N * N * N; h_comps : list component }.
Record body := { b_fps : N;                        (* float32 word *)
                 b_shape : list N;                 (* (frames, people, points, dims) *)
                 b_data : list N;                  (* float32 words *)
                 b_conf : list N;                  (* float32 words, shape (frames, people, points) *)
                 b_mask : list bool }.             (* per (frame, person, point): missing? ; stacked over dims *)
Record pose := { p_header : header; p_body : body }.

Definition prodN (l : list N) : N := fold_right N.mul 1 l.
Definition sumN (l : list N) : N := fold_right N.add 0 l.
Definition u16_ok (z : Z) : bool := (0 <=? z)%Z && (z <? 65536)%Z.

(* ---------- writer ---------- *)
(* _write_str: struct.pack("<H%ds" % n, n, b) with b = bytes(s,'utf8'), n = len(b) *)
Definition write_str (s : str) : result bytes :=
  match enc_utf8 s with
  | None => Err Unicode
  | Some b => if lenN b <? 65536 then Ok (enc_u16 (lenN b) ++ b) else Err StructError
  end.
Definition pack_u16 (z : Z) : result bytes := if u16_ok z then Ok (enc_u16 (Z.to_N z)) else Err StructError.
Definition pack_u16s (l : list Z) : result bytes :=
  if forallb u16_ok l then Ok (flat_map (fun z => enc_u16 (Z.to_N z)) l) else Err StructError.
Fixpoint concat_r (l : list (result bytes)) : result bytes :=
  match l with
  | [] => Ok []
  | r :: rest => do a <- r; do b <- concat_r rest; Ok (a ++ b)
  end.
Definition write_component (c : wcomponent) : result bytes :=
  concat_r ([ write_str (wc_name c); write_str (wc_format c);
              pack_u16s [Z.of_N (lenN (wc_points c)); Z.of_N (lenN (wc_limbs c)); Z.of_N (lenN (wc_colors c))] ]
            ++ map write_str (wc_points c)
            ++ map (fun l => pack_u16s [fst l; snd l]) (wc_limbs c)
            ++ map (fun k => pack_u16s [fst (fst k); snd (fst k); snd k]) (wc_colors c)).
Definition version_word : N := 1045220557.         (* struct.pack('<f', 0.2) = cd cc 4c 3e *)
Definition write_dims (d : Z * Z * Z) : result bytes :=
  let '(w, h, dp) := d in
  if u16_ok w && u16_ok h && u16_ok dp then pack_u16s [w; h; dp] else Err Value.
Definition write_header (dims : Z * Z * Z) (comps : list wcomponent) : result bytes :=
  concat_r ([ Ok (enc_u32 version_word); write_dims dims; pack_u16s [Z.of_N (lenN comps)] ]
            ++ map write_component comps).
(* header.num_dims(): max(len(c.format)) - 1; ValueError on no components *)
Definition num_dims_of (fmts : list str) : result Z :=
  match fmts with
  | [] => Err Value
  | _ => Ok (fold_right Z.max 0%Z (map (fun f => Z.of_N (lenN f)) fmts) - 1)%Z
  end.
Definition total_points_w (comps : list wcomponent) : N := sumN (map (fun c => lenN (wc_points c)) comps).
Definition write_body (p : wpose) : result bytes :=
  match w_shape p with
  | [F; P; T; D] =>
      if 4294967295 <? F then Err Value else
      match pack_f32 (w_fps p) with
      | None => Err Overflow
      | Some fw =>
        if 65535 <? P then Err StructError else
        Ok (enc_u32 fw ++ enc_u32 F ++ enc_u16 P
            ++ flat_map (fun w => enc_u32 (f64_to_f32 w)) (w_data p)
            ++ flat_map (fun w => enc_u32 (f64_to_f32 w)) (w_conf p))
      end
  | _ => Err Value
  end.
Definition eq_shape (a b : list N) : bool :=
  (length a =? length b)%nat && forallb (fun xy => fst xy =? snd xy) (combine a b).
(* Pose.write: sanity checks, then header, then body *)
Definition write_pose (p : wpose) : result bytes :=
  match w_shape p with
  | [F; P; T; D] =>
      do hd <- num_dims_of (map wc_format (w_comps p));
      if negb (hd =? Z.of_N D)%Z then Err Value else
      if negb (total_points_w (w_comps p) =? T) then Err Value else
      if negb (eq_shape (w_cshape p) [F; P; T]) then Err Value else
      do h <- write_header (w_dims p) (w_comps p);
      do b <- write_body p;
      Ok (h ++ b)
  | _ => Err Value
  end.

(* ---------- reader (as programs over the reader interface) ---------- *)
Definition rd_u16 : prog N := Block 2 (fun b => Ret (dec_u16 b)).
Definition rd_u32 : prog N := Block 4 (fun b => Ret (dec_u32 b)).
Definition rd_u16x3 : prog (N * N * N) :=
  Block 6 (fun b => Ret (dec_u16 b, dec_u16 (dropN 2 b), dec_u16 (dropN 4 b))).
Definition rd_u16x2 : prog (N * N) := Block 4 (fun b => Ret (dec_u16 b, dec_u16 (dropN 2 b))).
Definition rd_str : prog str :=
  dop n <- rd_u16;
  Block n (fun b => match dec_utf8 b with Some s => Ret s | None => Fail Unicode end).
Fixpoint words16 (n : nat) (b : bytes) : list N :=
  match n with O => [] | S k => dec_u16 b :: words16 k (dropN 2 b) end.
Fixpoint words32 (n : nat) (b : bytes) : list N :=
  match n with O => [] | S k => dec_u32 b :: words32 k (dropN 4 b) end.
Fixpoint triples (l : list N) : list (N * N * N) :=
  match l with a :: b :: c :: r => (a, b, c) :: triples r | _ => [] end.
Definition rd_component : prog component :=
  dop name <- rd_str;
  dop fmt <- rd_str;
  dop cnt <- rd_u16x3;
  let '(np, nl, nc) := cnt in
  dop pts <- prep (N.to_nat np) rd_str;
  dop limbs <- prep (N.to_nat nl) rd_u16x2;
  dop cols <- Block (6 * nc) (fun b => Ret (triples (words16 (N.to_nat (3 * nc)) b)));
  Ret {| c_name := name; c_format := fmt; c_points := pts; c_limbs := limbs; c_colors := cols |}.
Definition rd_header : prog header :=
  dop v <- rd_u32;
  dop dims <- rd_u16x3;
  dop n <- rd_u16;
  dop comps <- prep (N.to_nat n) rd_component;
  Ret {| h_version := v; h_dims := dims; h_comps := comps |}.

Definition total_points (h : header) : N := sumN (map (fun c => lenN (c_points c)) (h_comps h)).
Definition num_dims (h : header) : result Z := num_dims_of (map c_format (h_comps h)).

(* read_v0_1_frames (pose_body.py:92-147): [cells] = prod(shape) per frame *)
Definition zblock (n : Z) (k : bytes -> prog (list N)) : prog (list N) :=
  if (n <? 0)%Z then Fail Value else Block (Z.to_N n) k.
Definition read_frames (frames cells : Z) (s e : option Z) : prog (Z * list N) :=
  let started := match s with Some s' => (0 <? s')%Z | None => false end in
  let s' := match s with Some s' => s' | None => 0%Z end in
  if started && (frames <=? s')%Z then Fail Value else
  let f1 := if started then (frames - s')%Z else frames in
  let remove := match e with Some e' => Some (frames - Z.min e' frames)%Z | None => None end in
  let f2 := match remove with Some r => (f1 - r)%Z | None => f1 end in
  let rd := zblock (4 * f2 * cells) (fun b => Ret (words32 (Z.to_nat (f2 * cells)) b)) in
  let rd_sk := match remove with
               | Some r => dop t <- rd; Skip (Z.to_N (4 * r * cells)) (Ret (f2, t))
               | None => dop t <- rd; Ret (f2, t)
               end in
  if started then Skip (Z.to_N (4 * s' * cells)) rd_sk else rd_sk.

(* NumPyPoseBody.__init__ on a plain ndarray: mask = confidence == 0, stacked data.shape[-1] times
   (np.stack of an empty list raises) *)
Definition mk_body (fps : N) (F P T : N) (D : Z) (data conf : list N) : result body :=
  if (D <=? 0)%Z then Err Value else
  Ok {| b_fps := fps; b_shape := [F; P; T; Z.to_N D]; b_data := data; b_conf := conf;
        b_mask := map is_zero32 conf |}.

Inductive bound := NoBound | FrameB (k : Z) | TimeB (ms : Z).
(* start_time / 1000 * fps in binary64, then math.floor / math.ceil *)
Definition time_to_frame (ceil : bool) (ms : Z) (fps32 : N) : result Z :=
  let x := sf64_mul (sf64_div (sf64_of_Z ms) (sf64_of_Z 1000)) (sf_of_b64 (f32_to_f64 fps32)) in
  match (if ceil then sf_ceil x else sf_floor x) with Some z => Ok z | None => Err Value end.
Definition read_v0_2 (h : header) (sf st ef et : option Z) : prog body :=
  match sf, st with Some _, Some _ => Fail Value | _, _ =>
  match ef, et with Some _, Some _ => Fail Value | _, _ =>
  dop fps <- rd_u32;
  dop F <- rd_u32;
  dop P <- rd_u16;
  let T := total_points h in
  dop D <- plift (num_dims h);
  dop s <- plift (match st with Some ms => rmap Some (time_to_frame false ms fps) | None => Ok sf end);
  dop e <- plift (match et with Some ms => rmap Some (time_to_frame true ms fps) | None => Ok ef end);
  dop dat <- read_frames (Z.of_N F) (Z.of_N (P * T) * D) s e;
  dop cnf <- read_frames (Z.of_N F) (Z.of_N (P * T)) s e;
  plift (mk_body fps (Z.to_N (fst dat)) P T D (snd dat) (snd cnf))
  end end.

(* ---------- version dispatch (pose_body.py:62-69) ----------
   header.version == 0 ; round(version, 3) == 0.1 ; round(version, 3) == 0.2.  Python's round is
   correctly rounded, and no float32 is a decimal tie, so round(x,3) == 0.d  <=>  0.d - 0.0005 < x < 0.d + 0.0005,
   decided here in exact integer arithmetic on the float32 word. *)
Inductive vclass := V00 | V01 | V02 | VUnknown.
Definition rat_lt_mant (num den : Z) (m : positive) (e : Z) : bool :=   (* num/den < m * 2^e *)
  match e with
  | Z0 => (num <? Z.pos m * den)%Z
  | Zpos p => (num <? Z.pos m * Z.pow_pos 2 p * den)%Z
  | Zneg p => (num * Z.pow_pos 2 p <? Z.pos m * den)%Z
  end.
Definition mant_lt_rat (num den : Z) (m : positive) (e : Z) : bool :=   (* m * 2^e < num/den *)
  match e with
  | Z0 => (Z.pos m * den <? num)%Z
  | Zpos p => (Z.pos m * Z.pow_pos 2 p * den <? num)%Z
  | Zneg p => (Z.pos m * den <? num * Z.pow_pos 2 p)%Z
  end.
Definition version_class (w : N) : vclass :=
  match sf_of_b32 w with
  | S754_zero _ => V00
  | S754_finite false m e =>
      if rat_lt_mant 995 10000 m e && mant_lt_rat 1005 10000 m e then V01
      else if rat_lt_mant 1995 10000 m e && mant_lt_rat 2005 10000 m e then V02
      else VUnknown
  | _ => VUnknown
  end.

Record rargs := { a_sf : option Z; a_st : option Z; a_ef : option Z; a_et : option Z }.
Definition no_args : rargs := {| a_sf := None; a_st := None; a_ef := None; a_et := None |}.
