(* C17 - the assembled PoseRepresentation, discrete part (pose_representation.py:36-209,
   torch/pose_representation.py, tensorflow/pose_representation.py).  Definitions only; no reals.
   A tensor is a total index function together with its extents: every structural step of the code
   (permute, tensor[points] / tf.gather, cat along axis 0, permute [1,2,0]) is a re-indexing; the
   row-major address arithmetic belongs to the Torch / TensorFlow kernels (trusted, sampled by the
   correspondence check). *)
From Coq Require Import List Arith Bool.
Import ListNotations.

(* what PoseRepresentation reads of a PoseHeaderComponent: len(points), len(format), limbs *)
Record comp := mkComp { c_points : nat; c_format : nat; c_limbs : list (nat * nat) }.
Definition header := list comp.

(* :39  sum([len(c.points) for c in header.components]) *)
Definition input_size (h : header) : nat := fold_right Nat.add 0 (map c_points h).
(* :40  len(header.components[0].format)  (IndexError without components) *)
Definition header_dims (h : header) : option nat := match h with c :: _ => Some (c_format c) | [] => None end.
(* get_limbs_points :80-90 *)
Fixpoint limbs_from (idx : nat) (h : header) : list (nat * nat) :=
  match h with
  | [] => []
  | c :: r => map (fun ab => (fst ab + idx, snd ab + idx)) (c_limbs c) ++ limbs_from (idx + c_points c) r
  end.
Definition limb_points (h : header) : list (nat * nat) := limbs_from 0 h.
(* get_triangles_points :105-108  [(p1, p2, p4) for p1, p2 in limbs for p3, p4 in limbs if p2 == p3] *)
Definition chains (ls : list (nat * nat)) : list (nat * nat * nat) :=
  flat_map (fun l1 => flat_map (fun l2 => if snd l1 =? fst l2 then [(fst l1, snd l1, snd l2)] else []) ls) ls.

Record repr := mkRepr {
  r_input : nat; r_dims : nat;
  r_limbs : list (nat * nat);            (* zip(limb_pt1s, limb_pt2s) *)
  r_tris : list (nat * nat * nat);       (* zip(triangle_pt1s, triangle_pt2s, triangle_pt3s) *)
  r_k1 : nat; r_k2 : nat; r_k3 : nat     (* len(rep_modules1/2/3) *)
}.
(* __init__ :36-56.  None = the constructor raises: no component (IndexError :40), no limb
   (assert :101), no chain (zip( *[]) unpacks to nothing :53,115) *)
Definition mk_repr (h : header) (k1 k2 k3 : nat) : option repr :=
  match header_dims h with
  | None => None
  | Some d =>
      match limb_points h with
      | [] => None
      | ls => match chains ls with
              | [] => None
              | tr => Some (mkRepr (input_size h) d ls tr k1 k2 k3)
              end
      end
  end.
(* calc_output_size :67-69 *)
Definition output_size (r : repr) : nat :=
  r_k1 r * (r_input r * r_dims r) + r_k2 r * length (r_limbs r) + r_k3 r * length (r_tris r).

Section Call.
Variables X Y : Type.
Variable dy : Y.
(* [src b l p] = the D channels of point p in frame l of batch element b: (Batch, Len, Points, Dims) *)
Definition t4 := nat -> nat -> nat -> list X.
Record embed := mkE { e_size : nat; e_at : nat -> nat -> nat -> Y }.        (* (embed_size, Batch, Len) *)
(* :188  permute(src, (2, 0, 1, 3)) *)
Definition permute_2013 (src : t4) : t4 := fun p b l => src b l p.
(* get_points :153 tensor[points]; tensorflow/pose_representation.py: tf.gather(tensor, points) *)
Definition get_points (t : t4) (idx : list nat) : t4 := fun q b l => t (nth q idx 0) b l.
(* a rep_modules1 module in the shape of torch/representation/points.py:37-42: features of one
   point, flattened (Points*Dims, Batch, Len) with the point index major *)
Definition apply1 (P D : nat) (m : list X -> list Y) (points : t4) : embed :=
  mkE (P * D) (fun e b l => nth (e mod D) (m (points (e / D) b l)) dy).
Definition apply2 (n : nat) (m : list X -> list X -> Y) (p1s p2s : t4) : embed :=
  mkE n (fun q b l => m (p1s q b l) (p2s q b l)).
Definition apply3 (n : nat) (m : list X -> list X -> list X -> Y) (p1s p2s p3s : t4) : embed :=
  mkE n (fun q b l => m (p1s q b l) (p2s q b l) (p3s q b l)).
(* group_embeds: torch.cat(embeds, dim=0) / tf.concat(embeds, axis=0) *)
Definition cat2 (a b : embed) : embed :=
  mkE (e_size a + e_size b) (fun i bb l => if i <? e_size a then e_at a i bb l else e_at b (i - e_size a) bb l).
Definition cat0 (es : list embed) : embed := fold_right cat2 (mkE 0 (fun _ _ _ => dy)) es.
(* group.permute([1, 2, 0]) *)
Definition group (e : embed) : nat -> nat -> nat -> Y := fun b l i => e_at e i b l.
Definition in_range (P : nat) (idx : list nat) : bool := forallb (fun i => i <? P) idx.
(* __call__ :188-209 on an input with P points of D channels.  None = raises: an index list reaches
   outside the P points (IndexError / InvalidArgumentError), or no module at all (cat of nothing) *)
Definition call (r : repr) (P D : nat) (m1s : list (list X -> list Y)) (m2s : list (list X -> list X -> Y))
    (m3s : list (list X -> list X -> list X -> Y)) (src : t4) : option (nat * (nat -> nat -> nat -> Y)) :=
  let points := permute_2013 src in
  let e1 := map (fun m => apply1 P D m points) m1s in
  let l1 := map fst (r_limbs r) in let l2 := map snd (r_limbs r) in
  let e2 := map (fun m => apply2 (length l1) m (get_points points l1) (get_points points l2)) m2s in
  let t1 := map (fun x => fst (fst x)) (r_tris r) in let t2 := map (fun x => snd (fst x)) (r_tris r) in
  let t3 := map snd (r_tris r) in
  let e3 := map (fun m => apply3 (length t1) m (get_points points t1) (get_points points t2) (get_points points t3)) m3s in
  let ok2 := match m2s with [] => true | _ => in_range P l1 && in_range P l2 end in
  let ok3 := match m3s with [] => true | _ => in_range P t1 && in_range P t2 && in_range P t3 end in
  match e1 ++ e2 ++ e3 with
  | [] => None
  | es => if ok2 && ok3 then let g := cat0 es in Some (e_size g, group g) else None
  end.
End Call.
Arguments mkE {Y}. Arguments e_size {Y}. Arguments e_at {Y}.

(* positions implied by the header: points / limbs of the components before component ci *)
Definition points_before (h : header) (ci : nat) : nat := input_size (firstn ci h).
Definition limbs_before (h : header) (ci : nat) : nat := fold_right Nat.add 0 (map (fun c => length (c_limbs c)) (firstn ci h)).
Definition total_limbs (h : header) : nat := fold_right Nat.add 0 (map (fun c => length (c_limbs c)) h).
(* well-formed header: limb end points are points of their component *)
Definition wf_comp (c : comp) : Prop := Forall (fun ab => fst ab < c_points c /\ snd ab < c_points c) (c_limbs c).
Definition wf_header (h : header) : Prop := Forall wf_comp h.
