(* C14 runner protocol (all (de)serialisation in Gallina, base/Tree.v); floats are binary64 words.
   (1 fps new kind people points dims data conf) -> result (fps frames data conf mask)    interpolate
        new = () | (w64); kind 0 linear, 1 quadratic, 2 cubic; data (F P T D) and conf (F P T) nested lists
   (2 frames new old)                            -> result nat                             new frame count
   (3 n)                                         -> (w64 ...)                              np.linspace(0, 1, n) *)
From Coq Require Import List Arith ZArith Bool PrimFloat.
Require Import Result Tree Num C14_Count C14_Interp C14_Spline.
Import ListNotations.

Definition t_f (t : tree) : float := float_of_bits (t_z t).
Definition of_f (x : float) : tree := L (bits_of_float x).
Definition t_kind (t : tree) : kind :=
  let z := t_z t in if (z =? 0)%Z then Linear else if (z =? 1)%Z then Quadratic else Cubic.
Definition interpolate_F := interpolate F_ops (nak_spline F_ops).
Definition of_out (o : out_body F_ops) : tree :=
  Nd [of_f (o_fps F_ops o); Tree.of_nat (length (o_data F_ops o));
      Nd (map (fun a => Nd (map (fun b => Nd (map (fun c => Nd (map of_f c)) b)) a)) (o_data F_ops o));
      Nd (map (fun a => Nd (map (fun b => Nd (map of_f b)) a)) (o_conf F_ops o));
      Nd (map (fun a => Nd (map of_bools a)) (o_mask F_ops o))].
Definition dispatch (t : tree) : tree :=
  let op := t_z (t_nth 0 t) in
  if (op =? 1)%Z then
    let b := mkBody F_ops (t_f (t_nth 1 t)) (t_nat (t_nth 4 t)) (t_nat (t_nth 5 t)) (t_nat (t_nth 6 t))
               (map (fun a => map (fun b => map (fun c => map t_f (t_list c)) (t_list b)) (t_list a)) (t_list (t_nth 7 t)))
               (map (fun a => map (fun b => map t_f (t_list b)) (t_list a)) (t_list (t_nth 8 t))) in
    of_result of_out (interpolate_F b (option_map t_f (t_opt (t_nth 2 t))) (t_kind (t_nth 3 t)))
  else if (op =? 2)%Z then
    of_result Tree.of_nat (new_frame_count (t_nat (t_nth 1 t)) (t_f (t_nth 2 t)) (t_f (t_nth 3 t)))
  else if (op =? 3)%Z then Nd (map of_f (grid F_ops (t_nat (t_nth 1 t))))
  else Nd [L 0; L (-1)%Z].
