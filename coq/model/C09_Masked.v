(* C09 - masked-array algebra: the primitives of numpy.ma and of the Torch / TensorFlow MaskedTensor that
   the pose operations are built from, over *cells* (stored value, masked?) whose stored value under the
   mask is arbitrary garbage.  A masked array is the pair (values, mask) kept cell by cell (array of pairs;
   shapes of the two halves agree - that is C10's alignment property); polarity is numpy's (true = missing),
   the harness flips the Torch/TF validity masks at the boundary.
   Written once over [Num.ops]; the theorems quantify over every instance (R, binary64), the runner uses F_ops.
   Everything is tabulated ([tab n f]) and read by [nth], so no length side conditions arise.
   Definitions only. *)
From Coq Require Import List Arith Bool ZArith.
Require Import Tensor Num.
Import ListNotations.

Section Masked.
Variable O : ops.
Notation T := (Num.T O).

(* constants and external numerics of the executed instance; the theorems hold for every choice *)
Record ext := mkExt {
  pinf : T; ninf : T;            (* numpy.ma minimum_fill_value / maximum_fill_value of a float array *)
  tiny : T;                      (* np.finfo(float).tiny, tolerance of domain_safe_divide *)
  fillv : T;                     (* default fill_value 1e20 *)
  cast32 : T -> T;               (* astype(float32) on write *)
  atan_ : T -> T; acos_ : T -> T;    (* torch.atan / torch.acos *)
  interp : nat -> list T -> list (list T) -> list T -> list (list T)
                                 (* scipy interp1d(xs, rows, axis=0, kind)(queries) *)
}.
Variable E : ext.

Definition cell := (T * bool)%type.
Definition dcell : cell := (zero O, true).
Definition marr := tensor cell.
(* what an observer may see of a cell: the missing flag, and the value with missing ones zero-filled *)
Definition vis1 (c : cell) : cell := (if snd c then zero O else fst c, snd c).
Definition tab {X} (n : nat) (f : nat -> X) : list X := map f (seq 0 n).
Definition rd (l : list cell) (i : nat) : cell := nth i l dcell.
Definition rdT (l : list T) (i : nat) : T := nth i l (zero O).

Definition isfin (x : T) : bool := eqb O (sub O x x) (zero O).      (* x - x = 0 fails exactly for nan, +-inf *)
Definition isnan (x : T) : bool := negb (eqb O x x).
Definition is0 (x : T) : bool := eqb O x (zero O).
Definition sqr (x : T) : T := mul O x x.
Definition two : T := add O (one O) (one O).
Definition half : T := div O (one O) two.
Definition plain (x : T) : cell := (x, false).

(* ---- numpy.ma, cell level ------------------------------------------------------------------- *)
(* _MaskedBinaryOperation.__call__ (add, subtract, multiply): ma/core.py:1062-1107 - result reverted to da under the mask *)
Definition mbin (f : T -> T -> T) (a b : cell) : cell :=
  let m := snd a || snd b in (if m then fst a else f (fst a) (fst b), m).
(* _DomainedBinaryOperation.__call__ (true_divide, divide) with domain_safe_divide: ma/core.py:1207-1247, 893-909 *)
Definition mdiv (a b : cell) : cell :=
  let r := div O (fst a) (fst b) in
  let m := negb (isfin r) || snd a || snd b || leb O (abs O (fst b)) (mul O (abs O (fst a)) (tiny E)) in
  (if m then fst a else r, m).
(* power(a, scalar): ma/core.py:7184-7216 - non-finite results are masked and replaced by fill_value *)
Definition mpow (pw : T -> T) (a : cell) : cell :=
  let r := if snd a then fst a else pw (fst a) in
  let inv := negb (isfin r) in
  (if inv then fillv E else r, snd a || inv).
(* sqrt = _MaskedUnaryOperation(umath.sqrt, 0.0, _DomainGreaterEqual(0.0)): ma/core.py:980-1026 *)
Definition msqrt (a : cell) : cell :=
  let r := sqrt O (fst a) in
  let m := negb (isfin r) || ltb O (fst a) (zero O) || snd a in
  (if m then fst a else r, m).
(* MaskedArray.__isub__ / __imul__: ma/core.py:4426-4458 *)
Definition misub (a b : cell) : cell :=
  let m := snd a || snd b in (sub O (fst a) (if m then zero O else fst b), m).
Definition mimul (a b : cell) : cell :=
  let m := snd a || snd b in (mul O (fst a) (if m then one O else fst b), m).
(* filled(c) *)
Definition filled (c0 : T) (c : cell) : T := if snd c then c0 else fst c.

(* ---- numpy.ma reductions of a list of cells (one lane of an axis reduction) -------------------- *)
Definition allmasked (l : list cell) : bool := forallb snd l.
Definition count (l : list cell) : nat := length (filter (fun c => negb (snd c)) l).
Definition lmin (l : list T) : T :=
  match l with [] => pinf E | x :: r => fold_left (fun acc y => if ltb O y acc then y else acc) r x end.
Definition lmax (l : list T) : T :=
  match l with [] => ninf E | x :: r => fold_left (fun acc y => if ltb O acc y then y else acc) r x end.
(* MaskedArray.sum: filled(0).sum, masked iff every summand is *)
Definition msum (l : list cell) : cell := (sum O (map (filled (zero O)) l), allmasked l).
(* MaskedArray.min / max: filled(+inf).min, fill_value written where everything is masked: ma/core.py:5945-5963 *)
Definition mmin (l : list cell) : cell :=
  let m := allmasked l in (if m then fillv E else lmin (map (filled (pinf E)) l), m).
Definition mmax (l : list cell) : cell :=
  let m := allmasked l in (if m then fillv E else lmax (map (filled (ninf E)) l), m).
(* MaskedArray.mean: dsum * 1. / cnt: ma/core.py:5420-5427 *)
Definition mmean (l : list cell) : cell :=
  mdiv (mbin (mul O) (msum l) (plain (one O))) (plain (of_nat O (count l))).
(* MaskedArray.var / std (ddof = 0): ma/core.py:5510-5524, 5568-5574 *)
Definition mstd (l : list cell) : cell :=
  let mu := mmean l in
  let danom := map (fun c => mbin (sub O) c mu) l in
  let danom2 := map (fun c => mimul c c) danom in
  let dv := mdiv (msum danom2) (plain (of_nat O (count l))) in
  msqrt (fst dv, allmasked l || Nat.leb (count l) 0).

(* ---- lanes of a row-major tensor ------------------------------------------------------------- *)
(* reduction over the leading axes: outer = product of the reduced extents, inner = size of what is kept *)
Definition lane_lead (outer inner : nat) (l : list cell) (j : nat) : list cell :=
  tab outer (fun i => rd l (i * inner + j)).
Definition red_lead {X} (outer inner : nat) (red : list cell -> X) (l : list cell) : list X :=
  tab inner (fun j => red (lane_lead outer inner l j)).
(* reduction over the last axis of extent D, n lanes *)
Definition lane_last (D : nat) (l : list cell) (n : nat) : list cell := tab D (fun d => rd l (n * D + d)).
Definition red_last {X} (n D : nat) (red : list cell -> X) (l : list cell) : list X :=
  tab n (fun i => red (lane_last D l i)).
(* elementwise with a trailing-shape operand broadcast over the leading axes *)
Definition ew_trail (g : cell -> cell -> cell) (l : list cell) (inner : nat) (small : list cell) : list cell :=
  tab (length l) (fun k => g (rd l k) (rd small (k mod inner))).
Definition ew (g : cell -> cell -> cell) (a b : list cell) : list cell :=
  tab (length a) (fun k => g (rd a k) (rd b k)).
Definition ew1 (g : cell -> cell) (a : list cell) : list cell := tab (length a) (fun k => g (rd a k)).
Definition ew_scalar (g : cell -> cell -> cell) (l : list cell) (s : cell) : list cell :=
  tab (length l) (fun k => g (rd l k) s).

(* ---- Torch / TensorFlow MaskedTensor, cell level (torch/masked/tensor.py, tensorflow/masked/tensor.py) ---- *)
(* arithmetic(action, other : MaskedTensor): tensor op tensor everywhere, mask = self.mask & other.mask (validity) *)
Definition tbin (f : T -> T -> T) (a b : cell) : cell := (f (fst a) (fst b), snd a || snd b).
(* arithmetic with a scalar / plain tensor; fallbacks in doesnt_change_mask (sqrt, square, acos ...) ; pow_ *)
Definition tun (f : T -> T) (a : cell) : cell := (f (fst a), snd a).
(* sum(dim): tensor.sum, mask.prod (valid iff all valid) *)
Definition tsum (l : list cell) : cell := (sum O (map fst l), existsb snd l).
(* fix_nan: tensor[tensor != tensor] = 0 *)
Definition tfixnan (a : cell) : cell := (if isnan (fst a) then zero O else fst a, snd a).
(* zero_filled, repaired (F9): where(mask, tensor, 0) *)
Definition tzero (a : cell) : T := if snd a then zero O else fst a.
(* zero_filled as it was: tensor * mask  (kept for the refutation) *)
Definition tzero_mul (a : cell) : T := mul O (fst a) (if snd a then zero O else one O).

End Masked.
Arguments mkExt {O}.
Arguments pinf {O}. Arguments ninf {O}. Arguments tiny {O}. Arguments fillv {O}. Arguments cast32 {O}.
Arguments atan_ {O}. Arguments acos_ {O}. Arguments interp {O}.

(* ---- what the statement observes ------------------------------------------------------------------ *)
Section Visible.
Variable O : ops.
(* visible part of a masked tensor: the missing pattern and the values with the missing ones zero-filled *)
Definition visible (a : marr O) : marr O := tmap (vis1 O) a.
(* two masked tensors that differ only in what is stored at missing slots *)
Definition agree (a a' : marr O) : Prop := visible a = visible a'.
Definition agree_l (l l' : list (cell O)) : Prop := map (vis1 O) l = map (vis1 O) l'.
End Visible.
