(* C06, object graph level.  Every mutable Python object of a pose is a cell of a heap (base/Graph.v):

     Pose                      payload []                         pointers [header; body]
     PoseHeader                payload [version word]             pointers [dimensions; components list]
     PoseHeaderDimensions      payload [width; height; depth]     -
     list of components        payload []                         pointers [component ...]
     PoseHeaderComponent       payload name, format (immutable strs held in attributes)
                                                                  pointers [points list; limbs list; colors]
     points / limbs / colors   payload: the list's immutable elements (strs, int tuples)     -
     NumPyPoseBody             payload fps :: shape               pointers [data buffer; mask buffer; confidence buffer]
     ndarray buffers           payload: the words                 -

   PoseHeader.read / PoseHeaderCache / Pose.read / Pose.copy as in pose_header.py and pose.py: a memo hit hands out
   copy.deepcopy(memoised header) (a copy of the whole object tree), a miss stores copy.deepcopy(parsed header) and
   hands out the parsed objects, copy() copies header tree and body buffers (re-deriving the mask from the confidences as the
   body constructor does).  An in-place edit through any public
   attribute is a payload edit of one cell reached from the caller's pose by following pointer fields.
   Definitions only (the lemmas are in proofs/C06_GraphProofs.v). *)
From Coq Require Import ZArith NArith List Bool.
Require Import ListN Result Bytes F32 Prog Codec PoseRead Graph GraphEdit.
Import ListNotations.
Open Scope N_scope.

Notation W := (list N) (only parsing).                 (* payload *)
Notation T := (vtree (list N)) (only parsing).
Definition leaf (w : W) : T := VNode w [].

(* ---- immutable values as payload words ---- *)
Definition enc_strs (l : list str) : W := concat (map (fun s => lenN s :: s) l).
Fixpoint dec_strs (fuel : nat) (w : W) : option (list str) :=
  match w with
  | [] => Some []
  | n :: r =>
      match fuel with
      | O => None
      | S f => if lenN (takeN n r) =? n
               then match dec_strs f (dropN n r) with Some l => Some (takeN n r :: l) | None => None end
               else None
      end
  end.
Definition flat2 (l : list (N * N)) : W := concat (map (fun p => [fst p; snd p]) l).
Fixpoint unflat2 (w : W) : option (list (N * N)) :=
  match w with
  | [] => Some []
  | a :: b :: r => match unflat2 r with Some l => Some ((a, b) :: l) | None => None end
  | _ => None
  end.
Definition flat3 (l : list (N * N * N)) : W := concat (map (fun p => [fst (fst p); snd (fst p); snd p]) l).
Fixpoint unflat3 (w : W) : option (list (N * N * N)) :=
  match w with
  | [] => Some []
  | a :: b :: c :: r => match unflat3 r with Some l => Some ((a, b, c) :: l) | None => None end
  | _ => None
  end.
Definition bits (l : list bool) : W := map (fun b : bool => if b then 1 else 0) l.
Definition unbits (w : W) : list bool := map (fun n => negb (n =? 0)) w.

(* ---- object trees of the values of Codec.v ---- *)
Definition comp_tree (c : component) : T :=
  VNode (enc_strs [c_name c; c_format c]) [leaf (enc_strs (c_points c)); leaf (flat2 (c_limbs c)); leaf (flat3 (c_colors c))].
Definition dims_tree (d : N * N * N) : T := leaf [fst (fst d); snd (fst d); snd d].
Definition header_tree (h : header) : T :=
  VNode [h_version h] [dims_tree (h_dims h); VNode [] (map comp_tree (h_comps h))].
Definition body_tree (b : body) : T :=
  VNode (b_fps b :: b_shape b) [leaf (b_data b); leaf (bits (b_mask b)); leaf (b_conf b)].
Definition pose_tree (p : pose) : T := VNode [] [header_tree (p_header p); body_tree (p_body p)].

Definition comp_of_tree (t : T) : option component :=
  match t with
  | VNode w [VNode wp []; VNode wl []; VNode wc []] =>
      match dec_strs (length w) w, dec_strs (length wp) wp, unflat2 wl, unflat3 wc with
      | Some [n; f], Some pts, Some ls, Some cs =>
          Some {| c_name := n; c_format := f; c_points := pts; c_limbs := ls; c_colors := cs |}
      | _, _, _, _ => None
      end
  | _ => None
  end.
Definition header_of_tree (t : T) : option header :=
  match t with
  | VNode [v] [VNode [w; h; d] []; VNode [] cts] =>
      match mapM comp_of_tree cts with
      | Some cs => Some {| h_version := v; h_dims := (w, h, d); h_comps := cs |}
      | None => None
      end
  | _ => None
  end.
Definition body_of_tree (t : T) : option body :=
  match t with
  | VNode (fps :: shape) [VNode d []; VNode m []; VNode c []] =>
      Some {| b_fps := fps; b_shape := shape; b_data := d; b_conf := c; b_mask := unbits m |}
  | _ => None
  end.
Definition pose_of_tree (t : T) : option pose :=
  match t with
  | VNode [] [th; tb] =>
      match header_of_tree th, body_of_tree tb with
      | Some h, Some b => Some {| p_header := h; p_body := b |}
      | _, _ => None
      end
  | _ => None
  end.

(* Pose.copy(): Pose(copy.deepcopy(header), body.copy()); NumPyPoseBody.copy() builds a NEW body from data.copy() and
   confidence.copy(), and the constructor ORs `confidence == 0` into the copied mask (numpy/pose_body.py __init__) *)
Fixpoint or_mask (m c : list N) : list N :=
  match m, c with
  | mb :: m', cw :: c' => (if is_zero32 cw then 1 else mb) :: or_mask m' c'
  | _, _ => m
  end.
Fixpoint or_maskb (m : list bool) (c : list N) : list bool :=
  match m, c with
  | mb :: m', cw :: c' => (is_zero32 cw || mb) :: or_maskb m' c'
  | _, _ => m
  end.
Definition copy_tree (t : T) : T :=
  match t with
  | VNode [] [th; VNode bp [VNode d []; VNode m []; VNode c []]] =>
      VNode [] [th; VNode bp [VNode d []; VNode (or_mask m c) []; VNode c []]]
  | _ => t
  end.
Definition copy_pose (p : pose) : pose :=
  {| p_header := p_header p;
     p_body := {| b_fps := b_fps (p_body p); b_shape := b_shape (p_body p); b_data := b_data (p_body p); b_conf := b_conf (p_body p);
                  b_mask := or_maskb (b_mask (p_body p)) (b_conf (p_body p)) |} |}.

(* ---- process state ---- *)
Definition FUEL : nat := 8.                             (* pose trees are 5 levels deep *)
Record gmemo := { gm_start : N; gm_end : N; gm_slice : bytes; gm_addr : nat }.
Record gstate := { gheap : heap W; gmem : option gmemo; ghanded : list nat (* the Pose objects given to callers *) }.
Definition ginit : gstate := {| gheap := []; gmem := None; ghanded := [] |}.
Definition header_at (s : gstate) (a : nat) : option header :=
  match read_tree FUEL (gheap s) a with Some t => header_of_tree t | None => None end.
(* what check_cache sees: the memoised header is whatever the memo's objects hold NOW *)
Definition memo_view_g (s : gstate) : option memo :=
  match gmem s with
  | Some c => match header_at s (gm_addr c) with
              | Some hd => Some {| m_start := gm_start c; m_end := gm_end c; m_slice := gm_slice c; m_header := hd |}
              | None => None
              end
  | None => None
  end.
Definition memo_root (s : gstate) : list nat := match gmem s with Some c => [gm_addr c] | None => [] end.
Definition roots (s : gstate) : list nat := memo_root s ++ ghanded s.

Section WithLegacy.
Variable legacy : vclass -> header -> rargs -> prog body.

(* Pose.read on bytes -> address of the Pose object *)
Definition read_g (s : gstate) (buffer : bytes) (a : rargs) : result nat * gstate :=
  let mv := memo_view_g s in
  match check_cache mv buffer with
  | Some c =>
      match fst (read_bytes legacy mv buffer a), gmem s with
      | Ok p, Some gc =>
          match read_tree FUEL (gheap s) (gm_addr gc) with
          | Some tm =>                                   (* copy.deepcopy(cached header): the whole object tree *)
              let '(ap, h1) := alloc_tree (VNode [] [tm; body_tree (p_body p)]) (gheap s) in
              (Ok ap, {| gheap := h1; gmem := gmem s; ghanded := ghanded s ++ [ap] |})
          | None => (Err Value, s)
          end
      | Ok p, None => (Err Value, s)
      | Err e, _ => (Err e, s)
      end
  | None =>
      match run_plain rd_header {| pbuf := buffer; poff := 0 |} with
      | Err e => (Err e, s)
      | Ok (h, r) =>
          (* set_cache stores copy.deepcopy(header): objects of its own *)
          let '(am, h1) := alloc_tree (header_tree h) (gheap s) in
          let gm := Some {| gm_start := 0; gm_end := poff r; gm_slice := py_slice 0 (poff r) buffer; gm_addr := am |} in
          match fst (read_bytes legacy mv buffer a) with
          | Ok p => let '(ap, h2) := alloc_tree (pose_tree p) h1 in
                    (Ok ap, {| gheap := h2; gmem := gm; ghanded := ghanded s ++ [ap] |})
          | Err e => (Err e, {| gheap := h1; gmem := gm; ghanded := ghanded s |})
          end
      end
  end.

(* the two endings of a read, as pose_header.py has them: a memo hit hands out copy.deepcopy(cached header) with the body just
   decoded; a miss stores copy.deepcopy(parsed header) in the memo and hands out the parsed objects *)
Definition hit_g (s : gstate) (res : result pose) : result nat * gstate :=
  match res, gmem s with
  | Ok p, Some gc =>
      match read_tree FUEL (gheap s) (gm_addr gc) with
      | Some tm => let '(ap, h1) := alloc_tree (VNode [] [tm; body_tree (p_body p)]) (gheap s) in
                   (Ok ap, {| gheap := h1; gmem := gmem s; ghanded := ghanded s ++ [ap] |})
      | None => (Err Value, s)
      end
  | Ok p, None => (Err Value, s)
  | Err e, _ => (Err e, s)
  end.
Definition miss_g (s : gstate) (h : header) (e : N) (slice : bytes) (res : result pose) : result nat * gstate :=
  let '(am, h1) := alloc_tree (header_tree h) (gheap s) in
  let gm := Some {| gm_start := 0; gm_end := e; gm_slice := slice; gm_addr := am |} in
  match res with
  | Ok p => let '(ap, h2) := alloc_tree (pose_tree p) h1 in
            (Ok ap, {| gheap := h2; gmem := gm; ghanded := ghanded s ++ [ap] |})
  | Err er => (Err er, {| gheap := h1; gmem := gm; ghanded := ghanded s |})
  end.

(* Pose.read on a seekable stream positioned at 0 (pose.py: a BytesIOReader when a window is asked for, else the whole stream is
   read into bytes): PoseRead.read_stream with the objects made explicit *)
Definition read_gs (s : gstate) (file : bytes) (a : rargs) : result nat * gstate :=
  if negb (any_arg a) then read_g s file a
  else
    let mv := memo_view_g s in
    let res := fst (fst (read_stream legacy mv file a)) in
    match expect file (prefetch_len mv) {| buf := []; off := 0; skipped := 0; pulled := 0 |} with
    | Err e => (Err e, s)
    | Ok r1 =>
        match check_cache mv (buf r1) with
        | Some c => hit_g s res
        | None =>
            match run_stream file rd_header r1 with
            | Err e => (Err e, s)
            | Ok (h, r2) => miss_g s h (off r2) (py_slice 0 (off r2) (buf r2)) res
            end
        end
    end.

Inductive gop :=
| GRead (buffer : bytes) (a : rargs)
| GEdit (k : nat) (path : list nat) (g : W -> W)   (* in-place edit of an object reached from the k-th pose handed out *)
| GCopy (k : nat)                                   (* Pose.copy() of the k-th pose handed out *)
| GAssign (k : nat) (path : list nat) (i : nat) (w : W)
    (* attribute assignment of a NEWLY BUILT object without mutable parts of its own - `header.dimensions = PoseHeaderDimensions(..)`,
       `body.data.mask = m`, `component.points = [...]`: the i-th pointer field of the object at `path` is re-pointed to a new cell *)
| GPop (k : nat) (path : list nat)                  (* `header.components.pop()`: the last pointer field of the object at `path` is dropped *)
| GReadS (file : bytes) (a : rargs).                (* Pose.read of a seekable stream holding `file` *)

Definition step_g (s : gstate) (o : gop) : gstate * option (result nat) :=
  match o with
  | GRead buffer a => let '(r, s') := read_g s buffer a in (s', Some r)
  | GReadS file a => let '(r, s') := read_gs s file a in (s', Some r)
  | GEdit k path g =>
      match nth_error (ghanded s) k with
      | Some root => match addr_at (gheap s) root path with
                     | Some x => ({| gheap := set_pay x g (gheap s); gmem := gmem s; ghanded := ghanded s |}, None)
                     | None => (s, None)
                     end
      | None => (s, None)
      end
  | GAssign k path i w =>
      match nth_error (ghanded s) k with
      | Some root => match addr_at (gheap s) root path with
                     | Some x => ({| gheap := assign_child x i (leaf w) (gheap s); gmem := gmem s; ghanded := ghanded s |}, None)
                     | None => (s, None)
                     end
      | None => (s, None)
      end
  | GPop k path =>
      match nth_error (ghanded s) k with
      | Some root => match addr_at (gheap s) root path with
                     | Some x => ({| gheap := pop_child x (gheap s); gmem := gmem s; ghanded := ghanded s |}, None)
                     | None => (s, None)
                     end
      | None => (s, None)
      end
  | GCopy k =>
      match nth_error (ghanded s) k with
      | Some root => match read_tree FUEL (gheap s) root with
                     | Some t => let '(ap, h1) := alloc_tree (copy_tree t) (gheap s) in
                                 ({| gheap := h1; gmem := gmem s; ghanded := ghanded s ++ [ap] |}, Some (Ok ap))
                     | None => (s, None)
                     end
      | None => (s, None)
      end
  end.
Fixpoint run_g (s : gstate) (ops : list gop) : gstate :=
  match ops with [] => s | o :: r => run_g (fst (step_g s o)) r end.

(* what a caller sees of the k-th pose handed out, and the cells it is made of *)
Definition pose_at (s : gstate) (k : nat) : option pose :=
  match nth_error (ghanded s) k with
  | Some root => match read_tree FUEL (gheap s) root with Some t => pose_of_tree t | None => None end
  | None => None
  end.
Definition cells_of (s : gstate) (k : nat) : list nat :=
  match nth_error (ghanded s) k with Some root => footprint FUEL (gheap s) root | None => [] end.
Definition memo_cells (s : gstate) : list nat :=
  match gmem s with Some c => footprint FUEL (gheap s) (gm_addr c) | None => [] end.
End WithLegacy.
