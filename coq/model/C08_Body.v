(* C08 - the three body types (numpy/pose_body.py, torch/pose_body.py, tensorflow/pose_body.py,
   pose_body.py) with their masked-tensor containers (numpy.ma, torch/masked/tensor.py,
   tensorflow/masked/tensor.py).  Definitions only.

   A pose body is (fps, data, confidence).  data is a *pair* (values, mask) - or a bare tensor after
   Torch/TF zero_filled - and the polarity of the mask is the backend's own (NumPy: True = missing,
   Torch/TF: True = valid).  Tensors are nested lists frames > people > points > coordinates, each
   carrying its shape explicitly (an empty axis keeps the extents of the inner ones).  Values are
   float32 words.  The places where the sources were found to differ (DESIGN section 7: F7, F8, F9 and
   the NumPy stacking axis) are fields of [cfg]; the translator regenerates them from the source
   (gen/Gen_C08.v) and the theorems are about [cfg_repaired]. *)
From Coq Require Import ZArith NArith List Bool SpecFloat.
Require Import Result F32.
Import ListNotations.
Local Open Scope nat_scope.

Definition t2 (X : Type) := list (list X).
Definition t3 (X : Type) := list (t2 X).
Definition t4 (X : Type) := list (t3 X).
Definition map2n {X Y} (f : X -> Y) : t2 X -> t2 Y := map (map f).
Definition map3 {X Y} (f : X -> Y) : t3 X -> t3 Y := map (map (map f)).
Definition map4 {X Y} (f : X -> Y) : t4 X -> t4 Y := map (map (map (map f))).
Fixpoint zipw {A B C} (f : A -> B -> C) (a : list A) (b : list B) : list C :=
  match a, b with x :: a', y :: b' => f x y :: zipw f a' b' | _, _ => [] end.
Definition zip3 {A B C} (f : A -> B -> C) : t3 A -> t3 B -> t3 C := zipw (zipw (zipw f)).
Definition zip4 {A B C} (f : A -> B -> C) : t4 A -> t4 B -> t4 C := zipw (zipw (zipw (zipw f))).
Fixpoint shape_eqb (a b : list nat) : bool :=
  match a, b with
  | [], [] => true
  | x :: a', y :: b' => Nat.eqb x y && shape_eqb a' b'
  | _, _ => false
  end.

(* ---- what the sources were found to differ in ---- *)
Inductive vrule := NeZero | GtZero.                 (* valid := conf != 0  |  conf > 0 *)
Inductive stackn := LastDim | Times (n : nat).      (* [mask] * data.shape[-1]  |  [mask] * n *)
Inductive staxis := AxLast | Ax3.                   (* np.stack(..., axis=-1)  |  axis=3 *)
Inductive zfkind := ZfWhere | ZfMul.                (* where(mask, t, 0)  |  t * mask *)
(* MaskedTensor.matmul: MaskedTensor(t, self.mask)  |  mask = all(self.mask, -1, keepdim).expand(t.shape)  (proposed fix F16a) *)
Inductive mmkind := MmKeep | MmAllExpand.
Record cfg := { np_axis : staxis; torch_rule : vrule; tf_rule : vrule; tf_stack : stackn;
                torch_zf : zfkind; tf_zf : zfkind; torch_mm : mmkind; tf_mm : mmkind;
                tf_empty_ok : bool }.                (* MaskedTensor[list] / get_points cast the list to int32 (proposed fix) *)
(* the constructors and zero_filled as repaired; the two points other owners' proposed fixes touch stay parameters *)
Definition cfg_repaired (mm : mmkind) (e : bool) : cfg :=
  {| np_axis := AxLast; torch_rule := NeZero; tf_rule := NeZero; tf_stack := LastDim;
     torch_zf := ZfWhere; tf_zf := ZfWhere; torch_mm := mm; tf_mm := mm; tf_empty_ok := e |}.
(* the tree as pinned before the repairs of F7 / F8 / F9 / the NumPy axis *)
Definition cfg_pinned : cfg :=
  {| np_axis := Ax3; torch_rule := GtZero; tf_rule := GtZero; tf_stack := Times 2;
     torch_zf := ZfMul; tf_zf := ZfMul; torch_mm := MmKeep; tf_mm := MmKeep; tf_empty_ok := false |}.
Definition valid_by (r : vrule) (w : N) : bool :=
  match r with NeZero => negb (is_zero32 w) | GtZero => is_pos32 w end.
(* TensorFlow's CPU kernels run with denormals-are-zero: a subnormal float32 compares equal to 0 *)
Definition is_zero32_daz (w : N) : bool := (w mod 2147483648 <? 8388608)%N.
Definition valid_by_tf (r : vrule) (w : N) : bool :=
  match r with
  | NeZero => negb (is_zero32_daz w)
  | GtZero => (w <? 2147483648)%N && negb (is_zero32_daz w) && negb (is_nan32 w)
  end.

Inductive bk := Np | Torch | Tf.

(* ---- bodies, generic in the rank: V values, M mask, C confidence ---- *)
Inductive bdata (V M : Type) :=
| Masked (vs : list nat) (v : V) (ms : list nat) (m : M)     (* ma.MaskedArray / MaskedTensor(tensor, mask) *)
| Plain (vs : list nat) (v : V).                              (* np.ndarray / torch.Tensor / tf.Tensor *)
Arguments Masked {V M}. Arguments Plain {V M}.
Record gbody (V M C : Type) := { g_fps : N;                    (* binary64 word of the Python float *)
                                 g_data : bdata V M;
                                 g_cs : list nat; g_conf : C }.
Arguments g_fps {V M C}. Arguments g_data {V M C}. Arguments g_cs {V M C}. Arguments g_conf {V M C}.
Definition body := gbody (t4 N) (t4 bool) (t3 N).    (* (frames, people, points, dims) *)
Definition fbody := gbody (t3 N) (t3 bool) (t2 N).   (* one frame: body[int] *)
Definition dshape {V M} (d : bdata V M) : list nat := match d with Masked vs _ _ _ => vs | Plain vs _ => vs end.
Definition dval {V M} (d : bdata V M) : V := match d with Masked _ v _ _ => v | Plain _ v => v end.
Definition dmapx {V M V' M'} (fs : list nat -> list nat) (fv : V -> V') (fm : M -> M') (d : bdata V M) : bdata V' M' :=
  match d with
  | Masked vs v ms m => Masked (fs vs) (fv v) (fs ms) (fm m)
  | Plain vs v => Plain (fs vs) (fv v)
  end.
Definition last_dim (s : list nat) : nat := last s 0.
Definition stack3 {X} (g : N -> X) (k : nat) (c : t3 N) : t4 X := map3 (fun w => repeat (g w) k) c.
Definition stack2 {X} (g : N -> X) (k : nat) (c : t2 N) : t3 X := map2n (fun w => repeat (g w) k) c.

(* ---- constructors ---- *)
(* numpy/pose_body.py:43-52.  MaskedArray is an ndarray, so the mask is derived on every construction;
   ma.masked_array(masked, mask=m) keeps the old mask (keep_mask=True): new = old | m.
   np.stack of an empty list raises; axis=3 needs a rank-3 confidence; mask and data shapes must agree. *)
Definition np_init (c : cfg) (fps : N) (d : bdata (t4 N) (t4 bool)) (cs : list nat) (conf : t3 N) : result body :=
  let D := last_dim (dshape d) in
  if Nat.eqb D 0 then Err Value else
  let ms := cs ++ [D] in
  if negb (shape_eqb ms (dshape d)) then Err Value else
  let st := stack3 is_zero32 D conf in
  Ok {| g_fps := fps;
        g_data := Masked (dshape d) (dval d) ms (match d with Masked _ _ _ m => zip4 orb m st | Plain _ _ => st end);
        g_cs := cs; g_conf := conf |}.
Definition np_init3 (c : cfg) (fps : N) (d : bdata (t3 N) (t3 bool)) (cs : list nat) (conf : t2 N) : result fbody :=
  let D := last_dim (dshape d) in
  if Nat.eqb D 0 then Err Value else
  match np_axis c with
  | Ax3 => Err Index                                   (* AxisError: axis 3 is out of bounds for dimension 3 *)
  | AxLast =>
    let ms := cs ++ [D] in
    if negb (shape_eqb ms (dshape d)) then Err Value else
    let st := stack2 is_zero32 D conf in
    Ok {| g_fps := fps;
          g_data := Masked (dshape d) (dval d) ms (match d with Masked _ _ _ m => zip3 orb m st | Plain _ _ => st end);
          g_cs := cs; g_conf := conf |}
  end.
(* torch/pose_body.py:20-26, tensorflow/pose_body.py:35-44: only a bare tensor gets a mask; MaskedTensor
   performs no shape check *)
Definition mt_init (vb : N -> bool) (k : stackn) (fps : N) (d : bdata (t4 N) (t4 bool)) (cs : list nat) (conf : t3 N) : result body :=
  match d with
  | Masked _ _ _ _ => Ok {| g_fps := fps; g_data := d; g_cs := cs; g_conf := conf |}
  | Plain vs v =>
      let n := match k with LastDim => last_dim vs | Times n => n end in
      if Nat.eqb n 0 then Err Value else               (* torch.stack / tf.stack of an empty list *)
      Ok {| g_fps := fps; g_data := Masked vs v (cs ++ [n]) (stack3 vb n conf); g_cs := cs; g_conf := conf |}
  end.
Definition mt_init3 (fps : N) (d : bdata (t3 N) (t3 bool)) (cs : list nat) (conf : t2 N) : result fbody :=
  match d with
  | Masked _ _ _ _ => Ok {| g_fps := fps; g_data := d; g_cs := cs; g_conf := conf |}
  | Plain _ _ => Err Index                             (* stack(dim=3) of rank-2 masks *)
  end.
Definition ctor (c : cfg) (b : bk) : N -> bdata (t4 N) (t4 bool) -> list nat -> t3 N -> result body :=
  match b with
  | Np => np_init c
  | Torch => mt_init (valid_by (torch_rule c)) LastDim
  | Tf => mt_init (valid_by_tf (tf_rule c)) (tf_stack c)
  end.
Definition ctor3 (c : cfg) (b : bk) : N -> bdata (t3 N) (t3 bool) -> list nat -> t2 N -> result fbody :=
  match b with Np => np_init3 c | _ => mt_init3 end.

(* ---- conversions, numpy/pose_body.py:141-178: the NumPy mask is dropped, data.data and confidence are
   handed to the other constructor ---- *)
Definition np_to (c : cfg) (b : bk) (x : body) : result body :=
  ctor c b (g_fps x) (Plain (dshape (g_data x)) (dval (g_data x))) (g_cs x) (g_conf x).

(* ---- indexing conventions of the three frameworks ---- *)
(* x[i], x[[i, ...]] of numpy / torch, x[i] of tf: negative indexes count from the end *)
Definition norm_wrap (n : nat) (i : Z) : result nat :=
  let n' := Z.of_nat n in
  if ((0 <=? i) && (i <? n'))%Z then Ok (Z.to_nat i)
  else if ((- n' <=? i) && (i <? 0))%Z then Ok (Z.to_nat (i + n')) else Err Index.
(* tf.gather on CPU *)
Definition norm_gather (n : nat) (i : Z) : result nat :=
  if ((0 <=? i) && (i <? Z.of_nat n))%Z then Ok (Z.to_nat i) else Err Index.
(* x[[i, ...]] / tf.gather(x, [i, ...]) along an axis of extent n; inner = product of the other extents.
   Torch and TF skip the bounds check when nothing would be copied: TF whenever a slice is empty,
   Torch when the tensor has no elements although the indexed axis is not empty *)
Definition unchecked (n : nat) (i : Z) : result nat := Ok (Z.to_nat (i mod Z.of_nat n)).
Definition ix_list (b : bk) (empty_ok : bool) (n inner : nat) (idx : list Z) : result (list nat) :=
  match b with
  | Np => rmapM (norm_wrap n) idx
  | Torch => if Nat.eqb inner 0 && negb (Nat.eqb n 0) then rmapM (unchecked n) idx else rmapM (norm_wrap n) idx
  | Tf => match idx with
          | [] => if empty_ok then Ok [] else Err Type_ (* tf.gather(x, []): the empty list is a float tensor *)
          | _ => if Nat.eqb inner 0 then rmapM (unchecked n) idx else rmapM (norm_gather n) idx
          end
  end.
Record pyslice := { s_start : option Z; s_stop : option Z; s_step : option Z }.
(* slice.indices(n) followed by range(...) *)
Definition slice_idx (n : nat) (s : pyslice) : result (list nat) :=
  let n' := Z.of_nat n in
  let st := match s_step s with Some k => k | None => 1%Z end in
  if (st =? 0)%Z then Err Value else
  if (0 <? st)%Z then
    let adj x := if (x <? 0)%Z then Z.max 0 (x + n') else Z.min x n' in
    let a := match s_start s with Some x => adj x | None => 0%Z end in
    let b := match s_stop s with Some x => adj x | None => n' end in
    Ok (filter (fun i => let i' := Z.of_nat i in ((a <=? i') && (i' <? b) && ((i' - a) mod st =? 0))%Z) (seq 0 n))
  else
    let adj x := if (x <? 0)%Z then Z.max (-1) (x + n') else Z.min x (n' - 1) in
    let a := match s_start s with Some x => adj x | None => (n' - 1)%Z end in
    let b := match s_stop s with Some x => adj x | None => (-1)%Z end in
    Ok (rev (filter (fun i => let i' := Z.of_nat i in ((b <? i') && (i' <=? a) && ((a - i') mod (- st) =? 0))%Z) (seq 0 n))).
Definition ix_slice (b : bk) (n : nat) (s : pyslice) : result (list nat) :=
  match b, s_step s with
  | Torch, Some k => if (k <? 0)%Z then Err Value else slice_idx n s     (* "step must be greater than zero" *)
  | _, _ => slice_idx n s
  end.
(* gather: positions beyond the list are dropped (they never occur once the index passed ix_list or ix_slice) *)
Definition gat {X} (ix : list nat) (l : list X) : list X :=
  flat_map (fun i => match nth_error l i with Some x => [x] | None => [] end) ix.
Definition set0 (n : nat) (s : list nat) : list nat := match s with _ :: r => n :: r | [] => [] end.
Definition set2 (n : nat) (s : list nat) : list nat := match s with a :: b :: _ :: r => a :: b :: n :: r | _ => s end.
Definition set_last (n : nat) (s : list nat) : list nat := removelast s ++ [n].
Definition extent (k : nat) (x : body) : nat := nth k (dshape (g_data x)) 0.
Definition inner0 (x : body) : nat := fold_right Nat.mul 1 (tl (dshape (g_data x))).
Definition inner2 (x : body) : nat :=
  match dshape (g_data x) with a :: b :: _ :: r => fold_right Nat.mul 1 (a :: b :: r) | _ => 0 end.

(* ---- operations of the base class (pose_body.py), shared through inheritance ---- *)
Definition take_frames (c : cfg) (b : bk) (fps : N) (ix : list nat) (x : body) : result body :=
  ctor c b fps (dmapx (set0 (length ix)) (gat ix) (gat ix) (g_data x)) (set0 (length ix) (g_cs x)) (gat ix (g_conf x)).
(* pose_body.py:530-551; tensorflow/pose_body.py:52-69 (tf.gather) *)
Definition select_frames (c : cfg) (b : bk) (idx : list Z) (x : body) : result body :=
  do ix <- ix_list b false (extent 0 x) (inner0 x) idx; take_frames c b (g_fps x) ix x.
(* pose_body.py:266-285, index a slice *)
Definition getitem_slice (c : cfg) (b : bk) (s : pyslice) (x : body) : result body :=
  do ix <- ix_slice b (extent 0 x) s; take_frames c b (g_fps x) ix x.
(* pose_body.py:266-285, index an int: one frame *)
Definition getitem_int (c : cfg) (b : bk) (i : Z) (x : body) : result fbody :=
  do k <- norm_wrap (extent 0 x) i;
  ctor3 c b (g_fps x) (dmapx (@tl nat) (fun v => nth k v []) (fun m => nth k m []) (g_data x))
        (tl (g_cs x)) (nth k (g_conf x) []).
(* pose_body.py:360-378: data[::by], confidence[::by], fps / by (binary64) *)
Definition fps_div (fps : N) (by_ : Z) : N := b64_of_sf (sf64_div (sf_of_b64 fps) (sf64_of_Z by_)).
Definition slice_step (c : cfg) (b : bk) (by_ : Z) (x : body) : result body :=
  do ix <- ix_slice b (extent 0 x) {| s_start := None; s_stop := None; s_step := Some by_ |};
  take_frames c b (fps_div (g_fps x) by_) ix x.

(* ---- get_points: numpy/pose_body.py:246-267, torch/pose_body.py:91-109, tensorflow/pose_body.py:155-176.
   transpose(POINTS_DIMS) ; index axis 0 ; transpose(POINTS_DIMS) with POINTS_DIMS = (2,1,0,3) an involution
   that puts the points axis first (and (2,1,0) for the confidence) is indexing on axis 2; the two
   permutations are regenerated and tied in proofs/C08_GenTie.v ---- *)
Definition get_points (c : cfg) (b : bk) (idx : list Z) (x : body) : result body :=
  do ix <- ix_list b (tf_empty_ok c) (extent 2 x) (inner2 x) idx;
  ctor c b (g_fps x) (dmapx (set2 (length ix)) (map (map (gat ix))) (map (map (gat ix))) (g_data x))
       (set2 (length ix) (g_cs x)) (map (map (gat ix)) (g_conf x)).

(* ---- copy: numpy/pose_body.py:131-134, torch/pose_body.py:33-41, tensorflow/pose_body.py:143-153 ---- *)
Definition copy (c : cfg) (b : bk) (x : body) : result body :=
  match b, g_data x with
  | Np, d => np_init c (g_fps x) d (g_cs x) (g_conf x)
  | _, Plain _ _ => Err Type_                           (* a bare tensor has no .tensor / .mask *)
  | _, d => ctor c b (g_fps x) d (g_cs x) (g_conf x)
  end.

(* ---- zero_filled: numpy/pose_body.py:180-194, torch/pose_body.py:44-56 + masked/tensor.py:262-271,
   tensorflow/pose_body.py:46-50 + masked/tensor.py:209-220.  Torch/TF leave a bare tensor in .data ---- *)
Definition zero32 : N := 0%N.
Definition nan32 : N := 2143289344%N.
(* x * 0.0 in float32: NaN for NaN / infinity, otherwise a zero with the sign of x;  x * 1.0 = x *)
Definition mul_mask (w : N) (ok : bool) : N :=
  if ok then w else
  if is_nan32 w || (w mod 2147483648 =? 2139095040)%N then nan32
  else if (w <? 2147483648)%N then zero32 else 2147483648%N.
Definition zf_cell (k : zfkind) (w : N) (ok : bool) : N :=
  match k with ZfWhere => if ok then w else zero32 | ZfMul => mul_mask w ok end.
Definition zero_filled (c : cfg) (b : bk) (x : body) : result body :=
  do y <- copy c b x;
  match b, g_data y with
  | Np, Masked vs v ms m =>
      Ok {| g_fps := g_fps y; g_data := Masked vs (zip4 (fun w (miss : bool) => if miss then zero32 else w) v m) ms m;
            g_cs := g_cs y; g_conf := g_conf y |}
  | _, Masked vs v ms m =>
      if negb (shape_eqb vs ms) then Err Value else       (* broadcasting of unequal shapes is not modelled *)
      let k := match b with Torch => torch_zf c | _ => tf_zf c end in
      Ok {| g_fps := g_fps y; g_data := Plain vs (zip4 (zf_cell k) v m); g_cs := g_cs y; g_conf := g_conf y |}
  | _, Plain _ _ => Err Type_
  end.

(* ---- matmul: numpy/pose_body.py:196-211 (ma.dot), torch/pose_body.py:58-75 + masked/tensor.py:301-316,
   tensorflow/pose_body.py:178-193 + masked/tensor.py:244-259.  The float32 dot-product kernel of the
   framework is a parameter (section variable): rounding and summation order are not modelled ---- *)
Record matrix := { m_rows : nat; m_cols : nat; m_el : t2 N }.
Section Kernel.
Variable dot : list N -> list N -> N.
Definition mcols (m : matrix) : t2 N := map (fun j => map (fun row => nth j row zero32) (m_el m)) (seq 0 (m_cols m)).
Definition vecmat (m : matrix) (v : list N) : list N := map (dot v) (mcols m).
Definition matmul (c : cfg) (b : bk) (m : matrix) (x : body) : result body :=
  if negb (Nat.eqb (last_dim (dshape (g_data x))) (m_rows m)) then Err Value else
  let fs := set_last (m_cols m) in
  match b, g_data x with
  | Np, Masked vs v ms mk =>
      (* ma.dot(a, b, strict=False): dot(filled(a, 0), b); an output cell is masked iff no valid cell of its row contributes *)
      let filled := zip4 (fun w (miss : bool) => if miss then zero32 else w) v mk in
      np_init c (g_fps x)
        (Masked (fs vs) (map3 (vecmat m) filled) (fs ms) (map3 (fun r => repeat (forallb (fun z => z) r) (m_cols m)) mk))
        (g_cs x) (g_conf x)
  | Np, Plain vs v => np_init c (g_fps x) (Plain (fs vs) (map3 (vecmat m) v)) (g_cs x) (g_conf x)
  | _, Masked vs v ms mk =>
      match (match b with Torch => torch_mm c | _ => tf_mm c end) with
      | MmKeep =>                                         (* MaskedTensor(matmul(tensor, matrix), self.mask) *)
          ctor c b (g_fps x) (Masked (fs vs) (map3 (vecmat m) v) ms mk) (g_cs x) (g_conf x)
      | MmAllExpand =>                                    (* a row is valid iff all of its cells were; broadcast to the new width *)
          ctor c b (g_fps x) (Masked (fs vs) (map3 (vecmat m) v) (fs vs)
                                     (map3 (fun r => repeat (forallb (fun z => z) r) (m_cols m)) mk)) (g_cs x) (g_conf x)
      end
  | _, Plain vs v => ctor c b (g_fps x) (Plain (fs vs) (map3 (vecmat m) v)) (g_cs x) (g_conf x)
  end.
End Kernel.

(* ---- flatten: numpy/pose_body.py:396-421, torch/pose_body.py:111-134; TensorFlow offers none
   (pose_body.py:330-358 raises NotImplementedError).  A row is (frame, person, point, confidence, coordinates);
   column 0 is frame * (1 / fps) computed in the backend's own float type (float64 / float32) - the
   model keeps the frame index and the fps, rounding is not modelled ---- *)
Definition enum {X} (l : list X) : list (nat * X) := combine (seq 0 (length l)) l.
Definition frow := (nat * nat * nat * N * list N)%type.
Definition flat_rows (v : t4 N) (conf : t3 N) : list frow :=
  flat_map (fun fx => let '(f, (fr, cf)) := fx in
    flat_map (fun px => let '(p, (pe, cp)) := px in
      map (fun tx => let '(t, (pt, cw)) := tx in (f, p, t, cw, pt)) (enum (combine pe cp)))
      (enum (combine fr cf)))
    (enum (combine v conf)).
Definition row_conf (r : frow) : N := snd (fst r).
Definition flatten (b : bk) (x : body) : result (N * list frow) :=
  match b, g_data x with
  | Tf, _ => Err NotImplemented
  | _, Plain _ _ => Err Type_
  | _, Masked vs v _ _ =>
      if (g_fps x mod 9223372036854775808 =? 0)%N then Err ZeroDiv else        (* 1 / self.fps with fps = +-0.0 *)
      if Nat.eqb (fold_right Nat.mul 1 (removelast vs)) 0 then Err Value else   (* empty index block: broadcast error in both *)
      Ok (g_fps x, filter (fun r => negb (is_zero32 (row_conf r))) (flat_rows v (g_conf x)))
  end.

(* ---- what is observed of a body (anchors.observe_at): shape, values, validity in one polarity, confidence ---- *)
Record gobs (V M C : Type) := { o_fps : N; o_shape : list nat; o_val : V;
                                o_valid : option (list nat * M); o_cshape : list nat; o_conf : C }.
Arguments o_fps {V M C}. Arguments o_shape {V M C}. Arguments o_val {V M C}. Arguments o_valid {V M C}.
Arguments o_cshape {V M C}. Arguments o_conf {V M C}.
Definition obs := gobs (t4 N) (t4 bool) (t3 N).
Definition fobs := gobs (t3 N) (t3 bool) (t2 N).
Definition gobserve {V M C} (flip : M -> M) (b : bk) (x : gbody V M C) : gobs V M C :=
  {| o_fps := g_fps x; o_shape := dshape (g_data x); o_val := dval (g_data x);
     o_valid := match g_data x with
                | Masked _ _ ms m => Some (ms, match b with Np => flip m | _ => m end)
                | Plain _ _ => None
                end;
     o_cshape := g_cs x; o_conf := g_conf x |}.
Definition observe : bk -> body -> obs := gobserve (map4 negb).
Definition observe3 : bk -> fbody -> fobs := gobserve (map3 negb).
(* values with every invalid cell replaced by +0.0 (what is visible of the coordinates) *)
Definition visible (o : obs) : obs :=
  {| o_fps := o_fps o; o_shape := o_shape o;
     o_val := match o_valid o with Some (_, m) => zip4 (fun w (ok : bool) => if ok then w else zero32) (o_val o) m | None => o_val o end;
     o_valid := o_valid o; o_cshape := o_cshape o; o_conf := o_conf o |}.
(* zero_filled leaves no validity part on Torch / TF: shape, values, confidence, fps are compared *)
Definition forget_valid (o : obs) : obs :=
  {| o_fps := o_fps o; o_shape := o_shape o; o_val := o_val o; o_valid := None; o_cshape := o_cshape o; o_conf := o_conf o |}.
