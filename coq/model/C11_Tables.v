(* C11 - the name tables of utils/generic.py as they were when the Examples of props/C11.v were written (a literal copy).
   The theorems hold for every table; the runner uses the regenerated ones (gen/Gen_C11.v); the tie lemma
   [tables_tie] (proofs/C11_GenTie.v) states that the regenerated tables still equal this copy. *)
From Coq Require Import List ZArith.
Require Import C11_Str C11_Select C11_Helpers.
Import ListNotations.
Open Scope str_scope.
Open Scope list_scope.

Definition pinned_tables : tables := mkTables
  ["POSE_LANDMARKS"; "FACE_LANDMARKS"; "LEFT_HAND_LANDMARKS"; "RIGHT_HAND_LANDMARKS"; "POSE_WORLD_LANDMARKS"]
  ["pose_keypoints_2d"; "face_keypoints_2d"; "hand_left_keypoints_2d"; "hand_right_keypoints_2d"]
  ["BODY_135"]
  [("POSE_LANDMARKS", ["LEFT_KNEE"; "LEFT_ANKLE"; "LEFT_HEEL"; "LEFT_FOOT_INDEX"; "LEFT_HIP"; "RIGHT_KNEE"; "RIGHT_ANKLE"; "RIGHT_HEEL"; "RIGHT_FOOT_INDEX"; "RIGHT_HIP"]); ("POSE_WORLD_LANDMARKS", ["LEFT_KNEE"; "LEFT_ANKLE"; "LEFT_HEEL"; "LEFT_FOOT_INDEX"; "LEFT_HIP"; "RIGHT_KNEE"; "RIGHT_ANKLE"; "RIGHT_HEEL"; "RIGHT_FOOT_INDEX"; "RIGHT_HIP"])]
  [("pose_keypoints_2d", ["MidHip"; "RHip"; "RKnee"; "RAnkle"; "LHip"; "LKnee"; "LAnkle"; "LBigToe"; "LSmallToe"; "LHeel"; "RBigToe"; "RSmallToe"; "RHeel"])]
  [("LEFT", (("LEFT_HAND_LANDMARKS", "WRIST"), ("POSE_LANDMARKS", "LEFT_WRIST"))); ("RIGHT", (("RIGHT_HAND_LANDMARKS", "WRIST"), ("POSE_LANDMARKS", "RIGHT_WRIST")))]
  [("LEFT", (("hand_left_keypoints_2d", "BASE"), ("pose_keypoints_2d", "LWrist"))); ("RIGHT", (("hand_right_keypoints_2d", "BASE"), ("pose_keypoints_2d", "RWrist")))]
  ["0"; "7"; "10"; "13"; "14"; "17"; "21"; "33"; "37"; "39"; "40"; "46"; "52"; "53"; "54"; "55"; "58"; "61"; "63"; "65"; "66"; "67"; "70"; "78"; "80"; "81"; "82"; "84"; "87"; "88"; "91"; "93"; "95"; "103"; "105"; "107"; "109"; "127"; "132"; "133"; "136"; "144"; "145"; "146"; "148"; "149"; "150"; "152"; "153"; "154"; "155"; "157"; "158"; "159"; "160"; "161"; "162"; "163"; "172"; "173"; "176"; "178"; "181"; "185"; "191"; "234"; "246"; "249"; "251"; "263"; "267"; "269"; "270"; "276"; "282"; "283"; "284"; "285"; "288"; "291"; "293"; "295"; "296"; "297"; "300"; "308"; "310"; "311"; "312"; "314"; "317"; "318"; "321"; "323"; "324"; "332"; "334"; "336"; "338"; "356"; "361"; "362"; "365"; "373"; "374"; "375"; "377"; "378"; "379"; "380"; "381"; "382"; "384"; "385"; "386"; "387"; "388"; "389"; "390"; "397"; "398"; "400"; "402"; "405"; "409"; "415"; "454"; "466"]
  ["EAR"; "NOSE"; "MOUTH"; "EYE"; "THUMB"; "PINKY"; "INDEX"; "KNEE"; "ANKLE"; "HEEL"; "FOOT_INDEX"]
  "POSE_LANDMARKS" "FACE_LANDMARKS" "POSE_WORLD_LANDMARKS".

