(* C19 - vocabulary of the theorem statements (definitions only): accessors of the loaded pose, accessors of the
   JSON input, the position of a keypoint in a component table, conformance of an input to a layout. *)
From Coq Require Import List Arith NArith ZArith Bool.
Require Import Result F32 C19_Layout C19_FrameId C19_OpenPose.
Import ListNotations.
Local Open Scope nat_scope.

(* ---- the loaded pose ---- *)
Definition get3 {A} (a : list (list (list A))) (f p k : nat) : option A :=
  match nth_error a f with
  | Some x => match nth_error x p with Some y => nth_error y k | None => None end
  | None => None
  end.
Definition get4 {A} (a : list (list (list (list A)))) (f p k d : nat) : option A :=
  match get3 a f p k with Some c => nth_error c d | None => None end.
Definition data_at (ps : pose) (f p k d : nat) : option N := get4 (p_data ps) f p k d.       (* body.data.data[f,p,k,d] *)
Definition mask_at (ps : pose) (f p k d : nat) : option bool := get4 (p_mask ps) f p k d.    (* body.data.mask[f,p,k,d] *)
Definition conf_at (ps : pose) (f p k : nat) : option N := get3 (p_conf ps) f p k.           (* body.confidence[f,p,k] *)
(* every list at every level has the stated length *)
Definition rect3 {A} (F P K : nat) (a : list (list (list A))) : Prop :=
  length a = F /\ Forall (fun x => length x = P /\ Forall (fun y => length y = K) x) a.
Definition rect4 {A} (F P K D : nat) (a : list (list (list (list A)))) : Prop :=
  length a = F /\ Forall (fun x => length x = P /\ Forall (fun y => length y = K /\ Forall (fun z => length z = D) y) x) a.

(* ---- the JSON input ---- *)
Fixpoint find_frame (f : nat) (fs : frames) : option frame :=                               (* frames[f] *)
  match fs with [] => None | (g, fr) :: r => if Nat.eqb f g then Some fr else find_frame f r end.
Definition json_person (fs : frames) (f p : nat) : option person :=                          (* frames[f]["people"][p] *)
  match find_frame f fs with Some fr => nth_error fr p | None => None end.
Definition last_id (fs : frames) : nat := list_max (map fst fs).
Definition max_people (fs : frames) : nat := list_max (map (fun x => length (snd x)) fs).

(* ---- keypoint k of a layout = point i of component c ---- *)
Fixpoint locate (cs : list comp) (k : nat) : option (comp * nat) :=
  match cs with
  | [] => None
  | c :: cs' => if k <? length (c_points c) then Some (c, k) else locate cs' (k - length (c_points c))
  end.

(* ---- triples a person lists, in table order (the running keypoint index of openpose.py:268-275) ---- *)
Definition triple := (N * N * N)%type.
Fixpoint chunk3 (l : list N) : option (list triple) :=
  match l with
  | [] => Some []
  | x :: y :: c :: r => match chunk3 r with Some t => Some ((x, y, c) :: t) | None => None end
  | _ => None
  end.
Fixpoint person_triples (cs : list comp) (per : person) : option (list triple) :=
  match cs with
  | [] => Some []
  | c :: cs' => match lookup (c_name c) per with
                | None => None
                | Some ns => match chunk3 ns, person_triples cs' per with
                             | Some a, Some b => Some (a ++ b)
                             | _, _ => None
                             end
                end
  end.
Definition cast3 (t : triple) : triple := let '(x, y, c) := t in (cast32 x, cast32 y, cast32 c).
(* weakest input condition under which load_openpose is shown not to raise: every listed person has every field of the
   table, each a whole number of triples, at most K keypoints in total (covers the 137 layout, the 135 layout - all 135
   keypoints in the first field, the others empty - and inputs whose fields are shorter or longer than the table says) *)
Definition person_fits (cs : list comp) (per : person) : Prop :=
  exists ts, person_triples cs per = Some ts /\ length ts <= total_points cs.
Definition frames_fit (cs : list comp) (fs : frames) : Prop :=
  Forall (fun x => Forall (person_fits cs) (snd x)) fs.
(* conformance to a layout: every listed person has, for every component, exactly 3 numbers per point of the table *)
Definition person_conforms (cs : list comp) (per : person) : Prop :=
  Forall (fun c => exists ns, lookup (c_name c) per = Some ns /\ length ns = 3 * length (c_points c)) cs.
Definition frames_conform (cs : list comp) (fs : frames) : Prop :=
  Forall (fun x => Forall (person_conforms cs) (snd x)) fs.
(* a Python dict: keys distinct;  requested frame count: absent, or at least last id + 1 *)
Definition dict_ok (fs : frames) : Prop := NoDup (map fst fs).
Definition count_ok (fs : frames) (num_frames : option nat) : Prop :=
  match num_frames with None => True | Some n => last_id fs + 1 <= n end.
Definition frame_count (fs : frames) (num_frames : option nat) : nat :=
  match num_frames with None => last_id fs + 1 | Some n => n end.
(* the 135 layout as OpenPose writes it: all 135 keypoints under the first field, the other three fields empty *)
Definition person_conforms_135 (per : person) : Prop :=
  exists ns, lookup (c_name (nth 0 comps137 ([], [], [], []))) per = Some ns /\ length ns = 3 * 135 /\
  Forall (fun c => lookup (c_name c) per = Some []) (tl comps137).

(* what frame f, person p, point k of the result must hold (x, y, confidence as float32 words): the k-th triple the
   person lists, zeros when the frame / the person / the keypoint is absent from the input *)
Definition expected_cell (cs : list comp) (fs : frames) (f p k : nat) : triple :=
  match json_person fs f p with
  | Some per => match person_triples cs per with
                | Some ts => match nth_error ts k with Some t => cast3 t | None => (0%N, 0%N, 0%N) end
                | None => (0%N, 0%N, 0%N)
                end
  | None => (0%N, 0%N, 0%N)
  end.
Definition cell_at (ps : pose) (f p k : nat) : option triple :=
  match data_at ps f p k 0, data_at ps f p k 1, conf_at ps f p k with
  | Some x, Some y, Some c => Some (x, y, c)
  | _, _, _ => None
  end.
Definition formats_xyc (cs : list comp) : Prop := Forall (fun c => length (c_format c) = 3) cs.
