(* C11 - object level: components and bodies live in a heap, a pose names them by address.
   API calls are heap transformers; "the source pose is unchanged" is a statement about the heap. *)
From Coq Require Import List Arith Bool NArith ZArith.
Require Import Result Tensor C11_Str C11_Select C11_Helpers.
Import ListNotations.
Open Scope str_scope.
Open Scope list_scope.

Inductive obj := OComp (c : component) | OBody (b : body).
Definition heap := list obj.
(* Pose + PoseHeader: version / dimensions / is_bbox are immutable values here; the component objects and
   the body object are addresses *)
Record pose := mkP { p_version : Z; p_dims : list Z; p_bbox : bool; p_comps : list nat; p_body : nat }.
Record vpose := mkV { v_version : Z; v_dims : list Z; v_bbox : bool; v_comps : list component; v_body : body }.

Definition alloc (h : heap) (o : obj) : heap * nat := (h ++ [o], length h).
Definition write (h : heap) (a : nat) (o : obj) : heap := firstn a h ++ o :: skipn (S a) h.
Definition read_comp (h : heap) (a : nat) : result component :=
  match nth_error h a with Some (OComp c) => Ok c | _ => Err Type_ end.
Definition read_body (h : heap) (a : nat) : result body :=
  match nth_error h a with Some (OBody b) => Ok b | _ => Err Type_ end.
Definition read_comps (h : heap) (addrs : list nat) : result (list component) := rmapM (read_comp h) addrs.
Definition update_comp (h : heap) (a : nat) (f : component -> component) : heap :=
  match nth_error h a with Some (OComp c) => write h a (OComp (f c)) | _ => h end.
Definition deref (h : heap) (p : pose) : result vpose :=
  do cs <- read_comps h (p_comps p);
  do b <- read_body h (p_body p);
  Ok (mkV (p_version p) (p_dims p) (p_bbox p) cs b).
Definition set_points (c : component) (np : list str) : component :=
  mkC (c_name c) np (c_limbs c) (c_colors c) (c_format c).
Definition set_limbs (c : component) (l : list (nat * nat)) : component :=
  mkC (c_name c) (c_points c) l (c_colors c) (c_format c).

(* pose.py:267-288, statement by statement *)
Fixpoint walk_h (h : heap) (addrs : list nat) (idx : nat) (sel : list str) (points : points_dict)
  : result (heap * list (str * (nat * list nat))) :=
  match addrs with
  | [] => Ok (h, [])
  | a :: r =>
      do c <- read_comp h a;
      do hx <- (if mem (c_name c) sel then
                  (* :270 new_component = PoseHeaderComponent(component.name, .points, .limbs, .colors, .format) *)
                  let '(h1, a') := alloc h (OComp (mkC (c_name c) (c_points c) (c_limbs c) (c_colors c) (c_format c))) in
                  match pts_lookup points (c_name c) with
                  | Some np =>
                      let h2 := update_comp h1 a' (fun n => set_points n np) in                      (* :273 *)
                      do m <- index_mapping (c_points c) np 0;                                      (* :274-276 *)
                      let h3 := update_comp h2 a' (fun n => set_limbs n (relimb m (c_limbs c))) in   (* :277-280 *)
                      do ixs <- flat_indexes (c_points c) np idx;                                   (* :282 *)
                      Ok (h3, [(c_name c, (a', ixs))])
                  | None => Ok (h1, [(c_name c, (a', seq idx (length (c_points c))))])               (* :284 *)
                  end
                else Ok (h, []));
      let '(h', here) := hx in
      do rest <- walk_h h' r (idx + length (c_points c)) sel points;
      let '(h'', tl) := rest in
      Ok (h'', here ++ tl)
  end.
(* pose.py:290-297 *)
Definition get_components_h (tfe : bool) (h : heap) (p : pose) (sel : list str) (points : points_dict)
  : result (heap * pose) :=
  do w <- walk_h h (p_comps p) 0 sel points;
  let '(h1, table) := w in
  do picked <- pick table sel;
  do b <- read_body h1 (p_body p);
  do nb <- get_points tfe (concat (map snd picked)) b;
  let '(h2, ba) := alloc h1 (OBody nb) in
  Ok (h2, mkP (p_version p) (p_dims p) false (map fst picked) ba).    (* PoseHeader(version, dimensions, comps): is_bbox defaults to False *)

(* pose.py:219-236 *)
Definition remove_components_h (tfe : bool) (h : heap) (p : pose) (to_remove : list str) (pts : points_dict)
  : result (heap * pose) :=
  do cs <- read_comps h (p_comps p);
  let '(names, pd) := remove_request cs to_remove pts in
  get_components_h tfe h p names (Some pd).

(* pose_header.py:387-398 via pose.header *)
Definition point_index_h (h : heap) (p : pose) (c n : str) : result nat :=
  do cs <- read_comps h (p_comps p); point_index cs c n.

(* copy.deepcopy(pose) *)
Fixpoint alloc_all (h : heap) (os : list obj) : heap * list nat :=
  match os with
  | [] => (h, [])
  | o :: r => let '(h1, a) := alloc h o in let '(h2, l) := alloc_all h1 r in (h2, a :: l)
  end.
Definition deepcopy (h : heap) (p : pose) : result (heap * pose) :=
  do cs <- read_comps h (p_comps p);
  do b <- read_body h (p_body p);
  let '(h1, addrs) := alloc_all h (map OComp cs) in
  let '(h2, ba) := alloc h1 (OBody b) in
  Ok (h2, mkP (p_version p) (p_dims p) (p_bbox p) addrs ba).

(* generic.py:65-112 *)
Definition hide_legs_h (T : tables) (tfe : bool) (h : heap) (p : pose) (remove : bool) : result (heap * pose) :=
  do cs <- read_comps h (p_comps p);
  do f <- detect T (map c_name cs);
  do tbl <- hide_table T f;
  if remove then remove_components_h tfe h p [] (Some tbl)                 (* :96 *)
  else
    do b <- read_body h (p_body p);
    do b' <- hide_body (hide_indices cs tbl) b;                             (* :99-110, in place *)
    Ok (write h (p_body p) (OBody b'), p).                                  (* :112 return pose *)

(* generic.py:260-283 *)
Definition correct_wrist_h (T : tables) (h : heap) (p : pose) (hand : str) : result (heap * pose) :=
  do r <- deepcopy h p;                                                     (* :261 *)
  let '(h1, p1) := r in
  do cs <- read_comps h1 (p_comps p1);
  do b <- read_body h1 (p_body p1);
  do b' <- correct_wrist_body T cs b hand;
  Ok (write h1 (p_body p1) (OBody b'), p1).
Definition correct_wrists_h (T : tables) (h : heap) (p : pose) (left right : str) : result (heap * pose) :=
  do r <- correct_wrist_h T h p left;
  let '(h1, p1) := r in correct_wrist_h T h1 p1 right.

(* generic.py:286-319 *)
Definition reduce_holistic_h (T : tables) (tfe : bool) (h : heap) (p : pose) : result (heap * pose) :=
  do cs <- read_comps h (p_comps p);
  do f <- detect T (map c_name cs);
  match f with
  | Holistic =>
      do rq <- reduce_request T cs;
      get_components_h tfe h p (fst rq) (Some (snd rq))
  | _ => Ok (h, p)                                                          (* :288-289 return pose *)
  end.
