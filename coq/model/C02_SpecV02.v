(* Independent reference encoder of the v0.2 layout, written ONLY from docs/specs/v0.2.md (a flat list of
   typed fields, all little-endian; `string` / `char[]` = 16-bit length prefix + UTF-8 bytes).  It shares the
   byte / UTF-8 primitives of base/ with the implementation model but none of its structure (no concat_r, no
   component / header writers).  Definitions only. *)
From Coq Require Import ZArith NArith List Bool.
Require Import ListN Result Bytes Utf8 Utf8S Codec Tree CodecTree.
Import ListNotations.
Open Scope N_scope.

Inductive field :=
| FFloat (w : N)          (* `float`: a 32-bit IEEE word *)
| FUShort (n : N)         (* `unsigned short` *)
| FUInt (n : N)           (* `unsigned int` *)
| FString (s : list N).   (* `string` / `char[]`: code points *)

(* little-endian bytes of n on k bytes; None if n does not fit *)
Fixpoint le_bytes (k : nat) (n : N) : option bytes :=
  match k with
  | O => if n =? 0 then Some [] else None
  | S k' => match le_bytes k' (n / 256) with Some r => Some (n mod 256 :: r) | None => None end
  end.
Definition enc_field (f : field) : option bytes :=
  match f with
  | FFloat w | FUInt w => le_bytes 4 w
  | FUShort n => le_bytes 2 n
  | FString s =>
      match enc_utf8 s with
      | Some b => match le_bytes 2 (lenN b) with Some l => Some (l ++ b) | None => None end
      | None => None
      end
  end.
Fixpoint enc_fields (l : list field) : option bytes :=
  match l with
  | [] => Some []
  | f :: r => match enc_field f, enc_fields r with Some a, Some b => Some (a ++ b) | _, _ => None end
  end.

(* the field list of a pose, in the order of the document *)
Definition component_fields (c : component) : list field :=
  [FString (c_name c); FString (c_format c);
   FUShort (lenN (c_points c)); FUShort (lenN (c_limbs c)); FUShort (lenN (c_colors c))]
  ++ map FString (c_points c)
  ++ flat_map (fun l => [FUShort (fst l); FUShort (snd l)]) (c_limbs c)
  ++ flat_map (fun k => [FUShort (fst (fst k)); FUShort (snd (fst k)); FUShort (snd k)]) (c_colors c).
Definition header_fields (h : header) : list field :=
  let '(w, hh, d) := h_dims h in
  [FFloat (h_version h); FUShort w; FUShort hh; FUShort d; FUShort (lenN (h_comps h))]
  ++ flat_map component_fields (h_comps h).
Definition body_fields (b : body) : list field :=
  [FFloat (b_fps b); FUInt (nth 0 (b_shape b) 0); FUShort (nth 1 (b_shape b) 0)]
  ++ map FFloat (b_data b)        (* for every frame, person, point: the coordinates *)
  ++ map FFloat (b_conf b).       (* for every frame, person, point: the confidence *)
Definition spec_encode (p : pose) : option bytes := enc_fields (header_fields (p_header p) ++ body_fields (p_body p)).
