(* C19 - the frame-id rule.  utils/openpose.py:153 (OPENPOSE_FRAME_PATTERN) and :287-306 (get_frame_id).

   pattern   (?:^|\D)(\d+)\_keypoints.json      (the literal is C19_Tables.frame_pattern, tied to the source)
   meaning modelled here: re.findall scans left to right for non-overlapping matches of
        [start of string | one non-digit]  <maximal non-empty digit run>  "_keypoints"  <any char but \n>  "json"
   (`\d+` is greedy and must be followed by '_', so only the maximal run can match; the unescaped '.' is a wildcard),
   get_frame_id takes the group of the LAST match (m[-1], IndexError if there is none) and converts it with int()
   (CPython >= 3.11 refuses more than 4300 digits with ValueError).
   File names are lists of code points.  Digits are the ASCII digits: names containing other Unicode decimal
   digits are outside the model (stated in the harness ASSUMPTIONS; the generator never produces them). *)
From Coq Require Import List NArith Arith Bool.
Require Import Result.
Import ListNotations.
Local Open Scope N_scope.

Definition is_digit (c : N) : bool := (48 <=? c) && (c <=? 57).
Definition KEYPOINTS : list N := [95; 107; 101; 121; 112; 111; 105; 110; 116; 115].   (* "_keypoints" *)
Definition JSON : list N := [106; 115; 111; 110].                                      (* "json" *)
Definition SUFFIX : list N := KEYPOINTS ++ [46] ++ JSON.                               (* "_keypoints.json" *)

Fixpoint span_digits (s : list N) : list N * list N :=
  match s with
  | [] => ([], [])
  | c :: r => if is_digit c then (let '(a, b) := span_digits r in (c :: a, b)) else ([], s)
  end.
Fixpoint strip_prefix (pat s : list N) : option (list N) :=
  match pat with
  | [] => Some s
  | a :: pat' => match s with [] => None | b :: s' => if a =? b then strip_prefix pat' s' else None end
  end.
(* "_keypoints" . "json" at the head of s: what follows it *)
Definition tail_ok (s : list N) : option (list N) :=
  match strip_prefix KEYPOINTS s with
  | None => None
  | Some [] => None
  | Some (x :: r) => if x =? 10 then None else strip_prefix JSON r
  end.
(* (\d+)\_keypoints.json at the head of s: the group and the number of characters consumed *)
Definition match_body (s : list N) : option (list N * nat) :=
  let '(ds, r) := span_digits s in
  match ds with
  | [] => None
  | _ => match tail_ok r with None => None | Some _ => Some (ds, (length ds + 15)%nat) end
  end.
(* one attempt of the regular expression at the current position ([start] = this is position 0) *)
Definition try_match (start : bool) (s : list N) : option (list N * nat) :=
  match s with
  | [] => None
  | c :: r =>
      if is_digit c then (if start then match_body s else None)
      else match match_body r with Some (ds, n) => Some (ds, S n) | None => None end
  end.
(* re.findall, keeping only the last group: [skip] characters of a match just found are still to be passed over *)
Fixpoint scan (s : list N) (start : bool) (skip : nat) (last : option (list N)) : option (list N) :=
  match s with
  | [] => last
  | _ :: r =>
      match skip with
      | S k => scan r false k last
      | O => match try_match start s with
             | Some (ds, n) => scan r false (Nat.pred n) (Some ds)
             | None => scan r false 0%nat last
             end
      end
  end.
Definition digits_value (ds : list N) : N := fold_left (fun acc c => acc * 10 + (c - 48)) ds 0.
Definition MAX_STR_DIGITS : N := 4300.
(* openpose.py:303-306 *)
Definition get_frame_id (name : list N) : result N :=
  match scan name true 0%nat None with
  | None => Err Index
  | Some ds => if N.of_nat (length ds) <=? MAX_STR_DIGITS then Ok (digits_value ds) else Err Value
  end.
