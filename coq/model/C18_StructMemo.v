(* C18 - the second piece of process-global state a read touches: BufferReader.unpack_f (utils/reader.py:75-92)
   memoises one struct.Struct per format string as an attribute of the class ConstStructs:
       if not hasattr(ConstStructs, s_format):                     S_has
           setattr(ConstStructs, s_format, struct.Struct("<" + s_format))   S_set
       return self.unpack(getattr(ConstStructs, s_format))         S_get
   Threads: each performs a sequence of unpack_f calls (the string fields of the header it parses); atomic
   step = one hasattr / setattr / getattr; shared state = the attribute table; a thread's observable = the
   structs it handed to `unpack`.  [mk] is struct.Struct("<" + fmt), a function of the format alone.
   Definitions only. *)
From Coq Require Import NArith List Bool.
Import ListNotations.
Open Scope N_scope.

Section StructMemo.
Variable S : Type.                 (* struct objects, up to what unpack observes of them *)
Variable mk : N -> S.              (* struct.Struct("<" + fmt); formats are numbered *)

Definition table := list (N * S).  (* attributes of ConstStructs added at run time; first match wins *)
Fixpoint find (k : N) (t : table) : option S :=
  match t with [] => None | (k', s) :: r => if k =? k' then Some s else find k r end.

Inductive spc :=
| S_has (k : N) (rest : list N) (acc : list S)    (* hasattr(ConstStructs, k) *)
| S_set (k : N) (rest : list N) (acc : list S)    (* setattr(ConstStructs, k, mk k) *)
| S_get (k : N) (rest : list N) (acc : list S)    (* getattr(ConstStructs, k) -> unpack *)
| S_done (acc : option (list S)).                 (* None: AttributeError *)
Definition s_next (rest : list N) (acc : list S) : spc :=
  match rest with [] => S_done (Some acc) | k :: r => S_has k r acc end.
Definition s_init (keys : list N) : spc := s_next keys [].

Definition sstep (p : spc) (t : table) : table * spc :=
  match p with
  | S_has k rest acc => (t, match find k t with Some _ => S_get k rest acc | None => S_set k rest acc end)
  | S_set k rest acc => ((k, mk k) :: t, S_get k rest acc)
  | S_get k rest acc => (t, match find k t with Some s => s_next rest (acc ++ [s]) | None => S_done None end)
  | S_done _ => (t, p)
  end.

Record sstate := { ss_table : table; ss_pcs : list spc }.
Fixpoint supd {A} (l : list A) (i : nat) (x : A) : list A :=
  match l, i with [], _ => [] | _ :: r, O => x :: r | y :: r, Datatypes.S k => y :: supd r k x end.
Definition sstep_sys (i : nat) (st : sstate) : sstate :=
  match nth_error (ss_pcs st) i with
  | Some p => let '(t', p') := sstep p (ss_table st) in {| ss_table := t'; ss_pcs := supd (ss_pcs st) i p' |}
  | None => st
  end.
Definition srun (sched : list nat) (st : sstate) : sstate := fold_left (fun st i => sstep_sys i st) sched st.
Definition sinit (jobs : list (list N)) (t0 : table) : sstate := {| ss_table := t0; ss_pcs := map s_init jobs |}.
(* what the same calls return alone: one struct per requested format *)
Definition structs_alone (keys : list N) : list S := map mk keys.
End StructMemo.
Arguments S_has {S}. Arguments S_set {S}. Arguments S_get {S}. Arguments S_done {S}.
Arguments ss_table {S}. Arguments ss_pcs {S}.
