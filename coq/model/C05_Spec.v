(* C05: reference encoders of the legacy formats, written from docs/specs/v0.1.md and docs/specs/v0.0.md.
   The header layout is the one of every version (the three specs list the same header; pose_header.py:338-352),
   only the version float differs.  Definitions only. *)
From Coq Require Import ZArith NArith List Bool.
Require Import ListN Result Bytes Codec.
Import ListNotations.
Open Scope N_scope.

Definition v01_word : N := 1036831949.     (* struct.pack('<f', 0.1) = cd cc cc 3d *)
(* the header [h] of write_header with the version float replaced by the word [v] *)
Definition with_version (v : N) (h : bytes) : bytes := enc_u32 v ++ dropN 4 h.

(* ---------- v0.1: ushort fps, ushort frames, ushort people; all coordinates; all confidences ---------- *)
Record lpose := { l_dims : Z * Z * Z; l_comps : list wcomponent; l_fps : N;
                  l_F : N; l_P : N; l_T : N; l_D : N;
                  l_data : list N; l_conf : list N }.            (* float32 words, row-major (F,P,T,D) / (F,P,T) *)
Definition spec_v01 (q : lpose) : result bytes :=
  do h <- write_header (l_dims q) (l_comps q);
  Ok (with_version v01_word h ++ enc_u16 (l_fps q) ++ enc_u16 (l_F q) ++ enc_u16 (l_P q)
      ++ flat_map enc_u32 (l_data q) ++ flat_map enc_u32 (l_conf q)).
Definition word32 (w : N) : Prop := w < 4294967296.
Definition wf_lpose (q : lpose) : Prop :=
  l_fps q < 65536 /\ l_F q < 65536 /\ l_P q < 65536 /\
  Forall word32 (l_data q) /\ Forall word32 (l_conf q) /\
  l_T q = total_points_w (l_comps q) /\ num_dims_of (map wc_format (l_comps q)) = Ok (Z.of_N (l_D q)) /\
  lenN (l_data q) = l_F q * l_P q * l_T q * l_D q /\ lenN (l_conf q) = l_F q * l_P q * l_T q.

(* ---------- v0.0: ushort fps, ushort frames; per frame: ushort people; per person: short id, then per component,
   per point, one float per letter of the component's format ---------- *)
Definition person0 := (Z * list (list (list N)))%type.          (* id ; component -> point -> float32 words *)
Record lpose0 := { z_dims : Z * Z * Z; z_comps : list wcomponent; z_fps : N; z_frames : list (list person0) }.
Definition enc_i16 (z : Z) : bytes := enc_u16 (Z.to_N (z mod 65536)).
Definition enc_person (p : person0) : bytes :=
  enc_i16 (fst p) ++ flat_map (fun comp => flat_map (fun pt => flat_map enc_u32 pt) comp) (snd p).
Definition enc_frame (people : list person0) : bytes := enc_u16 (lenN people) ++ flat_map enc_person people.
Definition spec_v00 (q : lpose0) : result bytes :=
  do h <- write_header (z_dims q) (z_comps q);
  Ok (with_version 0 h ++ enc_u16 (z_fps q) ++ enc_u16 (lenN (z_frames q)) ++ flat_map enc_frame (z_frames q)).
(* a person carries, for every component, as many points as the header says, each with one float per format letter *)
Definition wf_person (comps : list wcomponent) (p : person0) : Prop :=
  (-32768 <= fst p < 32768)%Z /\
  Forall2 (fun c pts => length pts = length (wc_points c) /\
                        Forall (fun pt => length pt = length (wc_format c) /\ Forall word32 pt) pts) comps (snd p).
Definition wf_lpose0 (q : lpose0) : Prop :=
  z_fps q < 65536 /\ lenN (z_frames q) < 65536 /\
  Forall (fun people => lenN people < 65536 /\ Forall (wf_person (z_comps q)) people) (z_frames q).
