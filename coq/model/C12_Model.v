(* C12 - abstract pose state and the operation language of the public Pose API.
   Definitions only.  The state keeps what the property talks about: the header's components (name,
   point names, len(format)), the backend of the body, and two boolean tensors - [s_mask] (is the cell
   masked / invalid; shape of body.data) and [s_cz] (is the confidence zero; shape of body.confidence).
   Coordinates and confidences themselves are opaque; where an operation's effect on mask / zero-ness
   depends on them (random draws, interpolated confidences, zero deviations, dtype / memory layout) the
   operation carries that fact as an explicit oracle argument, so theorems quantify over every outcome.
   The model follows /repo with the fixes F11 (3-D bbox, 652ec5e), F7/F8 (Torch/TF mask from confidence,
   9125995), cb8efcf (box of a component without points), ef3ccc0 (empty index list on TensorFlow),
   ea2a495 (matmul mask) and 4fd01d7 (TensorFlow dropout). *)
From Coq Require Import String Ascii List Arith Bool ZArith NArith.
Require Import Result Tensor.
Import ListNotations.
Open Scope nat_scope.

(* ---------- names ---------- *)
Definition name := list N.                                        (* code points *)
Fixpoint name_eqb (a b : name) : bool :=
  match a, b with
  | [], [] => true
  | x :: a', y :: b' => N.eqb x y && name_eqb a' b'
  | _, _ => false
  end.
Definition mem (x : name) (l : list name) : bool := existsb (name_eqb x) l.
(* literals are written as strings and normalised at definition time, so that no [string] reaches the extracted code *)
Definition nm (s : string) : name := map N_of_ascii (list_ascii_of_string s).
Fixpoint index_of (x : name) (l : list name) : option nat :=      (* list.index *)
  match l with
  | [] => None
  | y :: r => if name_eqb y x then Some 0 else option_map S (index_of x r)
  end.
Fixpoint assoc_first {V} (x : name) (l : list (name * V)) : option V :=   (* lookup in a dict given as unique-key items *)
  match l with [] => None | (k, v) :: r => if name_eqb k x then Some v else assoc_first x r end.
Fixpoint assoc_last {V} (x : name) (l : list (name * V)) : option V :=    (* dict filled by successive assignments *)
  match l with
  | [] => None
  | (k, v) :: r => match assoc_last x r with Some w => Some w | None => if name_eqb k x then Some v else None end
  end.

(* ---------- header (pose_header.py:31-67,266-304,355-375) ---------- *)
Record comp := { c_name : name; c_points : list name; c_fmt : nat (* len(format) *) }.
Definition header := list comp.
Definition total_points (h : header) : nat := list_sum (map (fun c => length (c_points c)) h).     (* pose_header.py:355-364 *)
Definition num_dims (h : header) : option Z :=                                                     (* pose_header.py:366-375 *)
  let mx := fold_right Nat.max 0 (map c_fmt h) in
  match h with [] => None | _ => Some (Z.of_nat mx - 1)%Z end.

(* ---------- state ---------- *)
Inductive backend := Np | Torch | Tf.
Record state := { s_hdr : header; s_be : backend; s_mask : tensor bool; s_cz : tensor bool }.

(* ---------- tensors by tabulation ---------- *)
Definition tab {X} (ns : list nat) (g : list nat -> X) : tensor X :=
  mkT ns (map (fun k => g (unravel ns k)) (seq 0 (prod ns))).
Definition tab4 (F P T D : nat) (g : nat -> nat -> nat -> nat -> bool) : tensor bool :=
  tab [F; P; T; D] (fun ix => match ix with [f; p; t; d] => g f p t d | _ => false end).
Definition tab3 (F P T : nat) (g : nat -> nat -> nat -> bool) : tensor bool :=
  tab [F; P; T] (fun ix => match ix with [f; p; t] => g f p t | _ => false end).
Definition get4 (m : tensor bool) (f p t d : nat) : bool := tget false m [f; p; t; d].
Definition get3 (c : tensor bool) (f p t : nat) : bool := tget false c [f; p; t].
Definition all_lt (n : nat) (g : nat -> bool) : bool := forallb g (seq 0 n).
Definition ex_lt (n : nat) (g : nat -> bool) : bool := existsb g (seq 0 n).
Definition count_lt (n : nat) (g : nat -> bool) : nat := length (filter g (seq 0 n)).

(* body.data.shape = (F,P,T,D) and body.confidence.shape = (F,P,T); every constructor below produces
   such a pair, so other shape combinations are outside the model (Err) *)
Definition dims4 (m c : tensor bool) : result (nat * nat * nat * nat) :=
  match shape m, shape c with
  | [F; P; T; D], [F'; P'; T'] =>
      if (F =? F') && (P =? P') && (T =? T') then Ok (F, P, T, D) else Err Value
  | _, _ => Err Value
  end.

(* NumPyPoseBody.__init__ (numpy/pose_body.py:43-52).  A MaskedArray *is* an np.ndarray, so the branch
   is always taken: mask = confidence == 0, stacked data.shape[-1] times (np.stack of nothing raises),
   and ma.masked_array(data, mask=...) keeps the mask the data already had (keep_mask=True): OR. *)
Definition np_ctor (m c : tensor bool) : result (tensor bool) :=
  do d4 <- dims4 m c;
  let '(F, P, T, D) := d4 in
  if D =? 0 then Err Value else
  Ok (tab4 F P T D (fun f p t d => get4 m f p t d || get3 c f p t)).
Definition np_fin (mc : tensor bool * tensor bool) : result (tensor bool * tensor bool) :=
  do m' <- np_ctor (fst mc) (snd mc); Ok (m', snd mc).
(* TorchPoseBody / TensorflowPoseBody.__init__ on a plain tensor (torch/pose_body.py:20-26,
   tensorflow/pose_body.py:40-44): valid = confidence != 0, stacked data.shape[-1] times *)
Definition conf_mask (F P T D : nat) (c : tensor bool) : tensor bool := tab4 F P T D (fun f p t _ => get3 c f p t).

(* structural re-indexing of frames and points, values and confidence together *)
Definition regather (F' P T' D : nat) (gf gt : nat -> nat) (m c : tensor bool) : tensor bool * tensor bool :=
  (tab4 F' P T' D (fun f p t d => get4 m (gf f) p (gt t) d), tab3 F' P T' (fun f p t => get3 c (gf f) p (gt t))).
Definition idf (x : nat) : nat := x.

(* ---------- operations ---------- *)
Definition points_arg := option (list (name * list name)).         (* Dict[str, List[str]] | None *)
Inductive op :=
| GetComponents (cs : list name) (pts : points_arg)               (* pose.py:251-300 *)
| RemoveComponents (cs : list name) (pts : points_arg)            (* pose.py:230-247 *)
| BBox                                                            (* pose.py:306-317 *)
| Interpolate (newF : Z) (cz' : list bool)                      (* oracle: round(F*new_fps/fps); zero-ness of the new confidences *)
| SliceStep (by_ : Z)
| SelectFrames (ix : list Z)                                      (* body.select_frames *)
| DropoutUniform (sel : list nat)                                 (* oracle: the retained frame indexes *)
| DropoutNormal (sel : list nat)
| Flip (axis : Z)
| Augment2d (dtype_ok : bool)                                     (* oracle: tensor dtype equals the float32 matrix's (Torch only) *)
| Normalize (i1 i2 : nat)                                         (* info.p1, info.p2 *)
| NormalizeDistribution (per_point : bool) (zs : list bool)       (* axis=(0,1) / (0,1,2); oracle: where the deviation is 0 *)
| Focus
| Copy
| ToTorch (layout_ok : bool)                                      (* oracle: no negative stride (torch.from_numpy) *)
| ToTensorflow.

(* Pose.get_components: header part (pose.py:267-297) -> new header, flat_indexes *)
Definition gc_entry (c : comp) (idx : nat) (pts : points_arg) : result (comp * list nat) :=
  match match pts with Some d => assoc_first (c_name c) d | None => None end with
  | Some np =>
      do ixs <- rmapM (fun p => match index_of p (c_points c) with Some i => Ok (idx + i) | None => Err Value end) np;
      Ok ({| c_name := c_name c; c_points := np; c_fmt := c_fmt c |}, ixs)
  | None => Ok (c, seq idx (length (c_points c)))
  end.
Fixpoint gc_scan (h : header) (idx : nat) (cs : list name) (pts : points_arg) : result (list (name * (comp * list nat))) :=
  match h with
  | [] => Ok []
  | c :: r =>
      if mem (c_name c) cs then
        do e <- gc_entry c idx pts;
        do rest <- gc_scan r (idx + length (c_points c)) cs pts;
        Ok ((c_name c, e) :: rest)
      else gc_scan r (idx + length (c_points c)) cs pts
  end.
Definition get_components_hdr (h : header) (cs : list name) (pts : points_arg) : result (header * list nat) :=
  do es <- gc_scan h 0 cs pts;
  do sel <- rmapM (fun c => match assoc_last c es with Some e => Ok e | None => Err Key end) cs;
  Ok (map fst sel, flat_map snd sel).
(* Pose.remove_components: arguments handed to get_components (pose.py:230-247) *)
Fixpoint rc_args (h : header) (cs : list name) (pts : points_arg) : list name * list (name * list name) :=
  match h with
  | [] => ([], [])
  | c :: r =>
      let '(keep, d) := rc_args r cs pts in
      if mem (c_name c) cs then (keep, d) else
      let kept := match pts with
                  | Some ((_ :: _) as pd) =>
                      let rm := match assoc_first (c_name c) pd with Some l => l | None => [] end in
                      filter (fun p => negb (mem p rm)) (c_points c)
                  | _ => c_points c
                  end in
      (c_name c :: keep, (c_name c, kept) :: d)
  end.
(* Python builds points_dict by assignment: a later component of the same name overwrites *)
Fixpoint dict_of_assignments {V} (l : list (name * V)) : list (name * V) :=
  match l with
  | [] => []
  | (k, v) :: r => if existsb (fun kv => name_eqb (fst kv) k) r then dict_of_assignments r else (k, v) :: dict_of_assignments r
  end.

(* body.get_points (numpy/pose_body.py:241-262, torch/pose_body.py:92-113, tensorflow/pose_body.py:170-192) *)
Definition get_points (be : backend) (F P T D : nat) (idxs : list nat) (m c : tensor bool) : result (tensor bool * tensor bool) :=
  if negb (forallb (fun i => i <? T) idxs) then Err Index else
  let r := regather F P (length idxs) D idf (fun j => nth j idxs 0) m c in
  match be with Np => np_fin r | _ => Ok r end.

(* NumPyPoseBody.bbox (numpy/pose_body.py:264-300); header.bbox (pose_header.py:429-444) *)
Definition bbox_rows : nat := 2.                                   (* ma.stack([min, max]) ; box_points has 2 names *)
Definition box_points : list name := Eval compute in map nm ["TOP_LEFT"; "BOTTOM_RIGHT"]%string.
Fixpoint comp_ranges (h : header) (idx : nat) : list (nat * nat) :=
  match h with [] => [] | c :: r => (idx, length (c_points c)) :: comp_ranges r (idx + length (c_points c)) end.
Definition bbox_np (h : header) (F P T D : nat) (m c : tensor bool) : result (tensor bool * tensor bool) :=
  let rs := comp_ranges h 0 in
  match rs with [] => Err Value (* ma.concatenate([]) *) | _ =>
  if T <? total_points h then Err Index else
  let T' := bbox_rows * length rs in
  (* a component without points is replaced by one fully missing point: its box is missing (vacuous conjunction) *)
  let m1 := tab4 F P T' D (fun f p j d => let r := nth (j / bbox_rows) rs (0, 0) in
                                          forallb (fun t => get4 m f p t d) (seq (fst r) (snd r))) in
  let c1 := tab3 F P T' (fun f p j => get4 m1 f p j 0) in
  if D =? 0 then Err Index else np_fin (m1, c1)
  end.
Definition bbox_hdr (h : header) : header :=
  map (fun c => {| c_name := c_name c; c_points := box_points; c_fmt := c_fmt c |}) h.

(* NumPyPoseBody.interpolate (numpy/pose_body.py:301-386): shapes, the compress/reshape step (line 349:
   the unmasked cells of a (frames, dims+1) block must be exactly the rows with non-zero confidence),
   and a new body built from plain arrays *)
Definition compress_ok (F P T D : nat) (m c : tensor bool) : bool :=
  all_lt P (fun p => all_lt T (fun t =>
    let n := count_lt F (fun f => negb (get3 c f p t)) in
    (n =? 0) || (list_sum (map (fun f => count_lt D (fun d => negb (get4 m f p t d))) (seq 0 F)) =? n * D))).
Definition interpolate_np (F P T D : nat) (newFz : Z) (cz' : list bool) (m c : tensor bool) : result (tensor bool * tensor bool) :=
  if F =? 1 then Err Value else
  if (newFz <? 0)%Z then Err Value (* np.linspace with a negative number of samples *) else
  let newF := Z.to_nat newFz in
  if (P =? 0) || (T =? 0) then Err Value (* np.stack([]) *) else
  if negb (compress_ok F P T D m c) then Err Value else
  if negb (length cz' =? newF * P * T) then Err Value else
  np_fin (tab4 newF P T D (fun _ _ _ _ => false), mkT [newF; P; T] cz').

(* PoseBody.slice_step (pose_body.py:360-378): data[::by] *)
Definition step_count (F : nat) (b : nat) : nat := (F + b - 1) / b.
Definition slice_step (be : backend) (F P T D : nat) (by_ : Z) (m c : tensor bool) : result (tensor bool * tensor bool) :=
  if (by_ =? 0)%Z then Err Value else
  let b := Z.abs_nat by_ in
  let F' := step_count F b in
  if (0 <? by_)%Z then
    let r := regather F' P T D (fun j => j * b) idf m c in
    match be with Np => np_fin r | _ => Ok r end
  else
    let r := regather F' P T D (fun j => F - 1 - j * b) idf m c in
    match be with Np => np_fin r | Torch => Err Value (* step must be greater than zero *) | Tf => Ok r end.

(* PoseBody.select_frames (pose_body.py:530-551), TensorflowPoseBody.select_frames (tensorflow/pose_body.py:52-68) *)
Definition norm_index (neg_ok : bool) (F : nat) (i : Z) : result nat :=
  if ((0 <=? i) && (i <? Z.of_nat F))%Z then Ok (Z.to_nat i)
  else if (neg_ok && (- Z.of_nat F <=? i) && (i <? 0))%Z then Ok (Z.to_nat (i + Z.of_nat F))
  else Err Index.
Definition gather_frames (be : backend) (F P T D : nat) (ix : list nat) (m c : tensor bool) : result (tensor bool * tensor bool) :=
  let r := regather (length ix) P T D (fun j => nth j ix 0) idf m c in
  match be with Np => np_fin r | _ => Ok r end.
Definition select_frames (be : backend) (F P T D : nat) (ix : list Z) (m c : tensor bool) : result (tensor bool * tensor bool) :=
  match be, ix with
  | Tf, [] => Err Value                                            (* tf.gather with an empty Python list *)
  | Np, _ => do ixn <- rmapM (norm_index true F) ix; gather_frames be F P T D ixn m c
  | _, _ =>   (* torch / tf.gather do not bounds-check an index into a tensor without elements (torch does when there are no frames) *)
      if P * T * D =? 0 then
        match be, F, ix with
        | Torch, 0, _ :: _ => Err Index
        | _, _, _ => gather_frames be F P T D (map (fun _ => 0) ix) m c
        end
      else do ixn <- rmapM (norm_index (match be with Tf => false | _ => true end) F) ix; gather_frames be F P T D ixn m c
  end.
(* frame_dropout_given_percent (pose_body.py:553-578; tensorflow/pose_body.py:70-100): select_frames of the drawn indexes *)
Definition dropout (be : backend) (F P T D : nat) (sel : list nat) (m c : tensor bool) : result (tensor bool * tensor bool) :=
  if negb (forallb (fun i => i <? F) sel) then Err Index else gather_frames be F P T D sel m c.

(* NumPyPoseBody.flip (numpy/pose_body.py:210-228) *)
Definition flip_np (D : nat) (axis : Z) (m c : tensor bool) : result (tensor bool * tensor bool) :=
  if ((- Z.of_nat D <=? axis) && (axis <? Z.of_nat D))%Z then np_fin (m, c) else Err Index.

(* PoseBody.augment2d -> matmul (pose_body.py:380-431; numpy/pose_body.py:193-208 ma.dot: a result cell is
   masked iff every summand is; torch/tensorflow masked/tensor.py matmul: valid iff all of the row is valid) *)
Definition augment2d (be : backend) (F P T D : nat) (dtype_ok : bool) (m c : tensor bool) : result (tensor bool * tensor bool) :=
  if D <? 2 then Err Value else
  let r := (tab4 F P T D (fun f p t _ => all_lt D (fun k => get4 m f p t k)), c) in
  match be with
  | Np => np_fin r
  | Torch => if dtype_ok then Ok r else Err Type_
  | Tf => Ok r
  end.

(* Pose.normalize (pose.py:113-150) *)
Definition normalize (be : backend) (F P T D i1 i2 : nat) (m c : tensor bool) : result (tensor bool * tensor bool) :=
  if negb ((i1 <? T) && (i2 <? T)) then Err Index else
  let both f p d := get4 m f p i1 d || get4 m f p i2 d in
  let cm d := all_lt F (fun f => all_lt P (fun p => both f p d)) in          (* center[d] is masked *)
  match be with
  | Np =>  (* in-place subtraction ORs the centre's mask in; p1s/p2s are views; ma.sum masks when all summands are *)
      let md := all_lt F (fun f => all_lt P (fun p => all_lt D (fun d => both f p d || cm d))) in
      Ok (tab4 F P T D (fun f p t d => get4 m f p t d || cm d || md), c)
  | Tf =>  (* MaskedTensor arithmetic ANDs validity; sum(axis=-1) is valid when all summands are *)
      let md := all_lt F (fun f => all_lt P (fun p => ex_lt D (fun d => both f p d))) in
      Ok (tab4 F P T D (fun f p t d => get4 m f p t d || cm d || md), c)
  | Torch => Err NotImplemented                                   (* MaskedTensor has no mean *)
  end.

(* Pose.normalize_distribution (pose.py:152-176): ma division masks where the divisor is 0; TF keeps validity *)
Definition normalize_distribution (be : backend) (F P T D : nat) (per_point : bool) (zs : list bool) (m c : tensor bool)
  : result (tensor bool * tensor bool) :=
  if negb (length zs =? (if per_point then T * D else D)) then Err Value else
  match be with
  | Np => Ok (tab4 F P T D (fun f p t d => get4 m f p t d || nth (if per_point then t * D + d else d) zs false), c)
  | Tf => Ok (m, c)
  | Torch => Err NotImplemented
  end.

(* Pose.focus (pose.py:100-111): min over an empty array raises; PoseHeaderDimensions needs two numbers *)
Definition focus_np (F P T D : nat) (m c : tensor bool) : result (tensor bool * tensor bool) :=
  if F * P * T =? 0 then Err Value else
  if D <? 2 then Err Type_ else
  (* PoseHeaderDimensions(width, height, depth=0, *args) applies math.ceil to the first three extents only *)
  if ex_lt (Nat.min D 3) (fun d => all_lt F (fun f => all_lt P (fun p => all_lt T (fun t => get4 m f p t d)))) then Err Type_ else
  Ok (m, c).

(* Pose.__getattr__ (pose.py:319-383) *)
Definition pass_through_methods : list name :=
  Eval compute in map nm ["augment2d"; "flip"; "interpolate"; "slice_step"; "tensorflow"; "torch"]%string.
Definition header_attrs : list name :=                            (* methods of PoseHeader and the attributes __init__ sets *)
  Eval compute in map nm ["__init__"; "__str__"; "_get_point_index"; "bbox"; "components"; "dimensions"; "get_point_index"; "is_bbox";
                          "normalization_info"; "num_dims"; "read"; "total_points"; "version"; "write"]%string.
Inductive meth := M_augment2d | M_flip | M_interpolate | M_slice_step | M_tensorflow | M_torch.
Definition meth_name (m : meth) : name :=
  Eval compute in match m with
  | M_augment2d => nm "augment2d" | M_flip => nm "flip" | M_interpolate => nm "interpolate"
  | M_slice_step => nm "slice_step" | M_tensorflow => nm "tensorflow" | M_torch => nm "torch" end.
Definition pass_through {A} (me : meth) (body_res : result A) : result A :=
  if negb (mem (meth_name me) pass_through_methods) then Err Key else
  do r <- body_res;
  if mem (meth_name me) header_attrs then Err NotImplemented (* header transformed too: no such method exists *)
  else Ok r.

Definition mk_state (h : header) (be : backend) (mc : tensor bool * tensor bool) : state :=
  {| s_hdr := h; s_be := be; s_mask := fst mc; s_cz := snd mc |}.
Definition only_np {A} (be : backend) (e : err) (r : result A) : result A := match be with Np => r | _ => Err e end.

Definition step (st : state) (o : op) : result state :=
  let h := s_hdr st in let be := s_be st in let m := s_mask st in let c := s_cz st in
  do d4 <- dims4 m c;
  let '(F, P, T, D) := d4 in
  match o with
  | GetComponents cs pts =>
      do hi <- get_components_hdr h cs pts;
      do mc <- get_points be F P T D (snd hi) m c; Ok (mk_state (fst hi) be mc)
  | RemoveComponents cs pts =>
      let a := rc_args h cs pts in
      do hi <- get_components_hdr h (fst a) (Some (dict_of_assignments (snd a)));
      do mc <- get_points be F P T D (snd hi) m c; Ok (mk_state (fst hi) be mc)
  | BBox => do mc <- only_np be NotImplemented (bbox_np h F P T D m c); Ok (mk_state (bbox_hdr h) be mc)
  | Interpolate newF cz' =>
      do mc <- pass_through M_interpolate (only_np be Key (interpolate_np F P T D newF cz' m c)); Ok (mk_state h be mc)
  | SliceStep by_ => do mc <- pass_through M_slice_step (slice_step be F P T D by_ m c); Ok (mk_state h be mc)
  | SelectFrames ix => do mc <- select_frames be F P T D ix m c; Ok (mk_state h be mc)
  | DropoutUniform sel | DropoutNormal sel => do mc <- dropout be F P T D sel m c; Ok (mk_state h be mc)
  | Flip axis => do mc <- pass_through M_flip (only_np be Key (flip_np D axis m c)); Ok (mk_state h be mc)
  | Augment2d ok => do mc <- pass_through M_augment2d (augment2d be F P T D ok m c); Ok (mk_state h be mc)
  | Normalize i1 i2 => do mc <- normalize be F P T D i1 i2 m c; Ok (mk_state h be mc)
  | NormalizeDistribution pp zs => do mc <- normalize_distribution be F P T D pp zs m c; Ok (mk_state h be mc)
  | Focus => do mc <- only_np be NotImplemented (focus_np F P T D m c); Ok (mk_state h be mc)
  | Copy => do mc <- match be with Np => np_fin (m, c) | _ => Ok (m, c) end; Ok (mk_state h be mc)
  | ToTorch layout_ok =>
      do mc <- pass_through M_torch (only_np be NotImplemented
                 (if D =? 0 then Err Value else if layout_ok then Ok (conf_mask F P T D c, c) else Err Value));
      Ok (mk_state h Torch mc)
  | ToTensorflow =>
      do mc <- pass_through M_tensorflow (only_np be NotImplemented (if D =? 0 then Err Value else Ok (conf_mask F P T D c, c)));
      Ok (mk_state h Tf mc)
  end.

(* the property's own preconditions that matter for the invariant (the others make [step] fail) *)
Definition is_nil {A} (l : list A) : bool := match l with [] => true | _ => false end.
Definition pre (st : state) (o : op) : bool :=
  match o with
  | GetComponents cs _ => negb (is_nil cs)                         (* selects something *)
  | RemoveComponents cs _ => existsb (fun c => negb (mem (c_name c) cs)) (s_hdr st)   (* keeps something *)
  | Normalize i1 i2 =>                                             (* reference points observed (together, somewhere) *)
      match dims4 (s_mask st) (s_cz st) with
      | Ok (F, P, T, _) => (i1 <? T) && (i2 <? T) &&
                           ex_lt F (fun f => ex_lt P (fun p => negb (get3 (s_cz st) f p i1) && negb (get3 (s_cz st) f p i2)))
      | Err _ => false
      end
  | NormalizeDistribution _ zs => forallb negb zs                   (* non-zero deviation *)
  | _ => true
  end.
Fixpoint run (st : state) (ops : list op) : result state :=
  match ops with
  | [] => Ok st
  | o :: r => if pre st o then do st' <- step st o; run st' r else Err Value
  end.

(* a NumPy pose as Pose.read / the constructor give it *)
Definition start_state (h : header) (F P T D : nat) (cz : list bool) : result state :=
  do mc <- np_fin (tab4 F P T D (fun _ _ _ _ => false), mkT [F; P; T] cz);
  Ok (mk_state h Np mc).

(* ---------- the invariant, executable ---------- *)
Definition consb (m c : tensor bool) (F P T D : nat) : bool :=
  wfb m && wfb c &&
  all_lt F (fun f => all_lt P (fun p => all_lt T (fun t => all_lt D (fun d => Bool.eqb (get4 m f p t d) (get3 c f p t))))).
Definition invb (st : state) : bool :=
  match dims4 (s_mask st) (s_cz st) with
  | Ok (F, P, T, D) =>
      negb (is_nil (s_hdr st)) && forallb (fun c => c_fmt c =? S D) (s_hdr st) && (total_points (s_hdr st) =? T)
      && consb (s_mask st) (s_cz st) F P T D
  | Err _ => false
  end.
(* the invariant exactly as the property states it (header dims = max format length - 1); [invb] strengthens it by
   "every component has the same format length", which is what selection needs to preserve the header's dims *)
Definition inv_stmt_b (st : state) : bool :=
  match dims4 (s_mask st) (s_cz st) with
  | Ok (F, P, T, D) =>
      match num_dims (s_hdr st) with Some hd => (hd =? Z.of_nat D)%Z | None => false end
      && (total_points (s_hdr st) =? T) && consb (s_mask st) (s_cz st) F P T D
  | Err _ => false
  end.

(* The property's preconditions in full for a NumPy body (two frames for interpolation, an observed point in every
   dimension for focus, arguments in range ...): under them [step] does not fail (proofs/C12_Progress.v).  Selection
   is left out: the validity of its name arguments is C11's subject. *)
Definition expects_ok_np (st : state) (o : op) : bool :=
  match dims4 (s_mask st) (s_cz st) with
  | Ok (F, P, T, D) =>
      negb (D =? 0) &&
      match o with
      | GetComponents _ _ | RemoveComponents _ _ => false
      | BBox => true
      | Interpolate newF cz' =>
          negb (F =? 1) && (0 <=? newF)%Z && negb (P =? 0) && negb (T =? 0) && (length cz' =? Z.to_nat newF * P * T)
      | SliceStep by_ => negb (by_ =? 0)%Z
      | SelectFrames ix => forallb (fun i => (- Z.of_nat F <=? i)%Z && (i <? Z.of_nat F)%Z) ix
      | DropoutUniform sel | DropoutNormal sel => forallb (fun i => i <? F) sel
      | Flip axis => (- Z.of_nat D <=? axis)%Z && (axis <? Z.of_nat D)%Z
      | Augment2d _ => 2 <=? D
      | Normalize i1 i2 => (i1 <? T) && (i2 <? T)
      | NormalizeDistribution pp zs => length zs =? (if pp then T * D else D)
      | Focus => negb (F * P * T =? 0) && (2 <=? D)
                 && ex_lt F (fun f => ex_lt P (fun p => ex_lt T (fun t => negb (get3 (s_cz st) f p t))))
      | Copy => true
      | ToTorch lay => lay
      | ToTensorflow => true
      end
  | Err _ => false
  end.
