(* C15 - execution instances and wire format of the spatial model.  Definitions only.
   request  (op dtype body args...)   dtype 0 = binary64 arithmetic, 1 = binary32 arithmetic
     body = ((F P N D) data mask conf)   data: binary64 words, row-major (F,P,N,D); mask: 0/1 per element;
                                         conf: binary64 words (F,P,N)
     op 1 flip      (1 dtype body axis)
     op 2 matmul    (2 dtype body R K (row-major words))
     op 3 augment2d (3 dtype body (rotation_std shear_std scale_std) (g_shear cos sin g_scale))
     op 4 focus     (4 dtype body)                       -> (1 (body (w h d)))
     op 5 bbox      (5 dtype body (n_1 ... n_C))
     op 6 bbox header (6 ((name format) ...))            -> ((name format points limbs colors) ...)
        (the limb colour is the regenerated constant handed to [dispatch_with] by extract/X_c15.v)
   reply (1 payload) | (0 code) *)
From Coq Require Import ZArith List Bool PrimFloat SpecFloat FloatOps.
Require Import Result Tree Num F32 C15_Spatial.
Import ListNotations.
Local Open Scope nat_scope.

(* binary32 arithmetic on binary64 carriers: round every result to binary32 (double rounding is innocuous for
   + - * / sqrt since 53 >= 2*24+2) *)
Definition r32 (f : float) : float := SF2Prim (round32 (Prim2SF f)).
(* float literals directly inside a record whose carrier is a field are extracted without the coercion and do not
   type-check in OCaml: the two constants are named.  [F64_ops] is field for field [Num.F_ops]
   (lemma F64_ops_is_F_ops in proofs/C15_GenTie.v). *)
Definition f_zero : float := 0%float.
Definition f_one : float := 1%float.
Definition F64_ops : ops :=
  {| T := float; zero := f_zero; one := f_one; add := PrimFloat.add; sub := PrimFloat.sub; mul := PrimFloat.mul;
     div := PrimFloat.div; opp := PrimFloat.opp; sqrt := PrimFloat.sqrt; abs := PrimFloat.abs;
     leb := PrimFloat.leb; ltb := PrimFloat.ltb; eqb := PrimFloat.eqb; of_Z := f_of_Z |}.
Definition F32_ops : ops :=
  {| T := float; zero := f_zero; one := f_one;
     add := fun a b => r32 (PrimFloat.add a b); sub := fun a b => r32 (PrimFloat.sub a b);
     mul := fun a b => r32 (PrimFloat.mul a b); div := fun a b => r32 (PrimFloat.div a b);
     opp := PrimFloat.opp; sqrt := fun a => r32 (PrimFloat.sqrt a); abs := PrimFloat.abs;
     leb := PrimFloat.leb; ltb := PrimFloat.ltb; eqb := PrimFloat.eqb; of_Z := fun z => r32 (f_of_Z z) |}.
(* math.ceil *)
Definition F_ceil (f : float) : option Z := sf_ceil (Prim2SF f).

Fixpoint chunks {A} (count n : nat) (l : list A) : list (list A) :=
  match count with 0%nat => [] | S c => firstn n l :: chunks c n (skipn n l) end.

Section Run.
Variable O : ops.
Variable dec : Z -> T O.
Variable enc : T O -> Z.
Variable ceilZ : T O -> option Z.

Definition t_vals (t : tree) : list (T O) := map (fun x => dec (t_z x)) (t_list t).
Definition t_body (t : tree) : (nat * nat * nat * nat) * frames O :=
  let sh := t_nats (t_nth 0 t) in
  let F := nth 0 sh 0 in let P := nth 1 sh 0 in let N := nth 2 sh 0 in let D := nth 3 sh 0 in
  let cells := combine (t_vals (t_nth 1 t)) (t_bools (t_nth 2 t)) in
  (* the body under test is built by NumPyPoseBody.__init__ from (data, optional mask, confidence) *)
  let pts := map (fun pc => reinit O (mkP (fst pc) (snd pc))) (combine (chunks (F * P * N) D cells) (t_vals (t_nth 3 t))) in
  ((F, P, N, D), chunks F P (chunks (F * P) N pts)).
Definition of_body (sh : nat * nat * nat * nat) (b : frames O) : tree :=
  let '(F, P, N, D) := sh in
  let pts := concat (concat b) in
  let cells := flat_map (@pcs O) pts in
  Nd [of_nats [F; P; N; D]; Nd (map (fun c => L (enc (fst c))) cells); of_bools (map snd cells);
      Nd (map (fun p => L (enc (pc p))) pts)].

Definition t_hcomp (t : tree) : hcomp := mkH (t_zs (t_nth 0 t)) (t_zs (t_nth 1 t)) [] [] [].
Definition of_hcomp (c : hcomp) : tree :=
  Nd [of_zs (hc_name c); of_zs (hc_format c); Nd (map of_zs (hc_points c));
      Nd (map (fun l => of_zs [fst l; snd l]) (hc_limbs c));
      Nd (map (fun k => of_zs [fst (fst k); snd (fst k); snd k]) (hc_colors c))].
Definition run (t : tree) : tree :=
  let op := t_z (t_nth 0 t) in
  let '(sh, b) := t_body (t_nth 2 t) in
  let '(F, P, N, D) := sh in
  if (op =? 1)%Z then of_result (of_body sh) (flip O D (t_z (t_nth 3 t)) b)
  else if (op =? 2)%Z then
    let R := t_nat (t_nth 3 t) in let K := t_nat (t_nth 4 t) in
    of_result (of_body (F, P, N, K)) (matmul O D R K (chunks R K (t_vals (t_nth 5 t))) b)
  else if (op =? 3)%Z then
    let s := t_vals (t_nth 3 t) in let g := t_vals (t_nth 4 t) in
    let z := zero O in
    of_result (of_body sh) (augment2d O D (nth 0 s z) (nth 1 s z) (nth 2 s z)
                                      (mkD (nth 0 g z) (nth 1 g z) (nth 2 g z) (nth 3 g z)) b)
  else if (op =? 4)%Z then
    of_result (fun r => Nd [of_body sh (fst r); of_zs [fst (fst (snd r)); snd (fst (snd r)); snd (snd r)]])
              (focus O ceilZ D b)
  else if (op =? 5)%Z then
    let ns := t_nats (t_nth 3 t) in
    of_result (of_body (F, P, 2 * length ns, D)) (bbox O D N ns b)
  else Nd [L 0; L (-1)].
End Run.

Definition dispatch_with (colors : list (Z * Z * Z)) (t : tree) : tree :=
  let op := t_z (t_nth 0 t) in
  if (op =? 6)%Z then Nd [L 1; Nd (map of_hcomp (bbox_header colors (map t_hcomp (t_list (t_nth 1 t)))))]
  else if (t_z (t_nth 1 t) =? 1)%Z then run F32_ops float_of_bits bits_of_float F_ceil t
  else run F64_ops float_of_bits bits_of_float F_ceil t.
