(* Legacy body decoders of Pose.read: v0.1 (pose_body.py:149-205) and v0.0 (numpy/pose_body.py:55-138),
   as programs over the reader interface of base/Prog.v, plugged into PoseRead.read_body_with.
   Transcribed from the source with the repairs
     F4i   read_v0_1 asks reader.bytes_remaining() (bytes up to the end of the data source) instead of
           bytes_left() (which on a BytesIOReader counts only the bytes fetched so far);
     F4iii read_v0_0 masks a point when its confidence == 0 (the constructor's rule), not when not (> 0);
     F4v   a v0.0 file without frames is the empty pose;
     F4ii  both decoders take start_frame / end_frame / start_time / end_time: a frame and a time bound for the same
           end raise ValueError before anything is read, a time bound becomes a frame bound by the expressions of
           read_v0_2 (floor / ceil of t / 1000 * fps), read_v0_1 hands the bounds to read_v0_1_frames, read_v0_0
           (frames have no fixed size) refuses a start at or beyond the declared frame count, decodes every frame
           and keeps the slice.
   Definitions only. *)
From Coq Require Import ZArith NArith List Bool SpecFloat.
Require Import ListN Result Bytes Utf8 Utf8S F32 Prog Codec PoseRead.
Import ListNotations.
Open Scope N_scope.

(* ---------- Python numbers ---------- *)
(* an int as an (unbounded-mantissa) spec_float: int / int is computed from the integers themselves *)
Definition sf_of_int (z : Z) : spec_float :=
  match z with Z0 => S754_zero false | Zpos p => S754_finite false p 0 | Zneg p => S754_finite true p 0 end.
(* int(x) of a float: truncation toward zero; OverflowError / ValueError on inf / nan *)
Definition sf_trunc (x : spec_float) : option Z :=
  match x with
  | S754_zero _ => Some 0%Z
  | S754_finite s m e =>
      let a := match e with
               | Z0 => Z.pos m
               | Zpos p => (Z.pos m * Z.pow_pos 2 p)%Z
               | Zneg p => (Z.pos m / Z.pow_pos 2 p)%Z
               end in
      Some (if s then (- a)%Z else a)
  | _ => None
  end.
(* int(a / b) for Python ints a, b: true division (correctly rounded binary64 quotient of the two integers,
   ZeroDivisionError for b = 0, OverflowError when the quotient exceeds the double range), then int()
   -- pose_body.py:184 *)
Definition py_int_truediv (a b : Z) : result Z :=
  if (b =? 0)%Z then Err ZeroDiv else
  match sf_trunc (SFdiv 53 1024 (sf_of_int a) (sf_of_int b)) with
  | Some z => Ok z
  | None => Err Overflow
  end.
(* the float32 word of a Python int that fits 16 bits (fps of the legacy bodies is an unsigned short; it is
   observed, and written back by the v0.2 writer, as that number) *)
Definition f32_of_u16 (n : N) : N := b32_of_sf (binary_normalize 24 128 (Z.of_N n) 0 false).

(* ---------- window arguments (both decoders) ---------- *)
(* if <x>_time is not None: <x>_frame = math.floor / math.ceil (<x>_time / 1000 * fps): the expression of read_v0_2
   (Codec.time_to_frame); fps is the Python int of the 16-bit field here, so the product is the binary64 product
   with float(fps), which is that integer exactly (f32_of_u16 is exact on 16-bit values) *)
Definition bound_of (ceil : bool) (fps : N) (f t : option Z) : result (option Z) :=
  match t with Some ms => rmap Some (time_to_frame ceil ms fps) | None => Ok f end.

(* ---------- v0.1: pose_body.py:149-205 ---------- *)
Definition read_v0_1 (h : header) (sf st ef et : option Z) : prog body :=
  match sf, st with Some _, Some _ => Fail Value | _, _ =>          (* :183-184 both start_time and start_frame *)
  match ef, et with Some _, Some _ => Fail Value | _, _ =>          (* :185-186 both end_time and end_frame *)
  dop ff <- rd_u16x2;                                  (* fps, _frames = unpack(double_ushort) *)
  dop P <- rd_u16;                                     (* _people *)
  let T := total_points h in
  dop D <- plift (num_dims h);                         (* header.num_dims(): ValueError without components *)
  BytesLeft (fun left =>                               (* reader.bytes_remaining()  [F4i] *)
  (* _frames = int(left / (_people * _points * (_dims + 1) * 4)): the 16-bit field is ignored *)
  dop F <- plift (py_int_truediv left (Z.of_N P * Z.of_N T * (D + 1) * 4));
  let fps := f32_of_u16 (fst ff) in
  dop s <- plift (bound_of false fps sf st);           (* :197-198 *)
  dop e <- plift (bound_of true fps ef et);            (* :199-200 *)
  dop dat <- read_frames F (Z.of_N (P * T) * D) s e;
  dop cnf <- read_frames F (Z.of_N (P * T)) s e;
  plift (mk_body fps (Z.to_N (fst dat)) P T D (snd dat) (snd cnf)))
  end end.

(* ---------- v0.0: numpy/pose_body.py:55-138 ---------- *)
Fixpoint pmapM {A B} (f : A -> prog B) (l : list A) : prog (list B) :=
  match l with
  | [] => Ret []
  | x :: r => dop y <- f x; dop ys <- pmapM f r; Ret (y :: ys)
  end.
(* an (n, L) float array, row by row *)
Fixpoint rows (n L : nat) (ws : list N) : list (list N) :=
  match n with O => [] | S k => firstn L ws :: rows k L (skipn L ws) end.
(* one frame of the result: coordinates (points x dims, flat), confidences, mask of the masked array *)
Definition frame00 := (list N * list N * list bool)%type.
(* one component of one person: unpack_numpy(float, (len(points), len(format))); np.split(points, [-1], axis=1);
   np.column_stack of len(format) - 1 copies of the mask column raises for len(format) < 2 *)
Definition rd_comp00 (c : component) : prog (N * frame00) :=
  let n := lenN (c_points c) in
  let L := lenN (c_format c) in
  Block (4 * (n * L)) (fun b =>
    if L <? 2 then Fail Value else
    let rs := rows (N.to_nat n) (N.to_nat L) (words32 (N.to_nat (n * L)) b) in
    let conf := map (fun r => last r 0) rs in
    Ret (L, (flat_map (@removelast N) rs, conf, map is_zero32 conf))).   (* where(confidence != 0, 0, 1)  [F4iii] *)
Fixpoint all_eq (l : list N) : bool :=
  match l with a :: ((b :: _) as r) => (a =? b) && all_eq r | _ => true end.
(* one person: advance over the person id, read every component; only for pid == 0 are the parts
   concatenated (ma.concatenate raises when the components' coordinate counts differ) *)
Definition rd_person00 (comps : list component) (first : bool) : prog frame00 :=
  Adv 2 (
  dop cs <- pmapM rd_comp00 comps;
  if first then
    if all_eq (map fst cs) then
      Ret (flat_map (fun c => fst (fst (snd c))) cs, flat_map (fun c => snd (fst (snd c))) cs,
           flat_map (fun c => snd (snd c)) cs)
    else Fail Value
  else Ret ([], [], [])).
(* a frame without people: np.zeros((_points, _dims)), np.zeros(_points) (ValueError for _dims < 0) *)
Definition zeros_frame (T : N) (D : Z) : prog frame00 :=
  if (D <? 0)%Z then Fail Value else
  Ret (repeat 0 (N.to_nat (T * Z.to_N D)), repeat 0 (N.to_nat T), repeat false (N.to_nat T)).
Definition rd_frame00 (comps : list component) (T : N) (D : Z) : prog frame00 :=
  dop np <- rd_u16;                                   (* _people *)
  match N.to_nat np with
  | O => zeros_frame T D
  | S k => dop p0 <- rd_person00 comps true;
           dop rest <- prep k (rd_person00 comps false);
           Ret p0
  end.
(* a list slice l[lo : hi] with non-negative bounds (hi = None: to the end): Python clips both bounds to len(l) *)
Definition slice_list {X} (lo : Z) (hi : option Z) (l : list X) : list X :=
  let d := dropN (Z.to_N lo) l in
  match hi with None => d | Some z => takeN (Z.to_N z - Z.to_N lo) d end.
Definition read_v0_0 (h : header) (sf st ef et : option Z) : prog body :=
  match sf, st with Some _, Some _ => Fail Value | _, _ =>          (* :83-84 both start_time and start_frame *)
  match ef, et with Some _, Some _ => Fail Value | _, _ =>          (* :85-86 both end_time and end_frame *)
  dop ff <- rd_u16x2;                                  (* fps, _frames *)
  let fps := f32_of_u16 (fst ff) in
  dop s <- plift (bound_of false fps sf st);           (* :90-91 *)
  dop e <- plift (bound_of true fps ef et);            (* :92-93 *)
  (* :94-95 start_frame is not None and start_frame > 0 and start_frame >= _frames (the 16-bit field): ValueError *)
  if (match s with Some z => (0 <? z)%Z && (Z.of_N (snd ff) <=? z)%Z | None => false end) then Fail Value else
  (* :96 window = slice(max(start_frame or 0, 0), None if end_frame is None else max(end_frame, 0)) *)
  let lo := Z.max (match s with Some z => z | None => 0%Z end) 0 in
  let hi := match e with Some z => Some (Z.max z 0) | None => None end in
  dop D <- plift (num_dims h);                         (* max(len(c.format)) - 1: ValueError without components *)
  let T := total_points h in
  dop frames <- prep (N.to_nat (snd ff)) (rd_frame00 (h_comps h) T D);   (* every frame is decoded *)
  let kept := slice_list lo hi frames in               (* :133 frames_d[window], frames_c[window] *)
  (* no frames (in the file or in the window): np.zeros((0, 1, _points, _dims)), np.zeros((0, 1, _points)) (ValueError
     for _dims < 0) - the same empty arrays the general case below produces.
     NumPyPoseBody.__init__: the masked array is an ndarray, so mask = confidence == 0 is stacked
     data.shape[-1] times (raises for 0) and combined (or) with the array's own mask *)
  if (D <=? 0)%Z then Fail Value else
  let conf := flat_map (fun f => snd (fst f)) kept in
  Ret {| b_fps := fps;
         b_shape := [lenN kept; 1; T; Z.to_N D];
         b_data := flat_map (fun f => fst (fst f)) kept;
         b_conf := conf;
         b_mask := map (fun mc => orb (fst mc) (is_zero32 (snd mc))) (combine (flat_map (fun f => snd f) kept) conf) |}
  end end.

(* the hook of PoseRead.read_body_with: Pose.read passes its four window arguments on as keyword arguments *)
Definition c04_legacy (v : vclass) (h : header) (a : rargs) : prog body :=
  match v with
  | V00 => read_v0_0 h (a_sf a) (a_st a) (a_ef a) (a_et a)
  | V01 => read_v0_1 h (a_sf a) (a_st a) (a_ef a) (a_et a)
  | _ => Fail NotImplemented
  end.

(* ---------- BytesIOReader with bytes_remaining() [F4i] ----------
   The stream interpreter of base/Prog.v answers BytesLeft with bytes_left() (fetched bytes only).  The
   repaired read_v0_1 asks bytes_remaining() = reader.seek(0, 2) - read_offset, so the legacy checks run the
   same interpreter with that one case changed; on programs without BytesLeft the two coincide
   (C04_Stream.run_stream4_noBL). *)
Fixpoint run_stream4 {A} (file : bytes) (p : prog A) (r : sreader) : result (A * sreader) :=
  match p with
  | Ret a => Ok (a, r)
  | Fail e => Err e
  | Block n k =>
      match expect file n r with
      | Err e => Err e
      | Ok r1 =>
        let i := off r1 - skipped r1 in
        if i + n <=? lenN (buf r1)
        then run_stream4 file (k (takeN n (dropN i (buf r1))))
               {| buf := buf r1; off := off r1 + n; skipped := skipped r1; pulled := pulled r1 |}
        else Err StructError
      end
  | Skip n k => run_stream4 file k (sskip n r)
  | Adv n k => run_stream4 file k {| buf := buf r; off := off r + n; skipped := skipped r; pulled := pulled r |}
  | BytesLeft k => run_stream4 file (k (Z.of_N (lenN file) - Z.of_N (off r))%Z) r
  end.

Section WithLegacy.
Variable legacy : vclass -> header -> rargs -> prog body.
(* Pose.read on a seekable stream positioned at 0 (pose.py:52-63), as PoseRead.read_stream with run_stream4 *)
Definition read_stream4 (m : option memo) (file : bytes) (a : rargs) : result pose * option memo * N :=
  if negb (any_arg a) then
    let '(r, m') := read_bytes legacy m file a in (r, m', lenN file)
  else
    let r0 := {| buf := []; off := 0; skipped := 0; pulled := 0 |} in
    match expect file (prefetch_len m) r0 with
    | Err e => (Err e, m, 0)
    | Ok r1 =>
      match check_cache m (buf r1) with
      | Some c =>
          let r2 := {| buf := buf r1; off := m_end c; skipped := skipped r1; pulled := pulled r1 |} in
          match run_stream4 file (read_body legacy (m_header c) a) r2 with
          | Ok (b, r3) => (Ok {| p_header := m_header c; p_body := b |}, m, pulled r3)
          | Err e => (Err e, m, 0)
          end
      | None =>
          match run_stream4 file rd_header r1 with
          | Err e => (Err e, m, 0)
          | Ok (h, r2) =>
              let m' := Some {| m_start := 0; m_end := off r2; m_slice := py_slice 0 (off r2) (buf r2); m_header := h |} in
              match run_stream4 file (read_body legacy h a) r2 with
              | Ok (b, r3) => (Ok {| p_header := h; p_body := b |}, m', pulled r3)
              | Err e => (Err e, m', 0)
              end
          end
      end
    end.
End WithLegacy.
