(* C13 - reference point lookup by pose format (utils/generic.py:28-54 detect_known_pose_format,
   :115-130 pose_shoulders, :149-151 pose_normalization_info, :154-169 hands_components,
   :172-184 normalize_component_3d; pose_header.py:377-421 _get_point_index / normalization_info).
   Definitions only.  The name tables below are literals; coq/gen/Gen_C13.v regenerates them from the
   source on every run and proofs/C13_GenTie.v proves them equal. *)
From Coq Require Import List String Ascii NArith Bool Arith.
Require Import Result.
Import ListNotations.
Open Scope string_scope.

Definition name := list N.                                   (* code points *)
Definition of_string (s : string) : name := map N_of_ascii (list_ascii_of_string s).
Fixpoint name_eqb (a b : name) : bool :=
  match a, b with
  | [], [] => true
  | x :: a', y :: b' => N.eqb x y && name_eqb a' b'
  | _, _ => false
  end.
Definition mem (n : name) (l : list name) : bool := existsb (name_eqb n) l.
(* tables are written as strings and converted at definition time ([Eval compute]), so that the extracted
   model contains code point lists only *)
Definition n2 (x : string * string) : name * name := (of_string (fst x), of_string (snd x)).
Definition n3 (x : string * string * string) : name * name * name :=
  (of_string (fst (fst x)), of_string (snd (fst x)), of_string (snd x)).
Record hcomp := { hc_name : name; hc_points : list name }.

(* ---- tables (tied to the source by C13_GenTie) ---- *)
Definition mediapipe_components : list name := Eval compute in map of_string
  ["POSE_LANDMARKS"; "FACE_LANDMARKS"; "LEFT_HAND_LANDMARKS"; "RIGHT_HAND_LANDMARKS"; "POSE_WORLD_LANDMARKS"].
Definition openpose_components : list name := Eval compute in map of_string
  ["pose_keypoints_2d"; "face_keypoints_2d"; "hand_left_keypoints_2d"; "hand_right_keypoints_2d"].
Definition openpose_135_components : list name := Eval compute in map of_string ["BODY_135"].
Inductive fmt := Holistic | OpenPose | OpenPose135.
Definition fmt_name (f : fmt) : string :=
  match f with Holistic => "holistic" | OpenPose => "openpose" | OpenPose135 => "openpose_135" end.
(* the order in which detect_known_pose_format tests one component name *)
Definition detect_order : list (string * fmt) :=
  [("mediapipe_components", Holistic); ("openpose_components", OpenPose); ("openpose_135_components", OpenPose135)].
(* pose_shoulders: format -> ((component, point), (component, point)) *)
Definition shoulders_s (f : fmt) : (string * string) * (string * string) :=
  match f with
  | Holistic => (("POSE_LANDMARKS", "RIGHT_SHOULDER"), ("POSE_LANDMARKS", "LEFT_SHOULDER"))
  | OpenPose135 => (("BODY_135", "RShoulder"), ("BODY_135", "LShoulder"))
  | OpenPose => (("pose_keypoints_2d", "RShoulder"), ("pose_keypoints_2d", "LShoulder"))
  end.
Definition shoulders (f : fmt) : (name * name) * (name * name) := Eval compute in
  match f with
  | Holistic => (n2 (fst (shoulders_s Holistic)), n2 (snd (shoulders_s Holistic)))
  | OpenPose => (n2 (fst (shoulders_s OpenPose)), n2 (snd (shoulders_s OpenPose)))
  | OpenPose135 => (n2 (fst (shoulders_s OpenPose135)), n2 (snd (shoulders_s OpenPose135)))
  end.
(* hands_components: format -> ((left, right) components, plane point names, line point names) *)
Definition hands_s (f : fmt) : option ((string * string) * (string * string * string) * (string * string)) :=
  match f with
  | Holistic => Some (("LEFT_HAND_LANDMARKS", "RIGHT_HAND_LANDMARKS"),
                      ("WRIST", "PINKY_MCP", "INDEX_FINGER_MCP"), ("WRIST", "MIDDLE_FINGER_MCP"))
  | OpenPose => Some (("hand_left_keypoints_2d", "hand_right_keypoints_2d"), ("BASE", "P_CMC", "I_CMC"), ("BASE", "M_CMC"))
  | OpenPose135 => None
  end.
Definition conv_hands (o : option ((string * string) * (string * string * string) * (string * string)))
  : result ((name * name) * (name * name * name) * (name * name)) :=
  match o with
  | Some (lr, plane, line) => Ok (n2 lr, n3 plane, n2 line)
  | None => Err NotImplemented
  end.
Definition hands (f : fmt) : result ((name * name) * (name * name * name) * (name * name)) := Eval compute in
  match f with
  | Holistic => conv_hands (hands_s Holistic)
  | OpenPose => conv_hands (hands_s OpenPose)
  | OpenPose135 => conv_hands (hands_s OpenPose135)
  end.

(* ---- detect_known_pose_format (generic.py:28-54): first component whose name is in one of the lists ---- *)
Definition classify (n : name) : option fmt :=
  if mem n mediapipe_components then Some Holistic
  else if mem n openpose_components then Some OpenPose
  else if mem n openpose_135_components then Some OpenPose135
  else None.
Fixpoint detect (names : list name) : result fmt :=
  match names with
  | [] => Err Value
  | n :: r => match classify n with Some f => Ok f | None => detect r end
  end.
(* list.index *)
Fixpoint index_of (p : name) (l : list name) : option nat :=
  match l with
  | [] => None
  | x :: r => if name_eqb x p then Some 0 else option_map S (index_of p r)
  end.
(* PoseHeader._get_point_index (pose_header.py:377-386) *)
Fixpoint get_point_index (h : list hcomp) (c p : name) (idx : nat) : result nat :=
  match h with
  | [] => Err Value
  | x :: r =>
      if name_eqb (hc_name x) c then
        match index_of p (hc_points x) with Some k => Ok (idx + k) | None => Err Value end
      else get_point_index r c p (idx + List.length (hc_points x))
  end.
Definition gpi (h : list hcomp) (cp : name * name) : result nat :=
  get_point_index h (fst cp) (snd cp) 0.
(* pose_normalization_info (generic.py:149-151) *)
Definition pose_normalization_info (h : list hcomp) : result (nat * nat) :=
  do f <- detect (map hc_name h);
  let s := shoulders f in
  do i <- gpi h (fst s);
  do j <- gpi h (snd s);
  Ok (i, j).
(* normalize_hands_3d / normalize_component_3d (generic.py:172-197): indices are looked up in the header of
   pose.get_components([component]) - the components of that name only *)
Definition component_3d_info (h : list hcomp) (cname : name) (plane : name * name * name) (line : name * name)
  : result ((nat * nat * nat) * (nat * nat)) :=
  let sub := filter (fun c => name_eqb (hc_name c) cname) h in
  do a <- gpi sub (cname, fst (fst plane));
  do b <- gpi sub (cname, snd (fst plane));
  do c <- gpi sub (cname, snd plane);
  do d <- gpi sub (cname, fst line);
  do e <- gpi sub (cname, snd line);
  Ok ((a, b, c), (d, e)).
Definition hands_3d_info (h : list hcomp) : result (((nat * nat * nat) * (nat * nat)) * ((nat * nat * nat) * (nat * nat))) :=
  do f <- detect (map hc_name h);
  do t <- hands f;
  let '(lr, plane, line) := t in
  do l <- component_3d_info h (fst lr) plane line;
  do r <- component_3d_info h (snd lr) plane line;
  Ok (l, r).
(* flat list of (component name, point name) in body order: what a point index refers to *)
Definition flat_points (h : list hcomp) : list (name * name) :=
  flat_map (fun c => map (fun p => (hc_name c, p)) (hc_points c)) h.
