(* C08 - wire format and dispatch of the extracted runner.
   request  (cfg file rargs (op ...))
   reply    ((read_np read_torch read_tf) (conv_torch conv_tf) ((op_np op_torch op_tf) ...))
   every entry a result; ops are applied to the body read by the same backend. *)
From Coq Require Import ZArith NArith List Bool SpecFloat.
Require Import ListN Result Tree Bytes F32 Prog Codec C08_Body C08_Read.
Import ListNotations.
Local Open Scope nat_scope.

Definition t_optz (t : tree) : option Z := match t_opt t with Some x => Some (t_z x) | None => None end.
Definition t_rargs (t : tree) : rargs :=
  {| a_sf := t_optz (t_nth 0 t); a_st := t_optz (t_nth 1 t); a_ef := t_optz (t_nth 2 t); a_et := t_optz (t_nth 3 t) |}.
Definition t_vrule (t : tree) : vrule := if (t_z t =? 0)%Z then NeZero else GtZero.
Definition t_zf (t : tree) : zfkind := if (t_z t =? 0)%Z then ZfWhere else ZfMul.
Definition t_cfg (t : tree) : cfg :=
  {| np_axis := if (t_z (t_nth 0 t) =? 0)%Z then AxLast else Ax3;
     torch_rule := t_vrule (t_nth 1 t); tf_rule := t_vrule (t_nth 2 t);
     tf_stack := if (t_z (t_nth 3 t) <? 0)%Z then LastDim else Times (t_nat (t_nth 3 t));
     torch_zf := t_zf (t_nth 4 t); tf_zf := t_zf (t_nth 5 t);
     torch_mm := if (t_z (t_nth 6 t) =? 0)%Z then MmKeep else MmAllExpand;
     tf_mm := if (t_z (t_nth 7 t) =? 0)%Z then MmKeep else MmAllExpand;
     tf_empty_ok := t_bool (t_nth 8 t) |}.
Definition of_t2 {X} (f : X -> tree) (v : t2 X) : list tree := map f (concat v).
Definition of_t3 {X} (f : X -> tree) (v : t3 X) : list tree := map f (concat (concat v)).
Definition of_t4 {X} (f : X -> tree) (v : t4 X) : list tree := map f (concat (concat (concat v))).
Definition of_gobs {V M C} (fv : V -> list tree) (fm : M -> list tree) (fc : C -> list tree) (o : gobs V M C) : tree :=
  Nd [of_n (o_fps o); of_nats (o_shape o); Nd (fv (o_val o));
      match o_valid o with Some (ms, m) => Nd [of_nats ms; Nd (fm m)] | None => Nd [] end;
      of_nats (o_cshape o); Nd (fc (o_conf o))].
Definition of_obs : obs -> tree := of_gobs (of_t4 of_n) (of_t4 of_bool) (of_t3 of_n).
Definition of_fobs : fobs -> tree := of_gobs (of_t3 of_n) (of_t3 of_bool) (of_t2 of_n).
Definition of_frow (r : frow) : tree :=
  let '(f, p, t, cw, pt) := r in Nd [of_nat f; of_nat p; of_nat t; of_n cw; of_ns pt].
Definition of_flat (x : N * list frow) : tree := Nd [of_n (fst x); Nd (map of_frow (snd x))].

(* float32 dot product, products accumulated left to right from +0.0 (the executable instance of the kernel) *)
Definition mul32 (a b : N) : N := b32_of_sf (SFmul 24 128 (sf_of_b32 a) (sf_of_b32 b)).
Definition add32 (a b : N) : N := b32_of_sf (SFadd 24 128 (sf_of_b32 a) (sf_of_b32 b)).
Definition dot32 (v w : list N) : N := fold_left (fun acc xy => add32 acc (mul32 (fst xy) (snd xy))) (combine v w) 0%N.

Definition t_pyslice (t : tree) : pyslice :=
  {| s_start := t_optz (t_nth 1 t); s_stop := t_optz (t_nth 2 t); s_step := t_optz (t_nth 3 t) |}.
Definition t_matrix (t : tree) : matrix :=
  {| m_rows := t_nat (t_nth 1 t); m_cols := t_nat (t_nth 2 t); m_el := map t_ns (t_list (t_nth 3 t)) |}.
Definition run_op (c : cfg) (b : bk) (op : tree) (x : body) : tree :=
  let k := t_z (t_nth 0 op) in
  let ob r := of_result of_obs (rmap (observe b) r) in
  if (k =? 0)%Z then ob (get_points c b (t_zs (t_nth 1 op)) x)
  else if (k =? 1)%Z then ob (select_frames c b (t_zs (t_nth 1 op)) x)
  else if (k =? 2)%Z then of_result of_fobs (rmap (observe3 b) (getitem_int c b (t_z (t_nth 1 op)) x))
  else if (k =? 3)%Z then ob (getitem_slice c b (t_pyslice op) x)
  else if (k =? 4)%Z then ob (slice_step c b (t_z (t_nth 1 op)) x)
  else if (k =? 5)%Z then ob (matmul dot32 c b (t_matrix op) x)
  else if (k =? 6)%Z then ob (zero_filled c b x)
  else if (k =? 7)%Z then ob (copy c b x)
  else if (k =? 8)%Z then of_result of_flat (flatten b x)
  else Nd [L 0; L (-1)].
Definition dispatch (t : tree) : tree :=
  let c := t_cfg (t_nth 0 t) in
  let file := t_ns (t_nth 1 t) in
  let a := t_rargs (t_nth 2 t) in
  let ops := t_list (t_nth 3 t) in
  let rd b := read_body c b file a in
  let ob b r := of_result of_obs (rmap (observe b) r) in
  let on b op := match rd b with Ok x => run_op c b op x | Err e => Nd [L 0; of_nat (err_code e)] end in
  Nd [ Nd [ob Np (rd Np); ob Torch (rd Torch); ob Tf (rd Tf)];
       Nd [ob Torch (read_convert c Torch file a); ob Tf (read_convert c Tf file a)];
       Nd (map (fun op => Nd [on Np op; on Torch op; on Tf op]) ops) ].
