(* Tree (wire) encodings of the codec model's types, and the dispatch used by the byte-layer checks. *)
From Coq Require Import ZArith NArith List Bool.
Require Import ListN Result Tree Bytes Prog Codec.
Import ListNotations.

Definition t_str (t : tree) : str := t_ns t.
Definition t_pairZ (t : tree) : Z * Z := (t_z (t_nth 0 t), t_z (t_nth 1 t)).
Definition t_tripleZ (t : tree) : Z * Z * Z := (t_z (t_nth 0 t), t_z (t_nth 1 t), t_z (t_nth 2 t)).
Definition t_wcomponent (t : tree) : wcomponent :=
  {| wc_name := t_str (t_nth 0 t); wc_format := t_str (t_nth 1 t);
     wc_points := map t_str (t_list (t_nth 2 t));
     wc_limbs := map t_pairZ (t_list (t_nth 3 t));
     wc_colors := map t_tripleZ (t_list (t_nth 4 t)) |}.
Definition t_wpose (t : tree) : wpose :=
  {| w_dims := t_tripleZ (t_nth 0 t);
     w_comps := map t_wcomponent (t_list (t_nth 1 t));
     w_fps := t_n (t_nth 2 t);
     w_shape := t_ns (t_nth 3 t);
     w_data := t_ns (t_nth 4 t);
     w_cshape := t_ns (t_nth 5 t);
     w_conf := t_ns (t_nth 6 t) |}.
Definition t_optz (t : tree) : option Z := match t_opt t with Some x => Some (t_z x) | None => None end.
Definition t_rargs (t : tree) : rargs :=
  {| a_sf := t_optz (t_nth 0 t); a_st := t_optz (t_nth 1 t); a_ef := t_optz (t_nth 2 t); a_et := t_optz (t_nth 3 t) |}.

Definition of_component (c : component) : tree :=
  Nd [of_ns (c_name c); of_ns (c_format c); Nd (map of_ns (c_points c));
      Nd (map (fun l => Nd [of_n (fst l); of_n (snd l)]) (c_limbs c));
      Nd (map (fun k => Nd [of_n (fst (fst k)); of_n (snd (fst k)); of_n (snd k)]) (c_colors c))].
Definition of_header (h : header) : tree :=
  let '(w, hh, d) := h_dims h in
  Nd [of_n (h_version h); Nd [of_n w; of_n hh; of_n d]; Nd (map of_component (h_comps h))].
Definition of_body (b : body) : tree :=
  Nd [of_n (b_fps b); of_ns (b_shape b); of_ns (b_data b); of_ns (b_conf b); of_bools (b_mask b)].
Definition of_pose (p : pose) : tree := Nd [of_header (p_header p); of_body (p_body p)].
