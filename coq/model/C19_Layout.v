(* C19 - the tables of C19_Tables.v with every string as its list of code points (what the executable model and
   the runner use; Coq's [string] type must not reach the extracted code because runner/driver.ml opens Model). *)
From Coq Require Import String Ascii List Arith NArith.
Require Import C19_Tables.
Import ListNotations.

Definition key := list N.
Definition key_of_string (s : string) : key := map N_of_ascii (list_ascii_of_string s).
Definition comp := (key * list key * list (nat * nat) * key)%type.
Definition c_name (c : comp) : key := let '(n, _, _, _) := c in n.
Definition c_points (c : comp) : list key := let '(_, p, _, _) := c in p.
Definition c_limbs (c : comp) : list (nat * nat) := let '(_, _, l, _) := c in l.
Definition c_format (c : comp) : key := let '(_, _, _, f) := c in f.
Definition enc_comp (c : string * list string * list (nat * nat) * string) : comp :=
  let '(n, p, l, f) := c in (key_of_string n, map key_of_string p, l, key_of_string f).

Definition comps137 : list comp := Eval vm_compute in map enc_comp components_137.   (* openpose.py:202-215 *)
Definition comps135 : list comp := Eval vm_compute in map enc_comp components_135.   (* openpose_135.py:87-93 *)
Definition pattern_k : key := Eval vm_compute in key_of_string frame_pattern.        (* openpose.py:153 *)
