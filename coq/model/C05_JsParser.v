(* C05 - the JavaScript reader src/js/pose_format/src/parser.ts, as it runs against binary-parser 2.2.1
   (the subset re-implemented in /verif/js/binary_parser_shim.js).  Definitions only.

   JavaScript values are [value]s; a binary-parser Parser is a [schema] (a chain of field readers), [run] is
   Parser.parse.  The header / info schemas below are the literals the generated file coq/gen/Gen_C05.v must be
   equal to (proofs/C05_GenTie.v); everything else follows parser.ts statement by statement. *)
From Coq Require Import ZArith NArith List Bool String Ascii SpecFloat.
Require Import ListN Result Bytes Utf8 Utf8S F32 Codec.
Import ListNotations.
Open Scope N_scope.

(* ---------- JavaScript values ---------- *)
Definition key := list N.                          (* a property name: code points *)
Definition K (s : string) : key := map (fun a => N.of_nat (nat_of_ascii a)) (list_ascii_of_string s).
(* property names used below, as code-point lists (computed here so that Coq's [string] never reaches the extracted code) *)
Definition k_B : key := Eval vm_compute in K "B".
Definition k_C : key := Eval vm_compute in K "C".
Definition k_G : key := Eval vm_compute in K "G".
Definition k_R : key := Eval vm_compute in K "R".
Definition k__chars : key := Eval vm_compute in K "_chars".
Definition k__colors : key := Eval vm_compute in K "_colors".
Definition k__components : key := Eval vm_compute in K "_components".
Definition k__format : key := Eval vm_compute in K "_format".
Definition k__frames : key := Eval vm_compute in K "_frames".
Definition k__limbs : key := Eval vm_compute in K "_limbs".
Definition k__name : key := Eval vm_compute in K "_name".
Definition k__people : key := Eval vm_compute in K "_people".
Definition k__points : key := Eval vm_compute in K "_points".
Definition k_colors : key := Eval vm_compute in K "colors".
Definition k_components : key := Eval vm_compute in K "components".
Definition k_depth : key := Eval vm_compute in K "depth".
Definition k_format : key := Eval vm_compute in K "format".
Definition k_fps : key := Eval vm_compute in K "fps".
Definition k_frames : key := Eval vm_compute in K "frames".
Definition k_from : key := Eval vm_compute in K "from".
Definition k_headerLength : key := Eval vm_compute in K "headerLength".
Definition k_height : key := Eval vm_compute in K "height".
Definition k_id : key := Eval vm_compute in K "id".
Definition k_limbs : key := Eval vm_compute in K "limbs".
Definition k_name : key := Eval vm_compute in K "name".
Definition k_people : key := Eval vm_compute in K "people".
Definition k_points : key := Eval vm_compute in K "points".
Definition k_text : key := Eval vm_compute in K "text".
Definition k_to : key := Eval vm_compute in K "to".
Definition k_version : key := Eval vm_compute in K "version".
Definition k_width : key := Eval vm_compute in K "width".
Inductive value :=
| VNum (z : Z)                                     (* an integer-valued number (uint16/int16/uint32 field, offset) *)
| VF32 (w : N)                                     (* a number that is the widening of this float32 word *)
| VStr (s : list N)
| VArr (l : list value)
| VObj (o : list (key * value))                    (* own properties in insertion order *)
| VUndef.
Definition obj := list (key * value).
Fixpoint keq (a b : key) : bool :=
  match a, b with
  | [], [] => true
  | x :: a', y :: b' => (x =? y) && keq a' b'
  | _, _ => false
  end.
(* o[k] = v : an existing property keeps its place *)
Fixpoint obj_set (o : obj) (k : key) (v : value) : obj :=
  match o with
  | [] => [(k, v)]
  | (k', v') :: r => if keq k' k then (k', v) :: r else (k', v') :: obj_set r k v
  end.
Fixpoint obj_get (o : obj) (k : key) : option value :=
  match o with
  | [] => None
  | (k', v') :: r => if keq k' k then Some v' else obj_get r k
  end.
Definition get_num (o : obj) (k : key) : option Z := match obj_get o k with Some (VNum z) => Some z | _ => None end.

(* ---------- binary-parser ---------- *)
Inductive fkind := KU16 | KI16 | KU32 | KF32.      (* uint16 / int16 / uint32 / floatle *)
Inductive lenexp := LenVar (k : key) | LenConst (n : Z).   (* length: "name" of an earlier field | a number *)
Inductive fmt := FmtNone | FmtPluck (k : key).     (* formatter: none | arr => arr.map(item => item.k) *)
Inductive schema :=
| Done
| Fld (k : fkind) (name : key) (rest : schema)
| Str (name : key) (len : lenexp) (rest : schema)                       (* .string(name, {length}) , utf8 *)
| Arr (name : key) (elem : schema) (len : lenexp) (f : fmt) (rest : schema)   (* .array(name, {type, length, formatter}) *)
| Seek (n : N) (rest : schema)                                          (* .seek(n): relative *)
| SaveOffset (name : key) (rest : schema).
(* p.method(...) appends at the end of the chain p *)
Fixpoint sapp (a b : schema) : schema :=
  match a with
  | Done => b
  | Fld k n r => Fld k n (sapp r b)
  | Str n l r => Str n l (sapp r b)
  | Arr n e l f r => Arr n e l f (sapp r b)
  | Seek n r => Seek n (sapp r b)
  | SaveOffset n r => SaveOffset n (sapp r b)
  end.

Definition dec_i16_be (b : bytes) : Z := let u := Z.of_N (dec_u16_be b) in if (u <? 32768)%Z then u else (u - 65536)%Z.
(* DataView.getUint16/getInt16/getUint32/getFloat32(offset, little): RangeError when offset + size > byteLength *)
Definition rd_field (le : bool) (k : fkind) (buf : bytes) (off : N) : option (value * N) :=
  let sz := match k with KU16 | KI16 => 2 | KU32 | KF32 => 4 end in
  if off + sz <=? lenN buf then
    let b := dropN off buf in
    Some (match k with
          | KU16 => VNum (Z.of_N (if le then dec_u16 b else dec_u16_be b))
          | KI16 => VNum (if le then dec_i16 b else dec_i16_be b)
          | KU32 => VNum (Z.of_N (if le then dec_u32 b else dec_u32_be b))
          | KF32 => VF32 (dec_u32 b)                       (* floatle: always little-endian *)
          end, off + sz)
  else None.
Definition eval_len (vars : obj) (l : lenexp) : option N :=
  match l with
  | LenConst n => if (n <? 0)%Z then None else Some (Z.to_N n)
  | LenVar k => match get_num vars k with Some z => if (z <? 0)%Z then None else Some (Z.to_N z) | None => None end
  end.
(* new TextDecoder("utf8").decode(...): drops one leading U+FEFF.  (Invalid UTF-8 is replaced by U+FFFD in
   JavaScript; that is outside the files the property speaks about and [run] gives None there.) *)
Definition strip_bom (s : list N) : list N := match s with 65279 :: r => r | _ => s end.
Definition apply_fmt (f : fmt) (items : list obj) : value :=
  match f with
  | FmtNone => VArr (map VObj items)
  | FmtPluck k => VArr (map (fun it => match obj_get it k with Some v => v | None => VUndef end) items)
  end.
Fixpoint rep {A} (p : N -> option (A * N)) (n : nat) (off : N) : option (list A * N) :=
  match n with
  | O => Some ([], off)
  | S k => match p off with
           | None => None
           | Some (a, off1) => match rep p k off1 with None => None | Some (l, off2) => Some (a :: l, off2) end
           end
  end.
(* Parser.parse: variables object, buffer, offset *)
Fixpoint run (le : bool) (s : schema) (vars : obj) (buf : bytes) (off : N) {struct s} : option (obj * N) :=
  match s with
  | Done => Some (vars, off)
  | Fld k name rest =>
      match rd_field le k buf off with
      | None => None
      | Some (v, off') => run le rest (obj_set vars name v) buf off'
      end
  | Str name len rest =>
      match eval_len vars len with
      | None => None
      | Some n =>
          match dec_utf8 (takeN n (dropN off buf)) with          (* buffer.subarray(offset, offset + n): clipped *)
          | None => None
          | Some s => run le rest (obj_set vars name (VStr (strip_bom s))) buf (off + n)
          end
      end
  | Arr name elem len f rest =>
      match eval_len vars len with
      | None => None
      | Some n =>
          match rep (fun o => run le elem [] buf o) (N.to_nat n) off with
          | None => None
          | Some (items, off') => run le rest (obj_set vars name (apply_fmt f items)) buf off'
          end
      end
  | Seek n rest => run le rest vars buf (off + n)
  | SaveOffset name rest => run le rest (obj_set vars name (VNum (Z.of_N off))) buf off
  end.
Definition js_little : bool := true.               (* parser.ts:5-7 newParser(): endianess("little") *)
Definition parse (s : schema) (buf : bytes) : option obj :=
  match run js_little s [] buf 0 with Some (o, _) => Some o | None => None end.

(* ---------- parser.ts:9-61 the header parser ---------- *)
Definition limb_schema : schema := Fld KU16 k_from (Fld KU16 k_to Done).
Definition color_schema : schema := Fld KU16 k_R (Fld KU16 k_G (Fld KU16 k_B Done)).
Definition str_schema : schema := Fld KU16 k__chars (Str k_text (LenVar k__chars) Done).
Definition component_schema : schema :=
  Fld KU16 k__name (Str k_name (LenVar k__name)
  (Fld KU16 k__format (Str k_format (LenVar k__format)
  (Fld KU16 k__points (Fld KU16 k__limbs (Fld KU16 k__colors
  (Arr k_points str_schema (LenVar k__points) (FmtPluck k_text)
  (Arr k_limbs limb_schema (LenVar k__limbs) FmtNone
  (Arr k_colors color_schema (LenVar k__colors) FmtNone Done))))))))).
Definition header_schema : schema :=
  Fld KF32 k_version (Fld KU16 k_width (Fld KU16 k_height (Fld KU16 k_depth
  (Fld KU16 k__components
  (Arr k_components component_schema (LenVar k__components) FmtNone
  (SaveOffset k_headerLength Done)))))).

(* what the body parsers take from the parsed header *)
Record jcomp := { jc_name : key; jc_format : list N; jc_npoints : Z (* _points *); jc_plen : Z (* points.length *) }.
Definition arr_len (v : value) : option Z := match v with VArr l => Some (Z.of_nat (List.length l)) | _ => None end.
Definition jcomp_of (v : value) : option jcomp :=
  match v with
  | VObj o =>
      match obj_get o k_name, obj_get o k_format, get_num o k__points, obj_get o k_points with
      | Some (VStr n), Some (VStr f), Some np, Some pts =>
          match arr_len pts with Some pl => Some {| jc_name := n; jc_format := f; jc_npoints := np; jc_plen := pl |} | None => None end
      | _, _, _, _ => None
      end
  | _ => None
  end.
Fixpoint all_some {A} (l : list (option A)) : option (list A) :=
  match l with
  | [] => Some []
  | Some a :: r => match all_some r with Some l' => Some (a :: l') | None => None end
  | None :: _ => None
  end.
Definition header_comps (h : obj) : option (list jcomp) :=
  match obj_get h k_components with Some (VArr l) => all_some (map jcomp_of l) | _ => None end.

(* ---------- parser.ts:64-98 version 0.0 body ---------- *)
(* pointParser: newParser() then .floatle(c) for every c of Array.from(component.format) (code points) *)
Definition point_schema (format : list N) : schema := fold_right (fun c r => Fld KF32 [c] r) Done format.
(* personParser: .int16("id") then, per component, .array(component.name, {type: pointParser, length: component._points}) *)
Definition person_schema (comps : list jcomp) : schema :=
  Fld KI16 k_id
      (fold_right (fun c r => Arr (jc_name c) (point_schema (jc_format c)) (LenConst (jc_npoints c)) FmtNone r) Done comps).
Definition frame_schema (comps : list jcomp) : schema :=
  Fld KU16 k__people (Arr k_people (person_schema comps) (LenVar k__people) FmtNone Done).
Definition body_v00_schema (hl : N) (comps : list jcomp) : schema :=
  Seek hl (Fld KU16 k_fps (Fld KU16 k__frames
  (Arr k_frames (frame_schema comps) (LenVar k__frames) FmtNone Done))).

(* ---------- parser.ts:100-182 version 0.1 / 0.2 body ---------- *)
Definition info_v01_schema (hl : N) : schema :=
  Seek hl (Fld KU16 k_fps (Fld KU16 k__frames (Fld KU16 k__people Done))).
Definition info_v02_schema (hl : N) : schema :=
  Seek hl (Fld KF32 k_fps (Fld KU32 k__frames (Fld KU16 k__people Done))).
Definition info_size_v01 : Z := 6.
Definition info_size_v02 : Z := 10.
(* "abc".length counts UTF-16 code units *)
Definition utf16_len (s : list N) : Z := fold_right (fun (c : N) (a : Z) => ((if (c <? 65536)%N then 1 else 2) + a)%Z) 0%Z s.
(* _points = sum of c.points.length ; _dims = Math.max(...format lengths) - 1 (no component: -Infinity, [None]) *)
Definition js_points (comps : list jcomp) : Z := fold_right Z.add 0%Z (map jc_plen comps).
Definition js_dims (comps : list jcomp) : option Z :=
  match comps with
  | [] => None
  | c :: r => Some (fold_right Z.max (utf16_len (jc_format c)) (map (fun c => utf16_len (jc_format c)) r) - 1)%Z
  end.
(* the index expressions of parser.ts:138-156 *)
Definition js_data_len (frames people points dims : Z) : Z := (frames * people * points * dims)%Z.
Definition js_conf_len (frames people points : Z) : Z := (frames * people * points)%Z.
Definition js_data_start (header_length info_size : Z) : Z := (header_length + info_size)%Z.
Definition js_offset (i people points j : Z) : Z := (i * (people * points) + j * points)%Z.
Definition js_place (offset k l : Z) : Z := (offset + k + l)%Z.
Definition js_data_index (place dims dim_index : Z) : Z := (place * dims + dim_index)%Z.

(* parseFloat32Array(length, offset): new Float32Array(length) (RangeError for a negative length), then
   [length] reads dataView.getFloat32(currentOffset, true); returns the array and the end offset *)
Definition read_f32_array (buf : bytes) (length offset : Z) : option (list N * Z) :=
  if (length <? 0)%Z then None
  else if (length =? 0)%Z then Some ([], offset)
  else if (offset <? 0)%Z then None
  else if (offset + 4 * length <=? Z.of_N (lenN buf))%Z
       then Some (words32 (Z.to_nat length) (dropN (Z.to_N offset) buf), (offset + 4 * length)%Z)
       else None.
(* typedArray[index]: undefined outside 0 .. length-1 *)
Definition f32_at (a : list N) (idx : Z) : value :=
  if (idx <? 0)%Z then VUndef
  else match nth_error a (Z.to_nat idx) with Some w => VF32 w | None => VUndef end.
Fixpoint zrange (start : Z) (n : nat) : list Z := match n with O => [] | S k => start :: zrange (start + 1) k end.
Fixpoint enumerate {A} (i : Z) (l : list A) : list (A * Z) :=
  match l with [] => [] | x :: r => (x, i) :: enumerate (i + 1) r end.
(* frameRepresentation's coordinate counter (parser.ts, after fix F5): `let dimIndex = 0` before the loop over the format
   letters, `dimIndex++` inside the `dim !== "C"` branch only - the k-th coordinate letter reads the k-th coordinate *)
Fixpoint enum_coords (i : Z) (l : list N) : list (N * Z) :=
  match l with [] => [] | x :: r => (x, i) :: enum_coords (if (x =? 67)%N then i else (i + 1)%Z) r end.

Record jbody := { jb_info : obj; jb_frames : Z; jb_people : Z; jb_points : Z; jb_dims : Z;
                  jb_data : list N; jb_conf : list N }.
(* frameRepresentation(i).people[j][component.name][l] *)
Definition js_point (b : jbody) (format : list N) (i j k l : Z) : value :=
  let offset := js_offset i (jb_people b) (jb_points b) j in
  let place := js_place offset k l in
  VObj (fold_left (fun pt (dd : N * Z) =>
                     let '(dim, dim_index) := dd in
                     if dim =? 67 then pt                                   (* dim !== "C" *)
                     else obj_set pt [dim] (f32_at (jb_data b) (js_data_index place (jb_dims b) dim_index)))
                  (enum_coords 0 format)
                  [(k_C, f32_at (jb_conf b) place)]).
Definition js_person (comps : list jcomp) (b : jbody) (i j : Z) : value :=
  VObj (fst (fold_left (fun (acc : obj * Z) c =>
                          let '(person, k) := acc in
                          (obj_set person (jc_name c)
                                   (VArr (map (fun l => js_point b (jc_format c) i j k l) (zrange 0 (Z.to_nat (jc_plen c))))),
                           (k + jc_plen c)%Z))
                       comps ([], 0%Z))).
Definition js_frame_rep (comps : list jcomp) (b : jbody) (i : Z) : value :=
  VObj [(k_people, VArr (map (fun j => js_person comps b i j) (zrange 0 (Z.to_nat (jb_people b)))))].

Definition parse_body_v01 (h : obj) (comps : list jcomp) (buf : bytes) (v02 : bool) : option jbody :=
  match get_num h k_headerLength, js_dims comps with
  | Some hl, Some dims =>
      let points := js_points comps in
      let sch := if v02 then info_v02_schema (Z.to_N hl) else info_v01_schema (Z.to_N hl) in
      let info_size := if v02 then info_size_v02 else info_size_v01 in
      match parse sch buf with
      | None => None
      | Some info =>
          match get_num info k__frames, get_num info k__people with
          | Some frames, Some people =>
              match read_f32_array buf (js_data_len frames people points dims) (js_data_start hl info_size) with
              | None => None
              | Some (data, doff) =>
                  match read_f32_array buf (js_conf_len frames people points) doff with
                  | None => None
                  | Some (conf, _) =>
                      Some {| jb_info := info; jb_frames := frames; jb_people := people; jb_points := points; jb_dims := dims;
                              jb_data := data; jb_conf := conf |}
                  end
              end
          | _, _ => None
          end
      end
  | _, _ => None
  end.

(* ---------- parser.ts:184-206 parsePose ---------- *)
(* Math.round(x): floor(x + 1/2), exact *)
Definition sf_round_half_up (x : spec_float) : option Z :=
  match x with
  | S754_zero _ => Some 0%Z
  | S754_finite s m e =>
      let v := if s then Z.neg m else Z.pos m in
      Some (match e with
            | Z0 => v
            | Zpos p => (v * Z.pow_pos 2 p)%Z
            | Zneg p => ((2 * v + Z.pow_pos 2 p) / (2 * Z.pow_pos 2 p))%Z
            end)
  | _ => None
  end.
Definition sf_is (x : spec_float) (word64 : N) : bool :=
  match SFcompare x (sf_of_b64 word64) with Some Eq => true | _ => false end.
(* const version = Math.round(header.version * 1000) / 1000; switch (version) { case 0: case 0.1: case 0.2: default } *)
Definition js_version_class (w : N) : vclass :=
  let x := sf64_mul (sf_of_b64 (f32_to_f64 w)) (sf64_of_Z 1000) in
  match sf_round_half_up x with
  | None => VUnknown
  | Some r =>
      let v := sf64_div (sf64_of_Z r) (sf64_of_Z 1000) in
      if sf_is v 0 then V00
      else if sf_is v 4591870180066957722 then V01          (* 0.1 = 0x3FB999999999999A *)
      else if sf_is v 4596373779694328218 then V02          (* 0.2 = 0x3FC999999999999A *)
      else VUnknown
  end.

Record jpose := { jp_header : obj; jp_info : obj; jp_nframes : Z; jp_frame : Z -> value }.
Definition without (o : obj) (k : key) : obj := filter (fun kv => negb (keq (fst kv) k)) o.
Definition parse_pose (buf : bytes) : option jpose :=
  match parse header_schema buf with
  | None => None
  | Some h =>
      match obj_get h k_version, header_comps h, get_num h k_headerLength with
      | Some (VF32 w), Some comps, Some hl =>
          match js_version_class w with
          | V00 =>
              match parse (body_v00_schema (Z.to_N hl) comps) buf with
              | None => None
              | Some body =>
                  match obj_get body k_frames with
                  | Some (VArr frames) =>
                      Some {| jp_header := h; jp_info := without body k_frames;
                              jp_nframes := Z.of_nat (List.length frames);
                              jp_frame := fun i => if (i <? 0)%Z then VUndef else nth (Z.to_nat i) frames VUndef |}
                  | _ => None
                  end
              end
          | VUnknown => None
          | v =>
              match parse_body_v01 h comps buf (match v with V02 => true | _ => false end) with
              | None => None
              | Some b => Some {| jp_header := h; jp_info := jb_info b; jp_nframes := jb_frames b;
                                  jp_frame := js_frame_rep comps b |}
              end
          end
      | _, _, _ => None
      end
  end.
