(* C09 - normalisation on a TensorFlow body: Pose.normalize, Pose.normalize_distribution and
   Pose.unnormalize_distribution (pose.py:114-190) when self.body is a TensorflowPoseBody, i.e. when self.body.data is
   a tensorflow MaskedTensor (tensorflow/masked/tensor.py).  (Torch bodies do not offer the first two: MaskedTensor.mean
   is not defined there and __getattr__ raises NotImplementedError.)
   Cells are (stored value, missing?) as in C09_Masked - numpy polarity; TensorFlow keeps the validity `mask`, so
   `self.mask & other.mask` (valid iff both valid) reads `missing iff one is missing` here.  Every intermediate of the
   Python code is a MaskedTensor = one list of cells; the comment on each line names the method that produces it and
   says what its mask is.  Written over [Num.ops]; the runner executes the binary64 instance (TensorFlow computes in
   float32: the correspondence is tolerance-based).  Definitions only. *)
From Coq Require Import List Arith Bool ZArith.
Require Import Tensor Num Result C09_Masked C09_Ops.
Import ListNotations.

Section TfNorm.
Variable O : ops.
Notation T := (Num.T O).
Notation cell := (cell O).
Notation marr := (marr O).
Notation rd := (rd O).
Notation body := (body O).

(* ---- tensorflow/masked/tensor.py, cell level ---------------------------------------------------------------- *)
(* fix_nan (tensor.py:199-210): self.tensor = tf.where(tf.math.is_finite(self.tensor), self.tensor, zeros_like) -
   unlike the Torch one (tensor != tensor) it also replaces +-inf; the mask is kept *)
Definition tffixnan (a : cell) : cell := (if isfin O (fst a) then fst a else zero O, snd a).
(* arithmetic(action, other) (tensor.py:70-93), other a MaskedTensor: [tbin];  other a number / ndarray / tf.Tensor:
   tensor = getattr(self.tensor, action)(other), mask = tf.broadcast_to(self.mask, tf.shape(tensor)): [tun] *)
(* square (tensor.py:124-135), sqrt (tensor.py:150-161): tf.math.square / tf.math.sqrt of the stored values, mask kept: [tun] *)
(* sum (tensor.py:163-180): reduce_sum of the stored values, valid iff every summand is (reduce_prod of the mask): [tsum] *)

(* mean (tensor.py:397-418), one lane of the reduced axes:
     mt_sum   = tf.math.reduce_sum(self.zero_filled(), axis, keepdims)       zero_filled = where(mask, tensor, 0): [tzero]
     mt_count = tf.math.reduce_sum(tf.cast(self.mask, mt_sum.dtype), axis, keepdims)     number of valid cells
     tensor   = tf.math.divide(mt_sum, mt_count)                             0/0 = nan when nothing is valid
     mask     = tf.cast(mt_count, tf.bool)                                   valid iff at least one cell is
     return MaskedTensor(tensor, mask).fix_nan()                             the nan of an empty lane becomes 0 *)
Definition tfmean (l : list cell) : cell :=
  let mt_sum := sum O (map (tzero O) l) in
  let mt_count := count O l in
  let tensor := div O mt_sum (of_nat O mt_count) in
  let missing := Nat.eqb mt_count 0 in
  tffixnan (tensor, missing).
(* variance (tensor.py:420-438), one lane:
     means = self.mean(axis=axis, keepdims=True)        the lane's own mean (kept axes of extent 1 broadcast back)
     diff = self - means                                 arithmetic with a MaskedTensor: missing iff the cell or the mean is
     squared_deviations = diff.square()                  mask kept
     return squared_deviations.mean(axis=axis) *)
Definition tfvariance (l : list cell) : cell :=
  let means := tfmean l in
  let diff := map (fun c => tbin O (sub O) c means) l in
  let squared_deviations := map (tun O (sqr O)) diff in
  tfmean squared_deviations.
(* std (tensor.py:440-456): variance = self.variance(axis=axis); return variance.sqrt() *)
Definition tfstd (l : list cell) : cell := tun O (sqrt O) (tfvariance l).

(* ---- Pose.normalize on a TensorFlow body (pose.py:114-151) ----------------------------------------------- *)
Definition tf_normalize (p1 p2 : nat) (scale_factor : T) (b : body) : body :=
  let s := shape (bdat b) in
  let D := dimn s 3 in let PF := dimn s 1 * dimn s 0 in
  (* transposed = self.body.points_perspective()    tensorflow/pose_body.py:145-157: self.data.transpose(perm=POINTS_DIMS),
     MaskedTensor.transpose (tensor.py:264-281) permutes values and mask alike -> (T,P,F,D)
     p1s = transposed[info.p1]; p2s = transposed[info.p2]    __getitem__ (tensor.py:46-68), key not a list:
     tensor[key], mask[key] -> the (P,F,D) block of the point.  TensorFlow tensors are immutable: these are values,
     not views - the subtraction below does not reach them (on NumPy it does) *)
  let p1s := point_block O (bdat b) p1 in
  let p2s := point_block O (bdat b) p2 in
  (* center = ((p2s + p1s) / 2).mean(axis=(0, 1))
     p2s + p1s: __add__ -> arithmetic, MaskedTensor operand: missing iff one of the two points is;
     / 2: __truediv__ -> arithmetic, plain operand: mask kept;  .mean over (P,F): one cell per coordinate, missing
     iff the pair is never valid together *)
  let center := red_lead O PF D tfmean
                  (ew1 O (tun O (fun x => div O x (two O))) (ew O (tbin O (add O)) p2s p1s)) in
  (* self.body.data -= center     MaskedTensor defines no __isub__: data = data.__sub__(center) -> arithmetic with a
     MaskedTensor; (F,P,T,D) against (D,) broadcasts over the leading axes, for values and for `self.mask & other.mask` *)
  let d1 := ew_trail O (tbin O (sub O)) (data (bdat b)) D center in
  (* mean_distance = distance_batch(p1s, p2s).mean()      utils/fast_math.py:26-28, on the blocks taken *before* the shift
     squared = (p1s - p2s)**2     __sub__ (MaskedTensor operand), __pow__ -> arithmetic with the plain 2: mask kept
     summed = squared.sum(axis=-1)                         valid iff every coordinate is
     return summed**0.5                                    __pow__ with the plain 0.5: mask kept
     .mean(): axis=None - one lane of all P*F distances -> a scalar MaskedTensor, missing iff no distance is valid *)
  let squared := ew1 O (tun O (sqr O)) (ew O (tbin O (sub O)) p1s p2s) in
  let summed := red_last O PF D (tsum O) squared in
  let dist := ew1 O (tun O (sqrt O)) summed in
  let mean_distance := tfmean dist in
  (* scale = scale_factor / mean_distance     float.__truediv__ gives NotImplemented -> MaskedTensor.__rtruediv__ ->
     arithmetic with a plain operand: tensor.__rtruediv__(scale_factor), mask kept *)
  let scale := tun O (fun x => div O scale_factor x) mean_distance in
  (* self.body.data = self.body.data * scale     __mul__ -> arithmetic with a (scalar) MaskedTensor: everything is
     missing when no distance was valid *)
  mkB (mkT s (ew_scalar O (tbin O (mul O)) d1 scale)) (bconf b).

(* ---- Pose.normalize_distribution on a TensorFlow body (pose.py:153-177) --------------------------------- *)
(* lead = number of leading axes reduced (2: axis=(0,1); 3: axis=(0,1,2)) *)
Definition tf_normalize_distribution (lead : nat) (b : body) : body * (list cell * list cell) :=
  let s := shape (bdat b) in
  let outer := prod (firstn lead s) in let inner := prod (skipn lead s) in
  (* mu = self.body.data.mean(axis=axis); std = self.body.data.std(axis=axis)    MaskedTensors of the trailing shape *)
  let mu := red_lead O outer inner tfmean (data (bdat b)) in
  let sd := red_lead O outer inner tfstd (data (bdat b)) in
  (* self.body.data = (self.body.data - mu) / std     __sub__, __truediv__ -> arithmetic with MaskedTensors broadcast
     over the leading axes: plain tensor division (no domain check: x/0 stays visible as nan / inf), missing iff the
     cell, its mean or its deviation is *)
  (mkB (mkT s (ew_trail O (tbin O (div O)) (ew_trail O (tbin O (sub O)) (data (bdat b)) inner mu) inner sd)) (bconf b),
   (mu, sd)).

(* ---- Pose.unnormalize_distribution on a Torch / TensorFlow body (pose.py:179-190) ------------------------ *)
(* self.body.data = (self.body.data * std) + mu with plain (T,D) operands (ndarray / tf.Tensor / torch.Tensor):
   arithmetic's second branch (tensorflow tensor.py:90-92, torch tensor.py: mask.expand), the mask is kept
   ([tbin] with a never-missing operand).  Operands that are MaskedTensors themselves - the (mu, std) returned by
   normalize_distribution - are the [tbin] lines of tf_normalize_distribution again. *)
Definition t_unnormalize_distribution (mu sd : list T) (b : body) : body :=
  let s := shape (bdat b) in
  let inner := dimn s 2 * dimn s 3 in
  mkB (mkT s (ew_trail O (tbin O (add O)) (ew_trail O (tbin O (mul O)) (data (bdat b)) inner (map (plain O) sd))
                       inner (map (plain O) mu))) (bconf b).
(* the same with the masked (mu, std) of normalize_distribution *)
Definition t_unnormalize_distribution_masked (mu sd : list cell) (b : body) : body :=
  let s := shape (bdat b) in
  let inner := length mu in
  mkB (mkT s (ew_trail O (tbin O (add O)) (ew_trail O (tbin O (mul O)) (data (bdat b)) inner sd) inner mu)) (bconf b).

End TfNorm.
