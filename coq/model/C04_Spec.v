(* Independent reference encoders of the two legacy layouts, written from docs/specs/v0.0.md and
   docs/specs/v0.1.md only (field by field, in the order the documents list them; little-endian fields,
   16-bit length-prefixed UTF-8 strings as everywhere in the format).  They share the byte primitives
   (base/Bytes.v, base/Utf8.v) and the plain data records [header]/[component] of model/Codec.v with the
   implementation model, none of its decoding structure.
   Where the documents leave something open the encoders take the reading under which a file can be decoded
   at all:  "char[] Format" is a string like the names; a point stores one float per letter of its component's
   format, coordinates first and the confidence last (the documents show the X, Y, Confidence case).
   Definitions only. *)
From Coq Require Import ZArith NArith List Bool.
Require Import ListN Result Bytes Utf8 Utf8S F32 Codec.
Import ListNotations.
Open Scope N_scope.

(* ---------- Header (identical in both documents) ---------- *)
Definition spec_str (s : str) : bytes :=
  match enc_utf8 s with Some b => enc_u16 (lenN b) ++ b | None => [] end.
Definition spec_limb (l : N * N) : bytes := enc_u16 (fst l) ++ enc_u16 (snd l).
Definition spec_color (k : N * N * N) : bytes := enc_u16 (fst (fst k)) ++ enc_u16 (snd (fst k)) ++ enc_u16 (snd k).
Definition spec_component (c : component) : bytes :=
  spec_str (c_name c) ++ spec_str (c_format c) ++
  enc_u16 (lenN (c_points c)) ++ enc_u16 (lenN (c_limbs c)) ++ enc_u16 (lenN (c_colors c)) ++
  concat (map spec_str (c_points c)) ++
  concat (map spec_limb (c_limbs c)) ++
  concat (map spec_color (c_colors c)).
Definition spec_header (h : header) : bytes :=
  let '(w, hh, d) := h_dims h in
  enc_u32 (h_version h) ++ enc_u16 w ++ enc_u16 hh ++ enc_u16 d ++ enc_u16 (lenN (h_comps h)) ++
  concat (map spec_component (h_comps h)).

(* number of points of the whole header, and of floats per point *)
Definition spec_points (h : header) : N := fold_right N.add 0 (map (fun c => lenN (c_points c)) (h_comps h)).
Definition spec_floats_per_point (h : header) : N := fold_right N.max 0 (map (fun c => lenN (c_format c)) (h_comps h)).
Definition spec_dims (h : header) : N := spec_floats_per_point h - 1.

(* ---------- v0.0 body ----------
   [ushort FPS][ushort Number of frames]; for every frame [ushort Number of People]; for every person
   [short Person ID]; for every person's component (point by point) [float X][float Y][float Confidence] *)
Definition point00 := (list N * N)%type.              (* coordinates, confidence: float32 words *)
Record person00 := { ps_id : Z; ps_comps : list (list point00) }.
Record content00 := { k0_header : header; k0_fps : N; k0_frames : list (list person00) }.
Definition enc_i16 (z : Z) : bytes := enc_u16 (Z.to_N (z mod 65536)).
Definition spec_point (p : point00) : bytes := concat (map enc_u32 (fst p)) ++ enc_u32 (snd p).
Definition spec_person (p : person00) : bytes :=
  enc_i16 (ps_id p) ++ concat (map (fun pts => concat (map spec_point pts)) (ps_comps p)).
Definition spec_frame00 (people : list person00) : bytes :=
  enc_u16 (lenN people) ++ concat (map spec_person people).
Definition spec_body00 (c : content00) : bytes :=
  enc_u16 (k0_fps c) ++ enc_u16 (lenN (k0_frames c)) ++ concat (map spec_frame00 (k0_frames c)).
Definition spec00 (c : content00) : bytes := spec_header (k0_header c) ++ spec_body00 c.

(* what a reader that keeps the first person of every frame must return: per frame the first person's
   coordinates and confidences, or zeros when the frame has no people; a point is missing iff its
   confidence is zero *)
Definition person_data (p : person00) : list N := flat_map (fun pts => flat_map fst pts) (ps_comps p).
Definition person_conf (p : person00) : list N := flat_map (fun pts => map snd pts) (ps_comps p).
Definition frame_data (T D : N) (people : list person00) : list N :=
  match people with [] => repeat 0 (N.to_nat (T * D)) | p :: _ => person_data p end.
Definition frame_conf (T : N) (people : list person00) : list N :=
  match people with [] => repeat 0 (N.to_nat T) | p :: _ => person_conf p end.
Definition fps_value (n : N) : N := b32_of_sf (SpecFloat.binary_normalize 24 128 (Z.of_N n) 0 false).   (* the number n as a float32 word *)
Definition first_person_view (c : content00) : pose :=
  let h := k0_header c in
  let T := spec_points h in
  let D := spec_dims h in
  let conf := flat_map (frame_conf T) (k0_frames c) in
  {| p_header := h;
     p_body := {| b_fps := fps_value (k0_fps c);
                  b_shape := [lenN (k0_frames c); 1; T; D];
                  b_data := flat_map (frame_data T D) (k0_frames c);
                  b_conf := conf;
                  b_mask := map is_zero32 conf |} |}.

(* ---------- v0.1 body ----------
   [ushort FPS][ushort Number of frames  # THIS IS A PROBLEM][ushort Number of people]; then for every frame,
   person, component point the coordinates; then for every frame, person, component point the confidence.
   The 16-bit frame field cannot hold the frame count of a long recording: the encoder stores whatever the
   content says ([k1_frames_field], e.g. the count modulo 65536); the real count is the number of frames. *)
Record content01 := { k1_header : header; k1_fps : N; k1_frames_field : N; k1_people : N;
                      k1_data : list (list N);       (* per frame: people x points x coordinates, float32 words *)
                      k1_conf : list (list N) }.     (* per frame: people x points *)
Definition spec_body01 (c : content01) : bytes :=
  enc_u16 (k1_fps c) ++ enc_u16 (k1_frames_field c) ++ enc_u16 (k1_people c) ++
  concat (map enc_u32 (concat (k1_data c))) ++ concat (map enc_u32 (concat (k1_conf c))).
Definition spec01 (c : content01) : bytes := spec_header (k1_header c) ++ spec_body01 c.
(* frames [s, e) of the content *)
Definition v01_view (c : content01) (s e : N) : pose :=
  let h := k1_header c in
  let conf := concat (takeN (e - s) (dropN s (k1_conf c))) in
  {| p_header := h;
     p_body := {| b_fps := fps_value (k1_fps c);
                  b_shape := [e - s; k1_people c; spec_points h; spec_dims h];
                  b_data := concat (takeN (e - s) (dropN s (k1_data c)));
                  b_conf := conf;
                  b_mask := map is_zero32 conf |} |}.
