(* C17 - the textbook definitions the representations are compared with (exact reals).
   Definitions only.  A point / vector is the list of its coordinates. *)
From Coq Require Import Reals List.
Require Import C17_Repr.
Import ListNotations.
Local Open Scope R_scope.

Definition vec := list R.
Definition dot (a b : vec) : R := fold_right Rplus 0 (map2 Rmult a b).
Definition vsub (a b : vec) : vec := map2 Rminus a b.
Definition vaxpy (t : R) (u w : vec) : vec := map2 (fun x y => x - t * y) u w.        (* u - t w *)
Definition norm (a : vec) : R := sqrt (dot a a).
(* Euclidean distance *)
Definition euclid (a b : vec) : R := norm (vsub a b).
(* angle between the X axis and the line through p1 and p2 (the arctangent of its slope) *)
(* [atan] / [acos] are parameters everywhere: the standard library's Ratan.atan / Ratan.acos depend on
   Classical_Prop.classic, which is outside the allowed axioms; the theorems state the properties of the two
   functions they use as hypotheses (range and inverse of tan / cos) *)
Definition xy_angle (atan : R -> R) (p1 p2 : vec) : R :=
  match p1, p2 with
  | x1 :: y1 :: _, x2 :: y2 :: _ => atan ((y2 - y1) / (x2 - x1))
  | _, _ => 0
  end.
(* angle at p2 of the triangle p1 p2 p3: arccosine of the normalised dot product *)
Definition inner_angle (acos : R -> R) (p1 p2 p3 : vec) : R :=
  acos (dot (vsub p1 p2) (vsub p3 p2) / (norm (vsub p1 p2) * norm (vsub p3 p2))).
(* distance from p1 to the line through p2 and p3: distance to the foot p2 + t (p3 - p2) of the
   perpendicular, t = <p1 - p2, p3 - p2> / <p3 - p2, p3 - p2> (theorems pld_is_minimum and
   pld_perpendicular in props/C17.v show this is the least distance to a point of the line) *)
Definition foot_param (p1 p2 p3 : vec) : R := dot (vsub p1 p2) (vsub p3 p2) / dot (vsub p3 p2) (vsub p3 p2).
Definition point_line_distance (p1 p2 p3 : vec) : R :=
  norm (vaxpy (foot_param p1 p2 p3) (vsub p1 p2) (vsub p3 p2)).
(* distance from p1 to the point p2 + t (p3 - p2) of the line *)
Definition dist_to_line_point (t : R) (p1 p2 p3 : vec) : R := norm (vaxpy t (vsub p1 p2) (vsub p3 p2)).

(* all-valid masked tensors *)
Definition vals {O : Num.ops} (l : list (Num.T O)) : list (mv O) := map (fun r => (r, true)) l.
Definition rvals (l : vec) : list (mv Num.R_ops) := @vals Num.R_ops l.
