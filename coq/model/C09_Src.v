(* C09 - statement lists of the small methods of /repo that model/C09_Masked.v, C09_Ops.v and C09_TfNorm.v transcribe, as they
   were when the model was written (normalised by Python's ast.unparse; produced by `translate_c09.py src`).
   proofs/C09_GenTie.v compares them with what the translator regenerates from the source on every run. Definitions only. *)
From Coq Require Import String List.
Import ListNotations.
Open Scope string_scope.

(* torch/masked/tensor.py: class MaskedTensor *)
Definition torch_masked_tensor_MaskedTensor : list (string * list string) :=
  [ ("__getitem__", ["tensor = self.tensor[key]"; "mask = self.mask[key]"; "return MaskedTensor(tensor=tensor, mask=mask)"]);
    ("arithmetic", ["if isinstance(other, MaskedTensor):
    tensor = getattr(self.tensor, action)(other.tensor)
    mask = self.mask & other.mask
else:
    tensor = getattr(self.tensor, action)(other)
    mask = self.mask.expand(tensor.shape)"; "return MaskedTensor(tensor=tensor, mask=mask)"]);
    ("pow_", ["self.tensor.pow_(exponent)"; "return self"]);
    ("sum", ["tensor = self.tensor.sum(dim=dim)"; "mask = self.mask.prod(dim=dim).bool()"; "return MaskedTensor(tensor=tensor, mask=mask)"]);
    ("fix_nan", ["self.tensor[self.tensor != self.tensor] = 0"; "return self"]);
    ("zero_filled", ["return torch.where(self.mask.bool(), self.tensor, torch.zeros_like(self.tensor))"]);
    ("div", ["tensor = torch.div(self.tensor, other.tensor, out=self.tensor if in_place else None)"; "mask = self.mask & other.mask if update_mask else self.mask.expand(tensor.shape)"; "return MaskedTensor(tensor, mask)"]);
    ("matmul", ["tensor = torch.matmul(self.tensor, matrix.to(self.device))"; "mask = self.mask.bool().all(dim=-1, keepdim=True).expand(tensor.shape)"; "return MaskedTensor(tensor, mask)"]);
    ("transpose", ["tensor = self.tensor.transpose(dim0, dim1)"; "mask = self.mask.transpose(dim0, dim1)"; "return MaskedTensor(tensor=tensor, mask=mask)"]);
    ("permute", ["tensor = self.tensor.permute(dims)"; "mask = self.mask.permute(dims)"; "return MaskedTensor(tensor=tensor, mask=mask)"]);
    ("squeeze", ["tensor = self.tensor.squeeze(dim)"; "mask = self.mask.squeeze(dim)"; "return MaskedTensor(tensor=tensor, mask=mask)"]);
    ("split", ["tensors = torch.split(self.tensor, split_size_or_sections, dim)"; "masks = torch.split(self.mask, split_size_or_sections, dim)"; "return [MaskedTensor(tensor=tensor, mask=mask) for tensor, mask in zip(tensors, masks)]"]) ].

(* tensorflow/masked/tensor.py: class MaskedTensor *)
Definition tensorflow_masked_tensor_MaskedTensor : list (string * list string) :=
  [ ("arithmetic", ["if isinstance(other, MaskedTensor):
    tensor = getattr(self.tensor, action)(other.tensor)
    mask = self.mask & other.mask
else:
    tensor = getattr(self.tensor, action)(other)
    mask = tf.broadcast_to(self.mask, tf.shape(tensor))"; "return MaskedTensor(tensor=tensor, mask=mask)"]);
    ("sum", ["tensor = tf.math.reduce_sum(self.tensor, axis=axis)"; "mask = tf.cast(tf.math.reduce_prod(tf.cast(self.mask, tf.int32), axis=axis), tf.bool)"; "return MaskedTensor(tensor=tensor, mask=mask)"]);
    ("zero_filled", ["return tf.where(tf.cast(self.mask, tf.bool), self.tensor, tf.zeros_like(self.tensor))"]);
    ("matmul", ["tensor = tf.matmul(self.tensor, matrix)"; "mask = tf.broadcast_to(tf.reduce_all(tf.cast(self.mask, tf.bool), axis=-1, keepdims=True), tf.shape(tensor))"; "return MaskedTensor(tensor=tensor, mask=mask)"]);
    ("transpose", ["tensor = tf.transpose(self.tensor, perm=perm)"; "mask = tf.transpose(self.mask, perm=perm)"; "return MaskedTensor(tensor=tensor, mask=mask)"]);
    ("gather", ["tensor = tf.gather(self.tensor, indexes)"; "mask = tf.gather(self.mask, indexes)"; "return MaskedTensor(tensor=tensor, mask=mask)"]);
    ("__getitem__", ["if isinstance(key, list):
    key = tf.constant(key, dtype=tf.int32)
    tensor = tf.gather(self.tensor, key)
    mask = tf.gather(self.mask, key)
else:
    tensor = self.tensor[key]
    mask = self.mask[key]"; "return MaskedTensor(tensor=tensor, mask=mask)"]);
    ("__add__", ["return self.arithmetic('__add__', other)"]);
    ("__sub__", ["return self.arithmetic('__sub__', other)"]);
    ("__mul__", ["return self.arithmetic('__mul__', other)"]);
    ("__truediv__", ["return self.arithmetic('__truediv__', other)"]);
    ("__rtruediv__", ["return self.arithmetic('__rtruediv__', other)"]);
    ("__pow__", ["return self.arithmetic('__pow__', power)"]);
    ("square", ["tensor = tf.math.square(self.tensor)"; "return MaskedTensor(tensor=tensor, mask=self.mask)"]);
    ("sqrt", ["tensor = tf.math.sqrt(self.tensor)"; "return MaskedTensor(tensor=tensor, mask=self.mask)"]);
    ("fix_nan", ["self.tensor = tf.where(tf.math.is_finite(self.tensor), self.tensor, tf.zeros_like(self.tensor))"; "return self"]);
    ("mean", ["mt_sum = tf.math.reduce_sum(self.zero_filled(), axis=axis, keepdims=keepdims)"; "mt_count = tf.math.reduce_sum(tf.cast(self.mask, mt_sum.dtype), axis=axis, keepdims=keepdims)"; "tensor = tf.math.divide(mt_sum, mt_count)"; "mask = tf.cast(mt_count, tf.bool)"; "mt = MaskedTensor(tensor=tensor, mask=mask)"; "return mt.fix_nan()"]);
    ("variance", ["means = self.mean(axis=axis, keepdims=True)"; "diff = self - means"; "squared_deviations = diff.square()"; "return squared_deviations.mean(axis=axis)"]);
    ("std", ["variance = self.variance(axis=axis)"; "return variance.sqrt()"]) ].

(* torch/pose_body.py: class TorchPoseBody *)
Definition torch_pose_body_TorchPoseBody : list (string * list string) :=
  [ ("zero_filled", ["copy = self.copy()"; "copy.data = copy.data.zero_filled()"; "return copy"]);
    ("matmul", ["data = self.data.matmul(torch.from_numpy(matrix))"; "return self.__class__(fps=self.fps, data=data, confidence=self.confidence)"]);
    ("points_perspective", ["return self.data.permute(POINTS_DIMS)"]);
    ("get_points", ["data = self.points_perspective()"; "new_data = data[indexes].permute(POINTS_DIMS)"; "confidence_reshape = (2, 1, 0)"; "confidence = self.confidence.permute(confidence_reshape)"; "new_confidence = confidence[indexes].permute(confidence_reshape)"; "return self.__class__(self.fps, new_data, new_confidence)"]) ].

(* tensorflow/pose_body.py: class TensorflowPoseBody *)
Definition tensorflow_pose_body_TensorflowPoseBody : list (string * list string) :=
  [ ("zero_filled", ["copy = self.copy()"; "copy.data = self.data.zero_filled()"; "return copy"]);
    ("select_frames", ["data = self.data.gather(frame_indexes)"; "confidence = tf.gather(self.confidence, frame_indexes)"; "return self.__class__(fps=self.fps, data=data, confidence=confidence)"]);
    ("matmul", ["matrix = tf.convert_to_tensor(matrix, dtype=self.data.dtype)"; "data = self.data.matmul(matrix)"; "return self.__class__(fps=self.fps, data=data, confidence=self.confidence)"]);
    ("points_perspective", ["return self.data.transpose(perm=POINTS_DIMS)"]) ].

(* numpy/pose_body.py: class NumPyPoseBody *)
Definition numpy_pose_body_NumPyPoseBody : list (string * list string) :=
  [ ("zero_filled", ["copy = self.copy()"; "copy.data = ma.array(copy.data.filled(0), mask=copy.data.mask)"; "return copy"]);
    ("matmul", ["data = ma.dot(self.data, matrix)"; "return NumPyPoseBody(self.fps, data, self.confidence)"]);
    ("flip", ["vec = np.ones(self.data.shape[-1])"; "vec[axis] = -1"; "data = self.data * vec"; "return NumPyPoseBody(self.fps, data, self.confidence)"]);
    ("points_perspective", ["return ma.transpose(self.data, axes=POINTS_DIMS)"]);
    ("get_points", ["data = ma.transpose(self.data, axes=POINTS_DIMS)"; "new_data = ma.transpose(data[indexes], axes=POINTS_DIMS)"; "confidence_reshape = (2, 1, 0)"; "confidence = np.transpose(self.confidence, axes=confidence_reshape)"; "new_confidence = np.transpose(confidence[indexes], axes=confidence_reshape)"; "return NumPyPoseBody(self.fps, new_data, new_confidence)"]) ].

(* numpy/representation/distance.py: class DistanceRepresentation *)
Definition numpy_representation_distance_DistanceRepresentation : list (string * list string) :=
  [ ("distance", ["diff = p1s - p2s"; "square = ma.power(diff, 2)"; "sum_squares = square.sum(axis=-1)"; "sqrt = ma.sqrt(sum_squares).filled(0)"; "return sqrt"]) ].

(* torch/representation/distance.py: class DistanceRepresentation *)
Definition torch_representation_distance_DistanceRepresentation : list (string * list string) :=
  [ ("distance", ["diff = p1s - p2s"; "square = diff.pow_(2)"; "sum_squares = square.sum(dim=-1)"; "return MaskedTorch.sqrt(sum_squares)"]);
    ("forward", ["return self.distance(p1s, p2s).zero_filled()"]) ].

(* torch/representation/angle.py: class AngleRepresentation *)
Definition torch_representation_angle_AngleRepresentation : list (string * list string) :=
  [ ("forward", ["dims = p1s.shape[-1]"; "d = p2s - p1s"; "xs, ys = d.split([1] * dims, dim=3)[:2]"; "slopes = ys.div(xs).fix_nan().zero_filled().squeeze(axis=3)"; "return torch.atan(slopes)"]) ].

(* torch/representation/inner_angle.py: class InnerAngleRepresentation *)
Definition torch_representation_inner_angle_InnerAngleRepresentation : list (string * list string) :=
  [ ("forward", ["v1 = p1s - p2s"; "v2 = p3s - p2s"; "v1_norm = get_vectors_norm(v1)"; "v2_norm = get_vectors_norm(v2)"; "slopes = (v1_norm * v2_norm).sum(dim=-1)"; "angles = MaskedTorch.acos(slopes)"; "angles = angles.zero_filled()"; "angles[angles != angles] = 0"; "return angles"]) ].

(* torch/representation/point_line_distance.py: class PointLineDistanceRepresentation *)
Definition torch_representation_point_line_distance_PointLineDistanceRepresentation : list (string * list string) :=
  [ ("forward", ["a = self.distance.distance(p1s, p2s)"; "b = self.distance.distance(p2s, p3s)"; "c = self.distance.distance(p1s, p3s)"; "s: MaskedTensor = (a + b + c) / 2"; "squared = s * (s - a) * (s - b) * (s - c)"; "area = MaskedTorch.sqrt(squared)"; "square_area: MaskedTensor = area * 2"; "distance = square_area / b"; "distance.fix_nan()"; "return distance.zero_filled()"]) ].

(* torch/representation/points.py: class PointsRepresentation *)
Definition torch_representation_points_PointsRepresentation : list (string * list string) :=
  [ ("forward", ["p1s = p1s.zero_filled()"; "p1s = p1s.transpose(1, 3)"; "p1s = p1s.transpose(2, 3)"; "shape = p1s.shape"; "return p1s.reshape((-1, shape[2], shape[3]))"]) ].

(* utils/fast_math.py: module-level functions *)
Definition utils_fast_math : list (string * list string) :=
  [ ("distance_batch", ["squared = (p1s - p2s) ** 2"; "summed = squared.sum(axis=-1)"; "return summed ** 0.5"]) ].
