(* C17 - feature representations, numeric part.  Definitions only.
   One model over [Num.ops] extended *locally* (Section variables, never axioms) with the two
   transcendental functions the code calls ([atan], [acos]).  Instantiated three times:
     R_ops  + Ratan.atan / Ratan.acos      theorems about the textbook formulas   (proofs/C17_Real.v)
     X_ops  + x_atan / x_acos              IEEE special values over exact reals: totality (proofs/C17_Total.v)
     F_ops  + f_atan / f_acos              binary64 execution in the extracted runner (model/C17_Run.v)
   A masked value is a PAIR (value, valid): garbage lives under the mask, exactly as in
   torch/masked/tensor.py.  Every function below works on ONE cell (points, batch, len index fixed):
   a point is the list of its D coordinates along the last axis.  The tensor-level functions at the
   end map the cell functions over the row-major data. *)
From Coq Require Import List Bool ZArith.
Require Import Num.
Import ListNotations.

Definition map2 {A B C} (f : A -> B -> C) (a : list A) (b : list B) : list C :=
  map (fun p => f (fst p) (snd p)) (combine a b).

Section Repr.
Variable O : ops.
Variables atan acos : T O -> T O.
Local Notation t := (T O).
Definition mv : Type := (t * bool)%type.
Definition two : t := of_Z O 2.
Definition sq (x : t) : t := mul O x x.

(* ---- torch/masked/tensor.py ------------------------------------------------------------------ *)
(* arithmetic: 62-84 (both operands masked: values combined, masks and-ed) *)
Definition m_arith (f : t -> t -> t) (a b : mv) : mv := (f (fst a) (fst b), andb (snd a) (snd b)).
(* arithmetic: 81-83 (plain scalar operand: mask unchanged) *)
Definition m_scalar (f : t -> t -> t) (a : mv) (k : t) : mv := (f (fst a) k, snd a).
(* pow_: 166-181; MaskedTorch.sqrt/square/acos: torch/masked/torch.py:10,19-29 (mask unchanged) *)
Definition m_un (f : t -> t) (a : mv) : mv := (f (fst a), snd a).
(* sum(dim=-1): 183-199  tensor.sum, mask.prod *)
Definition m_sum (l : list mv) : mv := (sum O (map fst l), forallb snd l).
(* div: 273-293 (update_mask=True) *)
Definition m_div (a b : mv) : mv := m_arith (div O) a b.
(* fix_nan: 212-222  self.tensor[self.tensor != self.tensor] = 0 *)
Definition nan_to_zero (x : t) : t := if eqb O x x then x else zero O.
Definition fix_nan (a : mv) : mv := (nan_to_zero (fst a), snd a).
(* zero_filled: 262-271, REPAIRED behaviour (defect F9, proposed-fixes/F9-zero-filled.diff):
   torch.where(mask, tensor, 0) *)
Definition zero_filled (a : mv) : t := if snd a then fst a else zero O.
(* zero_filled as on the pinned tree: tensor.mul(mask) - kept only for the refutation witness *)
Definition zero_filled_mul (a : mv) : t := mul O (fst a) (if snd a then one O else zero O).

(* ---- torch/representation/distance.py:13-33, 35-52 ------------------------------------------- *)
Definition torch_dist_m (p1 p2 : list mv) : mv :=
  let diff := map2 (m_arith (sub O)) p1 p2 in        (* diff = p1s - p2s *)
  let square := map (m_un sq) diff in                 (* diff.pow_(2) *)
  let sum_squares := m_sum square in                  (* square.sum(dim=-1) *)
  m_un (sqrt O) sum_squares.                          (* MaskedTorch.sqrt *)
Definition torch_distance (p1 p2 : list mv) : t := zero_filled (torch_dist_m p1 p2).
Definition torch_distance_pinned (p1 p2 : list mv) : t := zero_filled_mul (torch_dist_m p1 p2).

(* ---- torch/representation/angle.py:33-39 ----------------------------------------------------- *)
(* shapes with fewer than 2 coordinates raise in the code (unpacking); the property quantifies over
   2|3 coordinates, the model returns 0 there *)
Definition torch_angle_with (zf : mv -> t) (p1 p2 : list mv) : t :=
  let d := map2 (m_arith (sub O)) p2 p1 in            (* d = p2s - p1s *)
  match d with
  | xs :: ys :: _ => atan (zf (fix_nan (m_div ys xs))) (* ys.div(xs).fix_nan().zero_filled(); torch.atan *)
  | _ => zero O
  end.
Definition torch_angle := torch_angle_with zero_filled.
Definition torch_angle_pinned := torch_angle_with zero_filled_mul.

(* ---- torch/representation/inner_angle.py:8-32, 70-82 ----------------------------------------- *)
Definition torch_vnorm (v : list mv) : list mv :=
  let square := map (m_un sq) v in                    (* MaskedTorch.square *)
  let summed := m_sum square in
  let v_mag := m_un (sqrt O) summed in
  map (fun c => m_div c v_mag) v.                     (* stack([v_mag] * D, -1); vectors.div(mag_stack) *)
Definition torch_inner_slopes (p1 p2 p3 : list mv) : mv :=
  let v1 := map2 (m_arith (sub O)) p1 p2 in
  let v2 := map2 (m_arith (sub O)) p3 p2 in
  m_sum (map2 (m_arith (mul O)) (torch_vnorm v1) (torch_vnorm v2)).
Definition torch_inner_angle (p1 p2 p3 : list mv) : t :=
  let angles := m_un acos (torch_inner_slopes p1 p2 p3) in
  nan_to_zero (zero_filled angles).                   (* angles[angles != angles] = 0 *)

(* ---- torch/representation/point_line_distance.py:57-69 --------------------------------------- *)
Definition torch_pld_m (p1 p2 p3 : list mv) : mv :=
  let a := torch_dist_m p1 p2 in
  let b := torch_dist_m p2 p3 in
  let c := torch_dist_m p1 p3 in
  let s := m_scalar (div O) (m_arith (add O) (m_arith (add O) a b) c) two in
  let squared := m_arith (mul O) (m_arith (mul O) (m_arith (mul O) s (m_arith (sub O) s a)) (m_arith (sub O) s b))
                         (m_arith (sub O) s c) in
  let area := m_un (sqrt O) squared in
  let square_area := m_scalar (mul O) area two in
  m_arith (div O) square_area b.                     (* distance = square_area / b *)
Definition torch_pld (p1 p2 p3 : list mv) : t :=
  zero_filled (fix_nan (torch_pld_m p1 p2 p3)).       (* distance.fix_nan(); distance.zero_filled() *)

(* ---- torch/representation/points.py:37-42: zero-filled coordinates of one point -------------- *)
Definition torch_points (p : list mv) : list t := map zero_filled p.

(* ---- tensorflow/representation (plain tensors, no mask) -------------------------------------- *)
Definition div_no_nan (x y : t) : t := if eqb O y (zero O) then zero O else div O x y.  (* tf.math.divide_no_nan *)
(* distance.py:30-35 *)
Definition tf_distance (p1 p2 : list t) : t := sqrt O (sum O (map sq (map2 (sub O) p1 p2))).
(* angle.py:34-42 *)
Definition tf_angle (p1 p2 : list t) : t :=
  match map2 (sub O) p2 p1 with
  | xs :: ys :: _ => atan (div_no_nan ys xs)
  | _ => zero O
  end.
(* inner_angle.py:24-26 *)
Definition tf_vnorm (v : list t) : list t :=
  let v_mag := sqrt O (sum O (map sq v)) in map (fun x => div_no_nan x v_mag) v.
(* inner_angle.py:64-74 *)
Definition tf_inner_slopes (p1 p2 p3 : list t) : t :=
  sum O (map2 (mul O) (tf_vnorm (map2 (sub O) p1 p2)) (tf_vnorm (map2 (sub O) p3 p2))).
Definition tf_inner_angle (p1 p2 p3 : list t) : t := nan_to_zero (acos (tf_inner_slopes p1 p2 p3)).
(* point_line_distance.py:53-65 *)
Definition tf_pld (p1 p2 p3 : list t) : t :=
  let a := tf_distance p1 p2 in let b := tf_distance p2 p3 in let c := tf_distance p1 p3 in
  let s := div O (add O (add O a b) c) two in
  let squared := mul O (mul O (mul O s (sub O s a)) (sub O s b)) (sub O s c) in
  let area := sqrt O squared in
  div_no_nan (mul O area two) b.

(* ---- numpy/representation/distance.py:29-33 (numpy.ma; [valid] = not ma's mask) --------------
   ma subtraction / ma.power: mask = or of the masks (valid = and); .sum(axis=-1) adds the valid
   cells only and is masked iff every cell is; ma.sqrt masks its domain error (x < 0); .filled(0).
   ma's additional "result not finite => masked" rule cannot fire on finite valid coordinates in
   exact arithmetic and is not modelled (DESIGN section 9). *)
Definition np_distance (p1 p2 : list mv) : t :=
  let diff := map2 (m_arith (sub O)) p1 p2 in
  let square := map (m_un sq) diff in
  let s := sum O (map (fun c : mv => if snd c then fst c else zero O) square) in
  let all_masked := forallb (fun c : mv => negb (snd c)) square in
  if all_masked then zero O else if ltb O s (zero O) then zero O else sqrt O s.
End Repr.

(* ---- tensors: row-major data of shape (points, batch, len, D) -> list of cells ---------------- *)
Fixpoint chunk {A} (fuel d : nat) (l : list A) : list (list A) :=
  match fuel with
  | 0 => []
  | S f => match l with [] => [] | _ => firstn d l :: chunk f d (skipn d l) end
  end.
Definition cells {A} (d : nat) (l : list A) : list (list A) := chunk (length l) d l.
Definition map3 {A B C E} (f : A -> B -> C -> E) (a : list A) (b : list B) (c : list C) : list E :=
  map (fun p => f (fst (fst p)) (snd (fst p)) (snd p)) (combine (combine a b) c).
Definition lift2 {A Y} (d : nat) (f : list A -> list A -> Y) (p1 p2 : list A) : list Y :=
  map2 f (cells d p1) (cells d p2).
Definition lift3 {A Y} (d : nat) (f : list A -> list A -> list A -> Y) (p1 p2 p3 : list A) : list Y :=
  map3 f (cells d p1) (cells d p2) (cells d p3).
