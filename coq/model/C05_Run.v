(* C05 runner protocol.
   (1 file (i ...))  ->  (1 (header info nframes ((i frame_i) ...)))  |  (0 0)       parse_pose, frames i dumped
   values: (0 z) number | (1 w) float32 word | (2 (cp ...)) string | (3 (v ...)) array | (4 ((key v) ...)) object | (5) undefined
   (2 w)             ->  (js_version_class w, version_class w)   as 0 V00 | 1 V01 | 2 V02 | 3 unknown *)
From Coq Require Import ZArith NArith List Bool.
Require Import ListN Result Tree Bytes Codec C05_JsParser.
Import ListNotations.

Fixpoint of_value (v : value) : tree :=
  match v with
  | VNum z => Nd [L 0; L z]
  | VF32 w => Nd [L 1; of_n w]
  | VStr s => Nd [L 2; of_ns s]
  | VArr l => Nd [L 3; Nd (map of_value l)]
  | VObj o => Nd [L 4; Nd (map (fun kv => Nd [of_ns (fst kv); of_value (snd kv)]) o)]
  | VUndef => Nd [L 5]
  end.
Definition of_vclass (c : vclass) : tree := L (match c with V00 => 0 | V01 => 1 | V02 => 2 | VUnknown => 3 end)%Z.
Definition dispatch (t : tree) : tree :=
  let op := t_z (t_nth 0 t) in
  if (op =? 1)%Z then
    match parse_pose (t_ns (t_nth 1 t)) with
    | None => Nd [L 0; L 0]
    | Some p =>
        Nd [L 1; Nd [of_value (VObj (jp_header p)); of_value (VObj (jp_info p)); L (jp_nframes p);
                     Nd (map (fun i => Nd [L i; of_value (jp_frame p i)]) (t_zs (t_nth 2 t)))]]
    end
  else if (op =? 2)%Z then Nd [of_vclass (js_version_class (t_n (t_nth 1 t))); of_vclass (version_class (t_n (t_nth 1 t)))]
  else Nd [L 0; L (-1)%Z].
