(* C20 - wire format of the runner "c20" (definitions only).
   request  (entry pad (value ...))   entry 0 = zero_pad_collator(batch)
                                            1 = collate_tensors(batch, pad_value=pad)
                                            2 = pad_tensors(batch, pad_value=pad)
   value    (0 dt (shape) (data) (mshape) (mask)) masked | (1 dt (shape) (data)) plain | (2 z) int
            | (3 (code points)) str | (4 ((key value) ...)) dict | (5 (value ...)) tuple | (6 tag payload) other
   reply    (1 out) | (0 errcode);  out = (0 dt (shape) (data) (mshape) (mask)) | (1 dt (shape) (data))
            | (2 (value ...)) passed-through list | (3 ((key out) ...)) | (4 (out ...)) *)
From Coq Require Import List ZArith Arith Bool.
Require Import Result Tensor Tree C20_Collate.
Import ListNotations.

Definition bad_value : value := VOther 99 0.
Fixpoint value_of_tree (t : tree) : value :=
  match t with
  | Nd (L tag :: args) =>
      match Z.to_nat tag, args with
      | 0, [dt; sh; da; msh; mk] =>
          VMasked (dt_of_nat (t_nat dt)) (mkT (t_nats sh) (t_zs da)) (mkT (t_nats msh) (t_bools mk))
      | 1, [dt; sh; da] => VPlain (dt_of_nat (t_nat dt)) (mkT (t_nats sh) (t_zs da))
      | 2, [z] => VInt (t_z z)
      | 3, [s] => VStr (t_zs s)
      | 4, [Nd items] =>
          VDict (map (fun it => match it with
                                | Nd [k; v] => (t_zs k, value_of_tree v)
                                | _ => ([], bad_value)
                                end) items)
      | 5, [Nd items] => VTuple (map value_of_tree items)
      | 6, [a; b] => VOther (t_z a) (t_z b)
      | _, _ => bad_value
      end
  | _ => bad_value
  end.

Definition tree_of_tensor_z (dt : dtype) (t : tensor Z) : list tree :=
  [of_nat (dt_rank dt); of_nats (shape t); of_zs (data t)].
Fixpoint tree_of_value (v : value) : tree :=
  match v with
  | VMasked dt t m => Nd (L 0 :: tree_of_tensor_z dt t ++ [of_nats (shape m); of_bools (data m)])
  | VPlain dt t => Nd (L 1 :: tree_of_tensor_z dt t)
  | VInt z => Nd [L 2; L z]
  | VStr s => Nd [L 3; of_zs s]
  | VDict kvs => Nd [L 4; Nd (map (fun kv => match kv with (k, x) => Nd [of_zs k; tree_of_value x] end) kvs)]
  | VTuple vs => Nd [L 5; Nd (map tree_of_value vs)]
  | VOther a b => Nd [L 6; L a; L b]
  end.
Fixpoint tree_of_out (o : out) : tree :=
  match o with
  | OMasked dt t m => Nd (L 0 :: tree_of_tensor_z dt t ++ [of_nats (shape m); of_bools (data m)])
  | OPlain dt t => Nd (L 1 :: tree_of_tensor_z dt t)
  | OList vs => Nd [L 2; Nd (map tree_of_value vs)]
  | ODict kvs => Nd [L 3; Nd (map (fun kv => match kv with (k, x) => Nd [of_zs k; tree_of_out x] end) kvs)]
  | OTuple os => Nd [L 4; Nd (map tree_of_out os)]
  end.

Definition run (entry : nat) (pv : Z) (batch : list value) : result out :=
  match entry with
  | 0 => zero_pad_collator batch
  | 1 => collate_tensors batch pv
  | _ => do xs <- rmapM as_tl batch; pad_tensors xs pv
  end.

Definition dispatch (req : tree) : tree :=
  of_result tree_of_out
    (run (t_nat (t_nth 0 req)) (t_z (t_nth 1 req)) (map value_of_tree (t_list (t_nth 2 req)))).
