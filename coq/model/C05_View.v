(* C05: what a consumer reads off the JavaScript header object, as the record the Python reader returns
   (pose_header.py PoseHeader / PoseHeaderComponent / PoseHeaderDimensions; types.d.ts PoseHeaderModel).  Definitions only. *)
From Coq Require Import ZArith NArith List Bool.
Require Import ListN Result Bytes Codec C05_JsParser.
Import ListNotations.
Open Scope N_scope.

Definition vnum (v : option value) : option N :=
  match v with Some (VNum z) => if (z <? 0)%Z then None else Some (Z.to_N z) | _ => None end.
Definition vstr (v : option value) : option str := match v with Some (VStr s) => Some s | _ => None end.
Definition varr {A} (f : value -> option A) (v : option value) : option (list A) :=
  match v with Some (VArr l) => all_some (map f l) | _ => None end.
Definition str_view (v : value) : option str := vstr (Some v).
Definition limb_view (v : value) : option (N * N) :=
  match v with
  | VObj o => match vnum (obj_get o k_from), vnum (obj_get o k_to) with Some a, Some b => Some (a, b) | _, _ => None end
  | _ => None
  end.
Definition color_view (v : value) : option (N * N * N) :=
  match v with
  | VObj o => match vnum (obj_get o k_R), vnum (obj_get o k_G), vnum (obj_get o k_B) with
              | Some r, Some g, Some b => Some (r, g, b) | _, _, _ => None end
  | _ => None
  end.
Definition comp_view (v : value) : option component :=
  match v with
  | VObj o =>
      match vstr (obj_get o k_name), vstr (obj_get o k_format), varr str_view (obj_get o k_points),
            varr limb_view (obj_get o k_limbs), varr color_view (obj_get o k_colors) with
      | Some n, Some f, Some p, Some l, Some c =>
          Some {| c_name := n; c_format := f; c_points := p; c_limbs := l; c_colors := c |}
      | _, _, _, _, _ => None
      end
  | _ => None
  end.
(* (header fields, headerLength) *)
Definition header_view (o : obj) : option (header * N) :=
  match obj_get o k_version, vnum (obj_get o k_width), vnum (obj_get o k_height), vnum (obj_get o k_depth),
        varr comp_view (obj_get o k_components), vnum (obj_get o k_headerLength) with
  | Some (VF32 w), Some a, Some b, Some c, Some comps, Some hl =>
      Some ({| h_version := w; h_dims := (a, b, c); h_comps := comps |}, hl)
  | _, _, _, _, _, _ => None
  end.
(* body metadata: fps (a float32 word for v0.2, an integer for v0.1 / v0.0), frame count, people count *)
Definition info_view_v02 (info : obj) : option (N * N * N) :=
  match obj_get info k_fps, vnum (obj_get info k__frames), vnum (obj_get info k__people) with
  | Some (VF32 w), Some f, Some p => Some (w, f, p)
  | _, _, _ => None
  end.
Definition info_view_v01 (info : obj) : option (N * N * N) :=
  match vnum (obj_get info k_fps), vnum (obj_get info k__frames), vnum (obj_get info k__people) with
  | Some w, Some f, Some p => Some (w, f, p)
  | _, _, _ => None
  end.
(* strings as TextDecoder returns them *)
Definition no_bom (s : str) : Prop := match s with 65279 :: _ => False | _ => True end.
Definition comp_no_bom (c : component) : Prop := no_bom (c_name c) /\ no_bom (c_format c) /\ Forall no_bom (c_points c).

(* reading one cell off a frame object as an application would:
   frame.people[j][component name][l][letter] *)
Definition js_cell (frame : value) (j : nat) (name : key) (l : nat) (letter : N) : option value :=
  match frame with
  | VObj fo =>
      match obj_get fo k_people with
      | Some (VArr people) =>
          match nth_error people j with
          | Some (VObj person) =>
              match obj_get person name with
              | Some (VArr pts) =>
                  match nth_error pts l with
                  | Some (VObj pt) => obj_get pt [letter]
                  | _ => None
                  end
              | _ => None
              end
          | _ => None
          end
      | _ => None
      end
  | _ => None
  end.
