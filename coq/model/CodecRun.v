(* dispatch for the byte-layer checks (C01, C02, C03, C06, C07):
   (1 wpose)                          -> result bytes                 Pose.write
   (4 ((kind file args) ...))         -> list of (result pose, pulled) Pose.read history, memo threaded
      kind 0 = bytes, 1 = seekable stream at position 0; the history starts with an empty memo *)
From Coq Require Import ZArith NArith List Bool.
Require Import ListN Result Tree Bytes Prog Codec CodecTree PoseRead.
Import ListNotations.

Section Run.
Variable legacy : vclass -> header -> rargs -> prog body.
Fixpoint run_history (m : option memo) (ops : list tree) : list tree :=
  match ops with
  | [] => []
  | op :: rest =>
      let kind := t_z (t_nth 0 op) in
      let file := t_ns (t_nth 1 op) in
      let a := t_rargs (t_nth 2 op) in
      if (kind =? 0)%Z then
        let '(r, m') := read_bytes legacy m file a in
        Nd [of_result of_pose r; L 0] :: run_history m' rest
      else
        let '(r, m', pulled) := read_stream legacy m file a in
        Nd [of_result of_pose r; of_n pulled] :: run_history m' rest
  end.
(* (5 (file0 file1 ...) ((idx kind args) ...)): the same, files given once and referred to by index *)
Fixpoint run_history5 (files : list (list N)) (m : option memo) (ops : list tree) : list tree :=
  match ops with
  | [] => []
  | op :: rest =>
      let file := nth (t_nat (t_nth 0 op)) files [] in
      let kind := t_z (t_nth 1 op) in
      let a := t_rargs (t_nth 2 op) in
      if (kind =? 0)%Z then
        let '(r, m') := read_bytes legacy m file a in
        Nd [of_result of_pose r; L 0] :: run_history5 files m' rest
      else
        let '(r, m', pulled) := read_stream legacy m file a in
        Nd [of_result of_pose r; of_n pulled] :: run_history5 files m' rest
  end.
(* (6 file (cut ...) kind args prime): for every cut, Pose.read of file[:cut] (kind 0 bytes / 1 stream) with
   [args], after priming the memo by a full read of the intact file (prime = 1) or not (prime = 0) *)
Definition run_cuts (file : list N) (cuts : list N) (kind : Z) (a : rargs) (prime : bool) : list tree :=
  let m0 := if prime then snd (read_bytes legacy None file no_args) else None in
  map (fun c =>
         let q := takeN c file in
         if (kind =? 0)%Z then of_result of_pose (fst (read_bytes legacy m0 q a))
         else of_result of_pose (fst (fst (read_stream legacy m0 q a)))) cuts.
Definition dispatch_with (t : tree) : tree :=
  let op := t_z (t_nth 0 t) in
  if (op =? 1)%Z then of_result of_ns (write_pose (t_wpose (t_nth 1 t)))
  else if (op =? 4)%Z then Nd (run_history None (t_list (t_nth 1 t)))
  else if (op =? 5)%Z then Nd (run_history5 (map t_ns (t_list (t_nth 1 t))) None (t_list (t_nth 2 t)))
  else if (op =? 6)%Z then
    Nd (run_cuts (t_ns (t_nth 1 t)) (t_ns (t_nth 2 t)) (t_z (t_nth 3 t)) (t_rargs (t_nth 4 t)) (t_bool (t_nth 5 t)))
  else Nd [L 0; L (-1)].
End Run.
