(* C17 - executable binary64 approximations of the two transcendental functions the representations
   call (torch.atan / tf.math.atan, torch.acos / tf.acos).  They instantiate the Section variables of
   model/C17_Repr.v in the extracted runner only; no theorem mentions them.  Their accuracy (about
   1e-15, far inside the 1e-4 tolerance of the correspondence) is sampled on every run by the
   correspondence check against the float32 kernels and the float64 NumPy reference.
   Definitions only. *)
From Coq Require Import PrimFloat.
Local Open Scope float_scope.

Definition f_pi : float := 0x1.921fb54442d18p+1.
Definition f_half_pi : float := 0x1.921fb54442d18p+0.
(* atan x = 2 atan (x / (1 + sqrt (1 + x^2))) *)
Definition f_atan_red (x : float) : float := x / (1 + sqrt (1 + x * x)).
(* Taylor series to x^23, used for |x| <= tan(pi/32) < 0.1 *)
Definition f_atan_taylor (x : float) : float :=
  let y := x * x in
  x * (1 - y * (1/3 - y * (1/5 - y * (1/7 - y * (1/9 - y * (1/11 - y * (1/13 - y * (1/15 - y * (1/17
       - y * (1/19 - y * (1/21 - y * (1/23)))))))))))).
Definition f_atan_core (x : float) : float := 8 * f_atan_taylor (f_atan_red (f_atan_red (f_atan_red x))).
Definition f_atan (x : float) : float :=
  if ltb 1 (abs x) then
    let r := f_atan_core (1 / x) in
    if ltb 0 x then f_half_pi - r else - f_half_pi - r
  else f_atan_core x.                     (* NaN falls through: every operation propagates it *)
Definition f_acos (x : float) : float :=
  if leb (abs x) 1 then 2 * f_atan (sqrt ((1 - x) / (1 + x))) else nan.
