(* C11 - selection / removal by name: the value-level model (definitions only).
   Names are Coq strings = the UTF-8 bytes of the Python str (equality and substring tests agree with
   Python's on code points because UTF-8 is injective and self-synchronising).
   Cells of data / confidence are bit patterns (Z); the mask is the "missing" flag (NumPy polarity). *)
From Coq Require Import List Arith Bool NArith ZArith.
Require Import Result Tensor C11_Str.
Import ListNotations.
Open Scope str_scope.
Open Scope list_scope.

(* ------------------------------------------------------------------ headers *)
(* pose_header.py:43-66  PoseHeaderComponent(name, points, limbs, colors, point_format) *)
Record component := mkC {
  c_name : str; c_points : list str; c_limbs : list (nat * nat);
  c_colors : list (list Z); c_format : str }.

Inductive backend := Numpy | Torch | TF.
(* pose_body.py:31-35: fps, data (F,P,N,D), confidence (F,P,N); the masked array/tensor carries its mask *)
Record body := mkB {
  b_backend : backend; b_fps : Z;
  b_data : tensor Z; b_conf : tensor Z; b_mask : tensor bool }.

(* ------------------------------------------------------------------ list helpers = Python list / dict idioms *)
Fixpoint index_of (x : str) (l : list str) : option nat :=            (* list.index; None = ValueError *)
  match l with
  | [] => None
  | y :: r => if str_eqb y x then Some 0 else option_map S (index_of x r)
  end.
Definition mem (x : str) (l : list str) : bool := existsb (str_eqb x) l.   (* x in l *)
Fixpoint nodupb (l : list str) : bool :=
  match l with [] => true | x :: r => negb (mem x r) && nodupb r end.
(* dict built by successive d[k] = v : the last binding of a key wins *)
Fixpoint assoc_last {V} (k : str) (d : list (str * V)) : option V :=
  match d with
  | [] => None
  | (k', v) :: r => match assoc_last k r with Some x => Some x | None => if str_eqb k' k then Some v else None end
  end.
Fixpoint nat_assoc_last (k : nat) (d : list (nat * nat)) : option nat :=
  match d with
  | [] => None
  | (k', v) :: r => match nat_assoc_last k r with Some x => Some x | None => if Nat.eqb k' k then Some v else None end
  end.

(* ------------------------------------------------------------------ body gather along the points axis *)
(* pose_body.py:11  POINTS_DIMS = (2, 1, 0, 3);  confidence_reshape = (2, 1, 0) in all three get_points *)
Definition points_dims : list nat := [2; 1; 0; 3].
Definition conf_perm : list nat := [2; 1; 0].

Fixpoint pos_in (k : nat) (axes : list nat) : nat :=
  match axes with [] => 0 | a :: r => if Nat.eqb a k then 0 else S (pos_in k r) end.
(* np.transpose(t, axes) / Tensor.permute(axes) / tf.transpose(t, perm=axes):
   result.shape[i] = t.shape[axes[i]],  result[j] = t[ix] with ix[axes[i]] = j[i] *)
Definition permute {X} (d : X) (axes : list nat) (t : tensor X) : tensor X :=
  reindex d (map (fun a => nth a (shape t) 0) axes)
          (fun j => map (fun k => nth (pos_in k axes) j 0) (seq 0 (length axes))) t.
(* t[indexes] (fancy indexing with a list) / tf.gather(t, indexes): gather along axis 0 *)
Definition take0 {X} (d : X) (idx : list nat) (t : tensor X) : tensor X :=
  reindex d (length idx :: tl (shape t)) (fun j => nth (hd 0 j) idx 0 :: tl j) t.
Definition valid_perm (axes : list nat) (rank : nat) : bool :=
  Nat.eqb (length axes) rank && forallb (fun k => existsb (Nat.eqb k) axes) (seq 0 rank).
Definition permute_r {X} (d : X) (axes : list nat) (t : tensor X) : result (tensor X) :=
  if valid_perm axes (length (shape t)) then Ok (permute d axes t) else Err Value.
Definition take0_r {X} (d : X) (idx : list nat) (t : tensor X) : result (tensor X) :=
  match shape t with
  | [] => Err Index
  | n :: _ => if forallb (fun k => Nat.ltb k n) idx then Ok (take0 d idx t) else Err Index
  end.
(* transpose, index, transpose back *)
Definition gather_points {X} (d : X) (axes : list nat) (idx : list nat) (t : tensor X) : result (tensor X) :=
  do t1 <- permute_r d axes t;
  do t2 <- take0_r d idx t1;
  permute_r d axes t2.

(* numpy/pose_body.py:241-262
     data = ma.transpose(self.data, axes=POINTS_DIMS); new_data = ma.transpose(data[indexes], axes=POINTS_DIMS)
     confidence = np.transpose(self.confidence, axes=(2,1,0)); new_confidence = np.transpose(confidence[indexes], axes=(2,1,0))
   (numpy.ma applies the same view / fancy index to values and mask) *)
Definition np_get_points (idx : list nat) (b : body) : result body :=
  do nd <- gather_points 0%Z points_dims idx (b_data b);
  do nm <- gather_points false points_dims idx (b_mask b);
  do nc <- gather_points 0%Z conf_perm idx (b_conf b);
  Ok (mkB Numpy (b_fps b) nd nc nm).
(* torch/pose_body.py:88-110  data = self.points_perspective() [= self.data.permute(POINTS_DIMS)];
     new_data = data[indexes].permute(POINTS_DIMS)   (MaskedTensor.__getitem__/permute act on tensor and mask alike)
     confidence = self.confidence.permute((2,1,0)); new_confidence = confidence[indexes].permute((2,1,0)) *)
Definition torch_get_points (idx : list nat) (b : body) : result body :=
  do nd <- gather_points 0%Z points_dims idx (b_data b);
  do nm <- gather_points false points_dims idx (b_mask b);
  do nc <- gather_points 0%Z conf_perm idx (b_conf b);
  Ok (mkB Torch (b_fps b) nd nc nm).
(* tensorflow/pose_body.py:167-188  data = self.data.transpose(perm=POINTS_DIMS);
     new_data = data[indexes].transpose(perm=POINTS_DIMS)   (MaskedTensor.__getitem__ with a list = tf.gather on both)
     confidence = tf.transpose(self.confidence, perm=[2,1,0]); tf.transpose(tf.gather(confidence, indexes), perm=[2,1,0])
   [tf_empty_raises]: tf.gather(t, []) converts the empty Python list to a float32 tensor and raises
   (finding F17); [false] is the repaired behaviour (indexes converted to an integer tensor first). *)
Definition tf_get_points (tf_empty_raises : bool) (idx : list nat) (b : body) : result body :=
  if tf_empty_raises && match idx with [] => true | _ => false end then Err Value else
  do nd <- gather_points 0%Z points_dims idx (b_data b);
  do nm <- gather_points false points_dims idx (b_mask b);
  do nc <- gather_points 0%Z conf_perm idx (b_conf b);
  Ok (mkB TF (b_fps b) nd nc nm).
Definition get_points (tfe : bool) (idx : list nat) (b : body) : result body :=      (* self.body.get_points(...) *)
  match b_backend b with
  | Numpy => np_get_points idx b
  | Torch => torch_get_points idx b
  | TF => tf_get_points tfe idx b
  end.

(* ------------------------------------------------------------------ pose_header.py:376-385  _get_point_index *)
Fixpoint point_index_from (cs : list component) (c p : str) (idx : nat) : result nat :=
  match cs with
  | [] => Err Value                                                     (* raise ValueError("Couldn't find component") *)
  | x :: r =>
      if str_eqb (c_name x) c then
        match index_of p (c_points x) with Some k => Ok (idx + k) | None => Err Value end
      else point_index_from r c p (idx + length (c_points x))
  end.
Definition point_index (cs : list component) (c p : str) : result nat := point_index_from cs c p 0.

(* ------------------------------------------------------------------ pose.py:240-289  get_components *)
(* :274-276  {component.points.index(point): i for i, point in enumerate(new_component.points)} *)
Fixpoint index_mapping (old : list str) (new : list str) (i : nat) : result (list (nat * nat)) :=
  match new with
  | [] => Ok []
  | p :: r =>
      match index_of p old with
      | None => Err Value
      | Some k => do m <- index_mapping old r (S i); Ok ((k, i) :: m)
      end
  end.
(* :277-280  [(m[l1], m[l2]) for l1, l2 in component.limbs if l1 in keys and l2 in keys] *)
Definition relimb (m : list (nat * nat)) (limbs : list (nat * nat)) : list (nat * nat) :=
  flat_map (fun l => match nat_assoc_last (fst l) m, nat_assoc_last (snd l) m with
                     | Some a, Some b => [(a, b)]
                     | _, _ => []
                     end) limbs.
(* :282  [idx + component.points.index(p) for p in new_component.points] *)
Fixpoint flat_indexes (old : list str) (new : list str) (idx : nat) : result (list nat) :=
  match new with
  | [] => Ok []
  | p :: r =>
      match index_of p old with
      | None => Err Value
      | Some k => do ixs <- flat_indexes old r idx; Ok ((idx + k) :: ixs)
      end
  end.
(* :270-284  one selected component: the new component and its flat source indexes *)
Definition sel_component (c : component) (idx : nat) (pts : option (list str)) : result (component * list nat) :=
  match pts with
  | Some np =>
      do m <- index_mapping (c_points c) np 0;
      do ixs <- flat_indexes (c_points c) np idx;
      Ok (mkC (c_name c) np (relimb m (c_limbs c)) (c_colors c) (c_format c), ixs)
  | None => Ok (c, seq idx (length (c_points c)))
  end.
Definition points_dict := option (list (str * list str)).
Definition pts_lookup (points : points_dict) (name : str) : option (list str) :=   (* points is not None and name in points *)
  match points with Some d => assoc_last name d | None => None end.
(* :267-288  the loop over self.header.components; new_components / indexes are dicts keyed by name *)
Fixpoint walk (comps : list component) (idx : nat) (sel : list str) (points : points_dict)
  : result (list (str * (component * list nat))) :=
  match comps with
  | [] => Ok []
  | c :: r =>
      do here <- (if mem (c_name c) sel
                  then do x <- sel_component c idx (pts_lookup points (c_name c)); Ok [(c_name c, x)]
                  else Ok []);
      do rest <- walk r (idx + length (c_points c)) sel points;
      Ok (here ++ rest)
  end.
(* :290-291  [new_components[c] for c in components], [indexes[c] for c in components]  (KeyError if absent) *)
Definition pick {V} (table : list (str * V)) (sel : list str) : result (list V) :=
  rmapM (fun c => match assoc_last c table with Some x => Ok x | None => Err Key end) sel.
(* value level: new component list and new body *)
Definition get_components_v (tfe : bool) (cs : list component) (b : body) (sel : list str) (points : points_dict)
  : result (list component * body) :=
  do table <- walk cs 0 sel points;
  do picked <- pick table sel;
  do nb <- get_points tfe (concat (map snd picked)) b;                   (* :294-295 chain.from_iterable, get_points *)
  Ok (map fst picked, nb).

(* ------------------------------------------------------------------ pose.py:219-236  remove_components *)
Definition truthy (points : points_dict) : bool := match points with Some (_ :: _) => true | _ => false end.   (* if points_to_remove: *)
Definition dict_get_nil (points : points_dict) (name : str) : list str :=        (* points_to_remove.get(name, []) *)
  match pts_lookup points name with Some l => l | None => [] end.
Definition remove_request (cs : list component) (to_remove : list str) (pts : points_dict)
  : list str * list (str * list str) :=
  let keep := filter (fun c => negb (mem (c_name c) to_remove)) cs in
  (map c_name keep,
   map (fun c => (c_name c,
                  if truthy pts then filter (fun p => negb (mem p (dict_get_nil pts (c_name c)))) (c_points c)
                  else c_points c)) keep).
Definition remove_components_v (tfe : bool) (cs : list component) (b : body) (to_remove : list str) (pts : points_dict)
  : result (list component * body) :=
  let '(names, pd) := remove_request cs to_remove pts in
  get_components_v tfe cs b names (Some pd).

(* ------------------------------------------------------------------ vocabulary of the statements *)
Definition flat_names (cs : list component) : list (str * str) :=
  flat_map (fun c => map (pair (c_name c)) (c_points c)) cs.
Definition total_points (cs : list component) : nat := length (flat_names cs).
Definition limb_names (c : component) : list (str * str) :=
  map (fun l => (nth (fst l) (c_points c) "", nth (snd l) (c_points c) "")) (c_limbs c).
Definition limbs_in_range (c : component) : bool :=
  forallb (fun l => Nat.ltb (fst l) (length (c_points c)) && Nat.ltb (snd l) (length (c_points c))) (c_limbs c).
(* the hypothesis "by name" forces: component names are unique, point names are unique inside a component *)
Definition names_unique (cs : list component) : bool :=
  nodupb (map c_name cs) && forallb (fun c => nodupb (c_points c)) cs.
Definition header_wf (cs : list component) : bool := names_unique cs && forallb limbs_in_range cs.
(* body of F frames, P people, N points, D dimensions *)
Definition body_shape (b : body) (F P N D : nat) : Prop :=
  shape (b_data b) = [F; P; N; D] /\ shape (b_mask b) = [F; P; N; D] /\ shape (b_conf b) = [F; P; N].
Definition body_shapeb (b : body) (N : nat) : bool :=
  match shape (b_data b), shape (b_mask b), shape (b_conf b) with
  | [F; P; n; D], [F'; P'; n'; D'], [F''; P''; n''] =>
      Nat.eqb F F' && Nat.eqb F F'' && Nat.eqb P P' && Nat.eqb P P'' && Nat.eqb n N && Nat.eqb n' N && Nat.eqb n'' N && Nat.eqb D D'
  | _, _, _ => false
  end.
