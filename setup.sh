#!/bin/sh
# Build everything from files on disk (offline): all Coq files (full .vo build) and every extracted runner.
here="$(cd "$(dirname "$0")" && pwd)"
cd "$here" || exit 2
export PYTHONPATH="${POSE_REPO:-/repo}/src/python"
export PYTHONDONTWRITEBYTECODE=1
# regenerate the translator's output first so that coq/gen exists
/venv/bin/python harness/regen.py || exit 2
exec /venv/bin/python harness/build.py all
