"use strict";
const {Parser} = require("/verif/js/binary_parser_shim.js");




function newParser() {
    return new Parser().endianess("little");
}

function componentHeaderParser() {
    const limbParser = newParser()
        .uint16("from")
        .uint16("to");
    const colorParser = newParser()
        .uint16("R")
        .uint16("G")
        .uint16("B");

    const strParser = newParser()
        .uint16("_chars")
        .string("text", {length: "_chars"});


    return newParser()
        .uint16("_name")
        .string("name", {length: "_name"})
        .uint16("_format",)
        .string("format", {length: "_format"})
        .uint16("_points")
        .uint16("_limbs")
        .uint16("_colors")
        .array("points", {
            type: strParser,
            formatter: (arr) => arr.map((item) => item.text),
            length: "_points"
        })
        .array("limbs", {
            type: limbParser,
            length: "_limbs"
        })
        .array("colors", {
            type: colorParser,
            length: "_colors"
        });
}

function getHeaderParser() {
    const componentParser = componentHeaderParser();

    return newParser()
        .floatle("version")
        .uint16("width")
        .uint16("height")
        .uint16("depth")
        .uint16("_components")
        .array("components", {
            type: componentParser,
            length: "_components"
        })
        // @ts-ignore
        .saveOffset('headerLength')
}


function getBodyParserV0_0(header) {
    let personParser = newParser()
        .int16("id");
    header.components.forEach(component => {
        let pointParser = newParser();
        Array.from(component.format).forEach(c => {
            pointParser = pointParser.floatle(c);
        });

        personParser = personParser.array(component.name, {
            "type": pointParser,
            "length": component._points
        });
    });

    const frameParser = newParser()
        .uint16("_people")
        .array("people", {
            type: personParser,
            length: "_people"
        });

    return newParser()
        .seek(header.headerLength)
        .uint16("fps")
        .uint16("_frames")
        .array("frames", {
            type: frameParser,
            length: "_frames"
        })
}

function parseBodyV0_0(header, buffer) {
    return getBodyParserV0_0(header).parse(buffer)
}

function parseBodyV0_1(header, buffer, version) {
    const _points = header.components.map(c => c.points.length).reduce((a, b) => a + b, 0);
    const _dims = Math.max(...header.components.map(c => c.format.length)) - 1;

    let infoParser = newParser().seek(header.headerLength);
    let infoSize = 0;
    if (version === 0.1) {
        infoParser = infoParser.uint16("fps").uint16("_frames");
        infoSize = 6;
    } else if (version === 0.2) {
        infoParser = infoParser.floatle("fps").uint32("_frames");
        infoSize = 10;
    } else {
        throw new Error(`Invalid version ${version}`);
    }
    infoParser = infoParser.uint16("_people");

    const info = infoParser.parse(buffer);

    // Issue https://github.com/keichi/binary-parser/issues/208
    const parseFloat32Array = (length, offset) => {
        const dataView = new DataView(buffer.buffer, buffer.byteOffset, buffer.length);
        let currentOffset = offset;
        const vars = {
            data: new Float32Array(length),
            offset: 0
        };

        for (let i = 0; i < vars.data.length; i++) {
            let $tmp1 = dataView.getFloat32(currentOffset, true);
            currentOffset += 4;
            vars.data[i] = $tmp1
        }
        vars.offset = currentOffset;

        return vars;
    };

    const data = parseFloat32Array(info._frames * info._people * _points * _dims, header.headerLength + infoSize);
    const confidence = parseFloat32Array(info._frames * info._people * _points, data.offset);

    function frameRepresentation(i) {
        const people = new Array(info._people);
        for (let j = 0; j < info._people; j++) {
            const person = {};
            people[j] = person;
            let k = 0;
            header.components.forEach(component => {
                person[component.name] = [];

                for (let l = 0; l < component.points.length; l++) {
                    const offset = i * (info._people * _points) + j * _points;
                    const place = offset + k + l;
                    const point = {"C": confidence.data[place]};
                    let dimIndex = 0;  // index among the coordinate letters: "C" has its own block and takes no slot
                    [...component.format].forEach(dim => {
                        if (dim !== "C") {
                            point[dim] = data.data[place * _dims + dimIndex];
                            dimIndex++;
                        }
                    });
                    person[component.name].push(point)
                }
                k += component.points.length;
            });
        }
        return {people}
    }

    const frames = new Proxy({}, {
        get: function (target, name) {
            if (name === 'length') {
                return info._frames
            }
            return frameRepresentation(name);
        }
    });


    return {
        ...info,
        frames
    };

}

const headerParser = getHeaderParser();

function parsePose(buffer) {
    const header = headerParser.parse(buffer);

    let body;
    const version = Math.round(header.version * 1000) / 1000;
    switch (version) {
        case 0:
            body = parseBodyV0_0(header, buffer);
            break;

        case 0.1:
        case 0.2:
            body = parseBodyV0_1(header, buffer, version);
            break;

        default:
            throw new Error("Parsing this body version is not implemented - " + header.version);
    }

    return {header, body};
}

module.exports = { parsePose };
