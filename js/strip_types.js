// Fail-closed TypeScript -> JavaScript for src/js/pose_format/src/parser.ts (no `typescript` package here).
// usage: node strip_types.js <parser.ts> <out.js> <path of binary_parser_shim.js>
// Only the type syntax that occurs in parser.ts is removed, and only at the places where it can occur:
//   * the two import lines (replaced by a require of the shim; any other import fails),
//   * `export function`  -> `function`,
//   * type assertions ` as unknown as T`, ` as T`, ` as T[]` directly before `;` `)` or a line end,
//   * `: T` annotations inside parameter lists of `function f(...)` / `(...) =>` and the return type `): T {`,
//   * `let|const x: T =` and `let x: T;`.
// Everything else is copied verbatim.  Afterwards no type annotation of the known forms may remain and the result
// must pass `node --check`; otherwise exit code 2 (the harness reports a broken tie).
"use strict";
const fs = require("fs");
const cp = require("child_process");
function fail(msg) { process.stderr.write("strip_types: " + msg + "\n"); process.exit(2); }
if (process.argv.length !== 5) fail("usage");
const [src, out, shim] = process.argv.slice(2);
let s = fs.readFileSync(src, "utf8");

const TYPE = "(?:any\\[\\]|any|number|string|boolean|Buffer|[A-Z]\\w*(?:\\[\\])?)";

// imports
const imports = s.match(/^import .*$/mg) || [];
const okImports = [/^import \{Parser\} from "binary-parser";$/, /^import \{[\w, ]+\} from "\.\/types";$/];
for (const l of imports) if (!okImports.some(r => r.test(l.trim()))) fail("unexpected import: " + l);
if (!imports.some(l => okImports[0].test(l.trim()))) fail("binary-parser import missing");
s = s.replace(/^import .*$/mg, "");
if (/\bimport\b|\brequire\s*\(/.test(s)) fail("import/require left in the source");

s = s.replace(/\bexport function\b/g, "function");
if (/\bexport\b/.test(s)) fail("unsupported export form");

// type assertions
s = s.replace(new RegExp("\\s+as\\s+(?:unknown\\s+as\\s+)?" + TYPE + "(?=\\s*(?:[;)]|$))", "mg"), "");

// parameter lists and return types of function declarations
s = s.replace(new RegExp("(function\\s+\\w*\\s*)\\(([^()]*)\\)(\\s*:\\s*" + TYPE + ")?(\\s*\\{)", "g"),
  (m, head, params, ret, brace) => head + "(" + stripParams(params) + ")" + brace);
// parameter lists of arrow functions
s = s.replace(/\(([^()]*)\)(\s*=>)/g, (m, params, arrow) => "(" + stripParams(params) + ")" + arrow);
// annotated declarations
s = s.replace(new RegExp("\\b(let|const|var)(\\s+[A-Za-z_$][\\w$]*)\\s*:\\s*" + TYPE + "(\\s*[=;])", "g"), "$1$2$3");

function stripParams(p) {
  return p.split(",").map(x => x.replace(new RegExp("^(\\s*[A-Za-z_$][\\w$]*)\\s*:\\s*" + TYPE + "\\s*$"), "$1")).join(",");
}

// nothing that looks like a type annotation / TS-only construct may remain outside string literals and comments
const bare = s.replace(/\/\/.*$/mg, "").replace(/\/\*[\s\S]*?\*\//g, "").replace(/"(?:[^"\\\n]|\\.)*"|'(?:[^'\\\n]|\\.)*'|`(?:[^`\\]|\\.)*`/g, '""');
const left = bare.match(new RegExp("[A-Za-z_$][\\w$]*\\s*:\\s*(?:any|number|string|boolean|Buffer|unknown)\\b|\\bas\\s+(?:unknown|any|[A-Z]\\w*)\\b|\\binterface\\b|\\btype\\s+\\w+\\s*=|\\benum\\b|<[A-Z]\\w*>", "g"));
if (left) fail("type syntax left after stripping: " + JSON.stringify(left.slice(0, 5)));

s = '"use strict";\nconst {Parser} = require(' + JSON.stringify(shim) + ");\n" + s + "\nmodule.exports = { parsePose };\n";
fs.writeFileSync(out, s);
const r = cp.spawnSync(process.execPath, ["--check", out], {encoding: "utf8"});
if (r.status !== 0) { try { fs.unlinkSync(out); } catch (e) {} fail("node --check rejects the stripped file:\n" + (r.stderr || "").slice(0, 2000)); }
