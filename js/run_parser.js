// Driver of the real (type-stripped) parser.ts under node.
// usage: node run_parser.js <stripped parser.js>
// protocol: one JSON request per line on stdin  {"hex": "<file bytes>", "frames": [i, ...]}
//           one JSON reply per line on stdout  {"ok": {...}} | {"err": "<message>"}
// Dump format (generic, no knowledge of the pose model): every JavaScript value becomes
//   number     -> {"n": "<16 hex digits of the binary64 pattern>"}   (NaN -> {"n": "nan"})
//   string     -> {"s": [code points]}
//   array      -> {"a": [values]}
//   object     -> {"o": [[key code points, value], ...]}            (own enumerable string keys, Object.entries order)
//   undefined  -> {"u": 1}
// Reply: {"header": value, "info": value of the body without `frames`, "nframes": body.frames.length as a value,
//         "frames": [[i, value of body.frames[i]], ...]} for the requested indices i.
"use strict";
const readline = require("readline");
const path = require("path");
const { parsePose } = require(path.resolve(process.argv[2]));

const dv = new DataView(new ArrayBuffer(8));
function num(x) {
  if (Number.isNaN(x)) return {n: "nan"};
  dv.setFloat64(0, x);
  return {n: dv.getUint32(0).toString(16).padStart(8, "0") + dv.getUint32(4).toString(16).padStart(8, "0")};
}
function cps(s) { return Array.from(s, c => c.codePointAt(0)); }
function dump(v, depth) {
  if (depth > 12) throw new Error("dump: too deep");
  if (v === undefined) return {u: 1};
  if (typeof v === "number") return num(v);
  if (typeof v === "string") return {s: cps(v)};
  if (Array.isArray(v) || ArrayBuffer.isView(v)) return {a: Array.from(v, x => dump(x, depth + 1))};
  if (v !== null && typeof v === "object") return {o: Object.entries(v).map(([k, x]) => [cps(k), dump(x, depth + 1)])};
  throw new Error("dump: unsupported value of type " + typeof v);
}

const rl = readline.createInterface({input: process.stdin, terminal: false});
rl.on("line", line => {
  let reply;
  try {
    const req = JSON.parse(line);
    const buf = Buffer.from(req.hex, "hex");
    const p = parsePose(buf);
    const body = p.body;
    const info = {};
    for (const [k, v] of Object.entries(body)) if (k !== "frames") info[k] = v;
    const frames = [];
    for (const i of req.frames) frames.push([i, dump(body.frames[i], 0)]);
    reply = {ok: {header: dump(p.header, 0), info: dump(info, 0), nframes: dump(body.frames.length, 0), frames}};
  } catch (e) {
    reply = {err: String(e && e.message ? e.message : e).slice(0, 300)};
  }
  process.stdout.write(JSON.stringify(reply) + "\n");
});
