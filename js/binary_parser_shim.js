// Re-implementation of the subset of binary-parser 2.2.1 that src/js/pose_format/src/parser.ts uses
// (the package is not installed and cannot be fetched: DESIGN.md section 9).  TRUSTED: the C05 claim is
// partial in exactly this sense - node executes the real parser.ts against this file, not against the package.
//
// Behaviour transcribed from binary-parser 2.x (lib/binary_parser.ts, code generator):
//   * new Parser().endianess("little"|"big")           sets the default endianness of uint16/int16/uint32
//   * uint16/int16/uint32(name)                         dataView.getXxx(offset, little); offset += size
//   * floatle(name)                                     dataView.getFloat32(offset, true); offset += 4
//   * string(name, {length})                            new TextDecoder(encoding || "utf8").decode(buffer.subarray(offset, offset + length));
//                                                       offset += length   (subarray clips, no RangeError; TextDecoder is
//                                                       non-fatal and drops one leading U+FEFF)
//   * array(name, {type: Parser, length, formatter})    `length` elements, each parsed with fresh variables; formatter applied to the array
//   * seek(n)                                           offset += n (relative)
//   * saveOffset(name)                                  vars[name] = offset
//   * parse(buffer)                                     offset starts at 0; result is the variables object
// Any other method or option makes the call fail (fail closed): the proxy below throws on unknown methods,
// and unknown option keys are rejected.
"use strict";

function checkOptions(kind, o, allowed) {
  if (o === undefined || o === null || typeof o !== "object") throw new Error("shim: " + kind + " needs an options object");
  for (const k of Object.keys(o)) if (!allowed.includes(k)) throw new Error("shim: option '" + k + "' of " + kind + " is not implemented");
}

class ParserImpl {
  constructor() { this.steps = []; this.little = false; }
  endianess(e) {
    if (e !== "little" && e !== "big") throw new Error("shim: endianess " + e);
    this.little = (e === "little"); return this;
  }
  _add(s) { this.steps.push(s); return this; }
  _name(n) { if (typeof n !== "string") throw new Error("shim: field name must be a string"); return n; }
  uint16(n, o) { if (o !== undefined) throw new Error("shim: uint16 options"); return this._add({k: "u16", n: this._name(n)}); }
  int16(n, o) { if (o !== undefined) throw new Error("shim: int16 options"); return this._add({k: "i16", n: this._name(n)}); }
  uint32(n, o) { if (o !== undefined) throw new Error("shim: uint32 options"); return this._add({k: "u32", n: this._name(n)}); }
  floatle(n, o) { if (o !== undefined) throw new Error("shim: floatle options"); return this._add({k: "f32le", n: this._name(n)}); }
  string(n, o) {
    checkOptions("string", o, ["length", "encoding"]);
    if (o.length === undefined) throw new Error("shim: string without length");
    return this._add({k: "str", n: this._name(n), o});
  }
  array(n, o) {
    checkOptions("array", o, ["type", "length", "formatter"]);
    if (!(o.type instanceof ParserImpl)) throw new Error("shim: array type must be a Parser");
    if (o.length === undefined) throw new Error("shim: array without length");
    return this._add({k: "arr", n: this._name(n), o});
  }
  seek(rel) { if (typeof rel !== "number") throw new Error("shim: seek needs a number"); return this._add({k: "seek", rel}); }
  saveOffset(n, o) { if (o !== undefined) throw new Error("shim: saveOffset options"); return this._add({k: "save", n: this._name(n)}); }
  parse(buf) {
    if (!(buf instanceof Uint8Array)) throw new Error("shim: parse needs a Buffer/Uint8Array");
    const dv = new DataView(buf.buffer, buf.byteOffset, buf.length);
    const st = {off: 0};
    return this._run(buf, dv, st);
  }
  _len(l, vars) {
    if (typeof l === "number") return l;
    if (typeof l === "string") return vars[l];
    if (typeof l === "function") return l.call(vars, vars);
    throw new Error("shim: length option");
  }
  _run(buf, dv, st) {
    const vars = {};
    for (const s of this.steps) {
      switch (s.k) {
        case "u16": vars[s.n] = dv.getUint16(st.off, this.little); st.off += 2; break;
        case "i16": vars[s.n] = dv.getInt16(st.off, this.little); st.off += 2; break;
        case "u32": vars[s.n] = dv.getUint32(st.off, this.little); st.off += 4; break;
        case "f32le": vars[s.n] = dv.getFloat32(st.off, true); st.off += 4; break;
        case "str": {
          const len = this._len(s.o.length, vars);
          vars[s.n] = new TextDecoder(s.o.encoding || "utf8").decode(buf.subarray(st.off, st.off + len));
          st.off += len;
          break;
        }
        case "arr": {
          const len = this._len(s.o.length, vars);
          let a = [];
          for (let i = 0; i < len; i++) a.push(s.o.type._run(buf, dv, st));
          if (s.o.formatter) a = s.o.formatter.call(vars, a);
          vars[s.n] = a;
          break;
        }
        case "seek": st.off += s.rel; break;
        case "save": vars[s.n] = st.off; break;
        default: throw new Error("shim: step " + s.k);
      }
    }
    return vars;
  }
}

// fail closed on any method of the real Parser that is not implemented here
const KNOWN = new Set(Object.getOwnPropertyNames(ParserImpl.prototype).concat(["steps", "little", "then", "constructor"]));
function Parser() {
  const impl = new ParserImpl();
  return wrap(impl);
}
function wrap(impl) {
  return new Proxy(impl, {
    get(target, prop, recv) {
      if (typeof prop === "string" && !KNOWN.has(prop)) throw new Error("shim: binary-parser method '" + prop + "' is not implemented");
      const v = target[prop];
      if (typeof v === "function" && prop !== "parse" && !prop.startsWith("_")) {
        return (...args) => { const r = v.apply(target, args); return r === target ? recv : r; };
      }
      return typeof v === "function" ? v.bind(target) : v;
    },
  });
}
// `o.type instanceof ParserImpl` must see through the proxy: Proxy forwards getPrototypeOf, so it does.
module.exports = { Parser };
