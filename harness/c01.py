"""C01 - write -> read round trip, or a loud failure."""
import struct

import numpy as np

import common
import posegen as pg
import translate_py


def canon_tail(bs, nwords):
    """canonicalise NaN float32 words in the last nwords*4 bytes"""
    bs = list(bs)
    start = len(bs) - 4 * nwords
    for i in range(start, len(bs), 4):
        w = bs[i] | bs[i + 1] << 8 | bs[i + 2] << 16 | bs[i + 3] << 24
        if (w & 0x7FFFFFFF) > 0x7F800000:
            bs[i:i + 4] = [0, 0, 0xC0, 0x7F]
    return bs


class C01(common.Prop):
    ID = "C01"
    RUNNER = "codec"
    MODEL_FILES = ["base/Bytes.v", "base/Utf8.v", "base/F32.v", "base/Prog.v", "model/Codec.v", "model/PoseRead.v"]
    RULE = ("structured poses over the C01 space (1..4 components, 0..k points, names from all four UTF-8 length classes, "
            "limbs/colours, F,P incl. 0, D 1..4, float32 bit-pattern classes, float64 inputs) with ~25% carrying one "
            "unrepresentable/edge feature; each case is written, and read back under three header-memo states; "
            "non-trivial = write accepted by the implementation or rejected for a reason other than rank; distinct by content hash " "Header numbers as Python ints or NumPy integer arrays / scalars; limb and colour words with the top bit set; tiny non-zero confidences; header objects carrying version 0.0 / 0.1 / 0.3; body arrays plain / unmasked / partially masked / non-contiguous; five memo states (empty, same, other, version twin, name-exchanged anagram header).")
    TRUSTED = ["Coq 8.16.1 kernel (UTF-8 round trip proved by case analysis + lia, no enumeration; vm_compute only in examples)", "harness/translate_py.py (fail-closed ast translator)",
               "extraction: ExtrOcamlBasic only; runner/driver.ml", "harness/posegen.py canonicalisers (NaN -> one word; errors -> one class)"]
    ASSUMPTIONS = ["CPython struct / bytes.decode / numpy astype(float32) behave as modelled in base/F32.v, base/Utf8.v (sampled by the correspondence)",
                   "hashlib.md5 is injective on the header slices compared (memo model stores the slice)"]

    def translate(self):
        return translate_py.codec_gen()

    def setup(self):
        self.other = pg.other_file_bytes()

    def gen_cases(self, rng, tier):
        n = 400 if tier == "quick" else 6000
        for i in range(n):
            yield pg.gen_pose_case(rng)

    def features(self, case):
        return (case["edge"], case["shape"][3] if len(case["shape"]) == 4 else -1, case.get("dtype"),
                "uni" if any(cp > 127 for c in case["comps"] for cp in c["name"] + sum(c["points"], [])) else "ascii")

    def nontrivial(self, case):
        return case["edge"] != "rank3"

    # ---- implementation
    def run_impl(self, case):
        w = pg.impl_write(case)
        out = {"write": pg.strip_err(w), "reads": {}}
        case["_impl_write"] = w
        if w[0] == "ok":
            for st in ("empty", "same", "other", "twin"):
                pg.set_memo(st, other_bytes=self.other, same_bytes=w[1])
                r, _ = pg.impl_read(w[1])
                out["reads"][st] = pg.strip_err(r)
                case.setdefault("_impl_reads", {})[st] = r
            # fifth state: the memo holds the header of this pose with two point names exchanged (same length, same bytes in
            # another order); the file read next must still come back with ITS names
            c2 = pg.anagram_case(case)
            w2 = pg.impl_write(c2) if c2 is not None else None
            if w2 is not None and w2[0] == "ok":
                pg.set_memo("other", other_bytes=w2[1])
                r, _ = pg.impl_read(w[1])
                out["reads"]["anagram"] = pg.strip_err(r)
                case["_impl_reads"]["anagram"] = r
        return out

    # ---- model
    def run_model(self, case, runner):
        t = runner.ask([1, pg.wpose_tree(case)])
        w = pg.result_of_tree(t, lambda x: list(x))
        out = {"write": w, "reads": {}}
        if w[0] == "ok":
            f = w[1]
            for st, pre in (("empty", []), ("same", [[0, f, pg.args_tree(None)]]), ("other", [[0, self.other, pg.args_tree(None)]]),
                            ("twin", [[0, list(pg.twin_bytes(f)), pg.args_tree(None)]])):
                rep = runner.ask([4, pre + [[0, f, pg.args_tree(None)]]])
                last = rep[-1]
                out["reads"][st] = pg.result_of_tree(last[0], pg.pose_of_tree)
            c2 = pg.anagram_case(case)
            if c2 is not None:
                w2 = pg.result_of_tree(runner.ask([1, pg.wpose_tree(c2)]), lambda x: list(x))
                if w2[0] == "ok":
                    rep = runner.ask([4, [[0, w2[1], pg.args_tree(None)], [0, f, pg.args_tree(None)]]])
                    out["reads"]["anagram"] = pg.result_of_tree(rep[-1][0], pg.pose_of_tree)
        return out

    def compare(self, case, impl_out, model_out):
        if impl_out["write"] != model_out["write"]:
            if impl_out["write"][0] != model_out["write"][0]:
                return "write: implementation %s, model %s" % (impl_out["write"][0], model_out["write"][0])
            a, b = impl_out["write"][1], model_out["write"][1]
            # NaN payloads of double -> float32 conversions are hardware-defined: compare float words of the
            # data / confidence blocks with every NaN mapped to one word
            nf = len(case["data"]) + len(case["conf"])
            if len(a) == len(b) and len(a) >= 4 * nf:
                a, b = canon_tail(a, nf), canon_tail(b, nf)
                if a == b:
                    return self._cmp_reads(impl_out, model_out)
            i = next((k for k in range(min(len(a), len(b))) if a[k] != b[k]), min(len(a), len(b)))
            return "written bytes differ at offset %d (lengths %d / %d)" % (i, len(a), len(b))
        return self._cmp_reads(impl_out, model_out)

    def _cmp_reads(self, impl_out, model_out):
        for st in model_out["reads"]:
            if impl_out["reads"].get(st) != model_out["reads"][st]:
                return "read-back (memo %s) differs" % st
        return None

    # ---- direct oracle: Pose.read(Pose.write(p)) == canon(p), canon by NumPy casts (no Coq model involved)
    def expected(self, case):
        data = np.array(case["data"], dtype=np.uint64).view(np.float64).astype(np.float32)
        conf = np.array(case["conf"], dtype=np.uint64).view(np.float64).astype(np.float32)
        return {
            "version": 0x3E4CCCCD, "dims": list(case["dims"]),
            "comps": [{"name": c["name"], "format": c["format"], "points": c["points"], "limbs": [list(l) for l in c["limbs"]],
                       "colors": [list(k) for k in c["colors"]]} for c in case["comps"]],
            "fps": pg.canon32(struct.unpack("<I", struct.pack("<f", pg.from_b64(case["fps"])))[0]),
            "shape": list(case["shape"]),
            "data": [pg.canon32(int(w)) for w in data.view(np.uint32)],
            "conf": [pg.canon32(int(w)) for w in conf.view(np.uint32)],
            "mask": [int(x == 0) for x in conf],
        }

    def oracle(self, case):
        w = case.get("_impl_write")
        if w is None or w[0] != "ok":
            return None           # a loud failure is allowed
        msg = pg.rewrite_after_edit(case)
        if msg:
            return {"what": msg, "fields": ["rewrite-after-edit"]}
        exp = self.expected(case)
        for st, r in case.get("_impl_reads", {}).items():
            if r[0] != "ok":
                return {"what": "write accepted the pose but reading the bytes back raises %s (memo %s)" % (r[1], st), "memo": st}
            if r[1] != exp:
                diff = [k for k in exp if r[1].get(k) != exp[k]] + [k for k in r[1] if k not in exp]
                return {"what": "written bytes decode to a different pose (memo %s): fields %s differ" % (st, diff), "memo": st,
                        "fields": diff, "got": common.small({k: r[1].get(k) for k in diff}, 600), "expected": common.small({k: exp.get(k) for k in diff}, 600)}
        return None

    def classify(self, case, failure):
        uni = any(cp > 127 for c in case["comps"] for cp in c["name"] + c["format"] + sum(c["points"], []))
        fields = failure.get("fields") or []
        what = failure.get("what", "")
        if case["edge"] in ("more_points", "fewer_points", "conf_shape") and not fields:
            return "write-accepts-body-header-shape-mismatch"
        if uni and ("comps" in fields or "Unicode" in what or (not fields and "raises" in what)):
            return "non-ascii-string-length-prefix"
        return "roundtrip-" + (fields or ["raises"])[0]


PROP = C01
