"""C08 - NumPy, PyTorch and TensorFlow bodies hold the same pose.

A case is a v0.2 file of the C01 space (written here with `struct`, float32 words taken verbatim so that
NaN payloads, -0.0, negative and denormal confidences reach the readers) plus a list of operations with
arguments.  The implementation side reads the bytes through Pose.read(..., pose_body=cls) for the three
classes, converts the NumPy body with torch()/tensorflow(), and applies every operation to every body;
the model side is one request to the extracted runner.  The oracle is the property statement on the
implementation alone, against an independent reference computed with plain NumPy arrays from the case."""
import io
import math
import struct
import warnings

import numpy as np

import common
import posegen as pg
import translate_c08

warnings.simplefilter("ignore")

BACKENDS = ("numpy", "torch", "tensorflow")
NAN32 = pg.NAN32
NAN64 = 0x7FF8000000000000

# Interpretation (reported to the lead): the arguments of the shared operations are the ones every framework's own
# indexing convention accepts - non-negative positions, non-empty index lists, positive slice steps, float32
# matrices.  Negative indexes / empty Python lists (tf.gather), negative steps (torch) are exercised against
# the model (C08_refuted-style theorems) but are failing inputs only when this switch is on.
EDGE_ARGS_ARE_FAILURES = False


def canon64(w):
    return NAN64 if (w & 0x7FFFFFFFFFFFFFFF) > 0x7FF0000000000000 else w


def f32(w):
    return struct.unpack("<f", struct.pack("<I", w))[0]


def words32(a):
    a = np.ascontiguousarray(np.asarray(a, dtype=np.float32))
    return [pg.canon32(int(x)) for x in a.view(np.uint32).reshape(-1)]


# ------------------------------------------------------------------------------------------------
# file encoder (independent of Pose.write)
def wstr(s):
    b = s.encode("utf8")
    return struct.pack("<H", len(b)) + b


def encode_file(case):
    out = [struct.pack("<f", 0.2), struct.pack("<HHH", *case["dims"]), struct.pack("<H", len(case["comps"]))]
    for c in case["comps"]:
        out += [wstr(c["name"]), wstr(c["format"]), struct.pack("<HHH", len(c["points"]), len(c["limbs"]), len(c["colors"]))]
        out += [wstr(p) for p in c["points"]]
        out += [struct.pack("<HH", *l) for l in c["limbs"]]
        out += [struct.pack("<HHH", *k) for k in c["colors"]]
    F, P, T, D = case["shape"]
    out += [struct.pack("<I", case["fps"]), struct.pack("<I", F), struct.pack("<H", P)]
    out.append(np.array(case["data"], dtype=np.uint32).astype("<u4").tobytes())
    out.append(np.array(case["conf"], dtype=np.uint32).astype("<u4").tobytes())
    return b"".join(out)


# ------------------------------------------------------------------------------------------------
# generator
CONF_WORDS = [0x00000000, 0x00000000, 0x00000000, 0x80000000, 0x3F800000, 0x3F800000, 0x3F000000, 0x3E4CCCCD,
              0xBF800000, 0xBDCCCCCD, 0x7FC00000, 0xFFC00001, 0x7F800000, 0xFF800000, 0x00800000, 0x80800000, 0x7F7FFFFF]
SUBNORMAL_CONF = [0x00000001, 0x80000001, 0x007FFFFF, 0x00000200]


def is_subnormal(w):
    return (w & 0x7F800000) == 0 and (w & 0x007FFFFF) != 0
FPS_WORDS = [0x41F00000, 0x41EFC28F, 0x41C80000, 0x3F800000, 0x42700000, 0x3A83126F, 0x00000000, 0x80000000, 0x7FC00000,
             0x7F800000, 0xC0000000]


def small_float_word(rng):
    v = rng.choice([0, 1, -1, 2, -3, 5, 0.5, -0.25, 7, 12, -16, 1.5, 100, 0.125])
    return struct.unpack("<I", struct.pack("<f", float(v)))[0]


def gen_case(rng, i=0):
    D = rng.choice([1, 2, 2, 3, 3, 4]) if rng.random() > 0.02 else 0
    ncomp = rng.choice([1, 1, 2, 3])
    comps = []
    for k in range(ncomp):
        npts = rng.choice([0, 1, 2, 3, 4]) if ncomp > 1 else rng.choice([0, 1, 2, 3, 5])
        fl = D + 1 if k == 0 else rng.randrange(1, D + 2)
        comps.append({"name": "c%d" % k, "format": ("XYZW"[:fl - 1] + "C") if fl else "", "points": ["p%d" % j for j in range(npts)],
                      "limbs": [[0, 0]] if npts and rng.random() < 0.3 else [], "colors": [[1, 2, 3]] if rng.random() < 0.3 else []})
    T = sum(len(c["points"]) for c in comps)
    F = rng.choice([0, 1, 2, 3, 3, 4, 6])
    P = rng.choice([0, 1, 1, 1, 2, 3])
    exact = rng.random() < 0.5          # values on which float32 products and sums are exact
    n, nc = F * P * T * D, F * P * T
    data = [small_float_word(rng) if (exact or rng.random() < 0.3) else
            (rng.choice(pg.F32_SPECIAL) if rng.random() < 0.15 else rng.getrandbits(32)) for _ in range(n)]
    conf = [rng.choice(CONF_WORDS) if rng.random() < 0.85 else rng.getrandbits(32) for _ in range(nc)]
    conf = [w | 0x00800000 if is_subnormal(w) else w for w in conf]
    if rng.random() < 0.04 and nc:      # TensorFlow treats subnormals as zero: a separate, flagged class
        conf[rng.randrange(nc)] = rng.choice(SUBNORMAL_CONF)
    # random fps: any sign / mantissa, magnitude within 2^-20 .. 2^20 (flatten's frame / fps column is computed in
    # float64 by NumPy and float32 by Torch; outside a sane range they overflow differently - unmodelled rounding)
    fps = rng.choice(FPS_WORDS) if rng.random() < 0.9 else ((rng.getrandbits(1) << 31) | (rng.randrange(107, 148) << 23) | rng.getrandbits(23))
    case = {"dims": [rng.choice([0, 1, 640, 65535]) for _ in range(3)], "comps": comps, "fps": fps, "shape": [F, P, T, D],
            "data": data, "conf": conf, "args": None, "exact": exact}
    if rng.random() < 0.08 and F > 0:
        case["args"] = rng.choice([{"start_frame": rng.randrange(0, F)}, {"end_frame": rng.randrange(0, F + 2)},
                                   {"start_frame": 1, "end_frame": max(1, F - 1)} if F > 1 else {"end_frame": 1}])
    case["ops"] = gen_ops(rng, case)
    if case["args"] is None and F * P * T * D > 0 and rng.random() < 0.3:
        case["pre"] = gen_pre(rng, case)
    return case


def gen_pre(rng, case):
    """Two-step cases.  The case's content is what a selection leaves of a LARGER file: the implementation reads the larger file and
    selects (get_points / select_frames / a stepped slice, all inside the common argument domain), then runs the operations on the
    result; model and reference start from the file of the case's own content.  A selection returns views and re-ordered arrays,
    and no later operation may depend on that."""
    F, P, T, D = case["shape"]
    data = np.array(case["data"], dtype=np.uint32).reshape(F, P, T, D)
    conf = np.array(case["conf"], dtype=np.uint32).reshape(F, P, T)
    kind = rng.choice(["get_points", "get_points", "select_frames", "getitem_slice"])
    def junk(shape):
        j = np.array([rng.choice([0, 0x3F800000, 0x7FC00000, 0x40400000, rng.getrandbits(32)]) for _ in range(int(np.prod(shape)))],
                     dtype=np.uint32).reshape(shape)
        return np.where((j & 0x7F800000 == 0) & (j & 0x007FFFFF != 0), j | 0x00800000, j)         # no subnormal words in the junk
    if kind == "get_points":
        T2 = T + rng.randrange(1, 4)
        idx = rng.sample(range(T2), T)
        d2, c2 = junk((F, P, T2, D)), junk((F, P, T2))
        d2[:, :, idx] = data
        c2[:, :, idx] = conf
        arg = [idx]
    elif kind == "select_frames":
        F2 = F + rng.randrange(1, 4)
        idx = rng.sample(range(F2), F)
        d2, c2 = junk((F2, P, T, D)), junk((F2, P, T))
        d2[idx] = data
        c2[idx] = conf
        arg = [idx]
    else:
        step, start = rng.choice([2, 3]), rng.randrange(0, 2)
        F2 = start + (F - 1) * step + 1 + rng.randrange(0, step)
        stop = rng.choice([None, F2 + 2])
        d2, c2 = junk((F2, P, T, D)), junk((F2, P, T))
        d2[start::step] = data
        c2[start::step] = conf
        arg = [start, stop, step]
        T2 = T
    T2 = d2.shape[2]
    comps = [{"name": "c0", "format": "XYZW"[:D] + "C", "points": ["p%d" % j for j in range(T2)], "limbs": [], "colors": []}]
    return {"op": [kind] + arg, "src": {"comps": comps, "shape": [int(x) for x in d2.shape], "data": [int(x) for x in d2.reshape(-1)],
                                       "conf": [int(x) for x in c2.reshape(-1)]}}


def gen_index_list(rng, n, edge):
    if edge == "neg" and n > 0:
        l = [rng.randrange(-n, n) for _ in range(rng.randrange(1, 4))]
        l[rng.randrange(len(l))] = rng.randrange(-n, 0)
        return l
    if edge == "empty":
        return []
    if edge == "oob":
        return [rng.choice([n, n + 3, -n - 1])] + ([0] if n else [])
    if n == 0:
        return [0]              # out of range everywhere
    k = rng.choice([1, 1, 2, 3, n, n + 1])
    return [rng.randrange(0, n) for _ in range(k)]


def gen_matrix(rng, D, exact, kind):
    rows, cols = D, D
    if kind == "nonsquare":
        cols = rng.choice([c for c in (1, 2, 3, 4, 5) if c != D])     # cols = 0: np.stack of an empty list (NumPy raises, others return)
    elif kind == "badrows":
        rows = D + 1
    if exact:
        vals = [float(rng.choice([0, 1, -1, 2, 0.5, -2, 3])) for _ in range(rows * cols)]
    else:
        vals = [rng.uniform(-2, 2) for _ in range(rows * cols)]
    w = [struct.unpack("<I", struct.pack("<f", v))[0] for v in vals]
    return [rows, cols, [w[r * cols:(r + 1) * cols] for r in range(rows)]]


def gen_ops(rng, case):
    F, P, T, D = case["shape"]
    ops = []
    kinds = ["get_points", "get_points", "select_frames", "select_frames", "getitem_int", "getitem_int", "getitem_slice", "getitem_slice",
             "slice_step", "matmul", "matmul", "zero_filled", "copy", "flatten"]
    for kind in rng.sample(kinds, rng.randrange(4, 9)):
        if kind in ("get_points", "select_frames"):
            n = T if kind == "get_points" else F
            edge = rng.choice(["none"] * 8 + ["oob", "neg", "empty"])
            ops.append([kind, gen_index_list(rng, n, edge)])
        elif kind == "getitem_int":
            ops.append([kind, rng.randrange(-F - 1, F + 1) if rng.random() < 0.7 else rng.randrange(0, max(1, F))])
        elif kind == "getitem_slice":
            def b():
                return None if rng.random() < 0.35 else rng.randrange(-F - 2, F + 3)
            step = rng.choice([None, None, 1, 2, 3, 1, 2, -1, -2, 0] if rng.random() < 0.3 else [None, 1, 2, 3])
            ops.append([kind, b(), b(), step])
        elif kind == "slice_step":
            ops.append([kind, rng.choice([1, 2, 2, 3, 4, 7, 1, 2, 3, 0, -1, -2]) if rng.random() < 0.25 else rng.choice([1, 2, 3, 4, 7])])
        elif kind == "matmul":
            mk = rng.choice(["square"] * 7 + ["nonsquare", "nonsquare", "badrows"])
            ops.append([kind] + gen_matrix(rng, D, case["exact"] or rng.random() < 0.5, mk))
        else:
            ops.append([kind])
    return ops


def case_edge(case):
    """a confidence TensorFlow's denormals-are-zero arithmetic reads as 0"""
    return "subnormal-confidence" if any(is_subnormal(w) for w in case["conf"]) else None


def enum_cases(tier):
    """small-scope enumerations (they validate the model against the code; the theorems do not rest on them):
    every slice of a 3-frame body with bounds in -5..5 / None, every index list of length <= 2 over -3..3"""
    def w(x):
        return struct.unpack("<I", struct.pack("<f", float(x)))[0]
    F, P, T, D = 3, 1, 2, 2
    base = {"dims": [10, 10, 0], "comps": [{"name": "c", "format": "XYC", "points": ["a", "b"], "limbs": [], "colors": []}],
            "fps": w(24.0), "shape": [F, P, T, D], "data": [w(i + 1) for i in range(F * P * T * D)],
            "conf": [w(1.0), 0, w(-2.0), 0x7FC00000, 0x80000000, w(0.5)], "args": None, "exact": True}
    rng_b = [None] + list(range(-5, 6)) if tier != "quick" else [None, -4, -1, 0, 1, 2, 4]
    steps = [None, 1, 2, 3, -1, -2] if tier != "quick" else [None, 2, -1]
    ops = [["getitem_slice", a, b, st] for a in rng_b for b in rng_b for st in steps]
    yield dict(base, ops=ops, enum="slices")
    r = list(range(-3, 4))
    lists = [[]] + [[i] for i in r] + ([[i, j] for i in r for j in r] if tier != "quick" else [[i, -i] for i in r])
    ops = [["get_points", l] for l in lists] + [["select_frames", l] for l in lists] + [["getitem_int", i] for i in range(-5, 6)] + \
          [["slice_step", k] for k in range(-3, 6)]
    yield dict(base, ops=ops, enum="indexes")


def op_edge(case, op):
    """None for arguments inside the common domain, else the name of the framework convention it leaves"""
    k = op[0]
    if k in ("get_points", "select_frames"):
        if not op[1]:
            return "empty-index-list"
        if any(i < 0 for i in op[1]):
            return "negative-index"
        F, P, T, D = case["shape"]
        w = case.get("args") or {}
        lo = w.get("start_frame") or 0
        hi = F if w.get("end_frame") is None else min(w["end_frame"], F)
        F = max(0, hi - lo)
        n = T if k == "get_points" else F
        if F * P * T * D == 0 and any(i >= n for i in op[1]):
            return "out-of-range-index-on-a-body-without-elements"      # Torch / TF skip the bounds check there
    if k == "getitem_slice" and op[3] is not None and op[3] < 0:
        return "negative-step"
    if k == "slice_step" and op[1] < 0:
        return "negative-step"
    return None


# ------------------------------------------------------------------------------------------------
# implementation side
def dump_body(b, kind):
    """canonical observation of a body of any backend: NaN -> one word, validity in one polarity"""
    import numpy.ma as ma
    d = b.data
    out = {"fps": canon64(pg.b64(b.fps))}
    if kind == "numpy":
        if isinstance(d, ma.MaskedArray):
            val = np.asarray(d.data)
            m = np.asarray(ma.getmaskarray(d))
            out["valid"] = [list(m.shape), [int(not x) for x in m.reshape(-1)]]
        else:
            val = np.asarray(d)
            out["valid"] = None
    else:
        if hasattr(d, "mask") and hasattr(d, "tensor"):
            val = np.asarray(d.tensor)
            m = np.asarray(d.mask)
            out["valid"] = [list(m.shape), [int(bool(x)) for x in m.reshape(-1)]]
        else:
            val = np.asarray(d)
            out["valid"] = None
    out["shape"] = list(val.shape)
    out["dtype"] = str(val.dtype)
    out["val"] = words32(val) if val.dtype == np.float32 else ["dtype", str(val.dtype)]
    c = np.asarray(b.confidence)
    out["cshape"] = list(c.shape)
    out["conf"] = words32(c) if c.dtype == np.float32 else ["dtype", str(c.dtype)]
    return out


def dump_flat(r, fps):
    a = np.asarray(r)
    rows = []
    for row in a.astype(np.float64):
        ints = [float(x) for x in row[1:3]]
        if any(x != int(x) for x in ints):
            return {"bad": "non-integral index columns"}
        rows.append([float(row[0]), int(ints[0]), int(ints[1])] + words32(row[3:].astype(np.float32)))
        if not np.array_equal(row[3:].astype(np.float32).astype(np.float64), row[3:], equal_nan=True):
            return {"bad": "values not float32-representable"}
    return {"ncols": int(a.shape[1]) if a.ndim == 2 else -1, "rows": rows}


class C08(common.Prop):
    ID = "C08"
    RUNNER = "c08"
    MODEL_FILES = ["model/C08_Body.v", "model/C08_Read.v", "model/C08_Run.v", "model/Codec.v", "base/Prog.v", "base/F32.v"]
    RULE = ("v0.2 files over the C01 space written with struct (1-3 components, T 0..9, F 0..6, P 0..3, D 1..4 and rarely 0; "
            "confidences from {+-0, 1, .5, .2, negative, NaN, +-inf, denormal, huge, random bits}; data random float32 bits, specials "
            "or small dyadic values), 8% with a frame window; each read by three body classes, converted by torch()/tensorflow(), and "
            "given 4-8 operations (get_points, select_frames, body[int], body[slice], slice_step, matmul square/non-square, zero_filled, "
            "copy, flatten) incl. out-of-range arguments; fps from {30, 29.97, 25, 1, 60, .001, +-0, NaN, inf, -2} or random with magnitude 2^-20..2^20; ~10% of index/step arguments are outside the common domain "
            "(negative index, empty list, negative step: model correspondence only). matmul values are compared exactly on dyadic "
            "inputs and within 8 float32 ulps of sum|x||m| otherwise, flatten's time column within 4 ulps(float32); everything "
            "else bit-exact. non-trivial = the read succeeds with F*P*T*D > 0; distinct by content hash " "30% two-step cases (the operations applied to the result of a selection from a larger file); conversion of a NumPy body after an in-place write to its array.")
    TRUSTED = ["Coq 8.16.1 kernel (vm_compute for the refuted witnesses and examples)", "harness/translate_c08.py (fail-closed ast translator)",
               "extraction: ExtrOcamlBasic only; runner/driver.ml", "harness/c08.py canonicalisers (NaN -> one word, mask polarity, errors -> one class) "
               "and its plain-NumPy reference for the oracle"]
    ASSUMPTIONS = ["numpy.ma / torch / tensorflow indexing, stacking, transpose, where, matmul kernels behave as transcribed (sampled by the correspondence)",
                   "torch.from_numpy / tf.constant preserve shape, dtype and content of the ndarray",
                   "rounding and summation order of the float32 dot product and of frame * (1 / fps) are not modelled (kernel is a section variable)",
                   "arguments of the shared operations are taken from the frameworks' common indexing domain (non-negative positions, non-empty "
                   "index lists, positive steps, float32 matrices)"]

    def __init__(self):
        self.facts = None

    def translate(self):
        files, self.facts = translate_c08.gen()
        return files

    def translate_outputs(self):
        return ["gen/Gen_C08.v"]

    def setup(self):
        import tensorflow as tf   # noqa: F401  (slow import, once)
        import torch              # noqa: F401
        from pose_format.numpy import NumPyPoseBody
        from pose_format.tensorflow.pose_body import TensorflowPoseBody
        from pose_format.torch.pose_body import TorchPoseBody
        self.classes = {"numpy": NumPyPoseBody, "torch": TorchPoseBody, "tensorflow": TensorflowPoseBody}
        try:
            self.cfg = translate_c08.runner_cfg(self.facts) if self.facts else translate_c08.REPAIRED_CFG
        except Exception:
            self.cfg = translate_c08.REPAIRED_CFG

    def gen_cases(self, rng, tier):
        for c in enum_cases(tier):
            yield c
        n = 260 if tier == "quick" else 8000
        for i in range(n):
            yield gen_case(rng, i)

    def features(self, case):
        F, P, T, D = case["shape"]
        cw = set(case["conf"])
        cls = ("neg" if any(w >> 31 and (w & 0x7FFFFFFF) not in (0,) and (w & 0x7FFFFFFF) <= 0x7F800000 for w in cw) else "") + \
              ("nan" if any((w & 0x7FFFFFFF) > 0x7F800000 for w in cw) else "") + ("z" if any((w & 0x7FFFFFFF) == 0 for w in cw) else "")
        if case.get("enum"):
            return ("enum", case["enum"], len(case["ops"]))
        return ("D%d" % D, "empty" if F * P * T == 0 else "full", (cls or "pos") + ("+subn" if case_edge(case) else ""), "win" if case.get("args") else ("after-" + case["pre"]["op"][0] if case.get("pre") else "all"),
                ",".join(sorted({o[0][:6] + ("!" + op_edge(case, o)[:5] if op_edge(case, o) else "") for o in case["ops"]}))[:60])

    def nontrivial(self, case):
        F, P, T, D = case["shape"]
        return F * P * T * D > 0

    # ---- implementation
    def _apply(self, body, kind, op):
        k = op[0]
        if k == "get_points":
            return dump_body(body.get_points(list(op[1])), kind)
        if k == "select_frames":
            return dump_body(body.select_frames(list(op[1])), kind)
        if k == "getitem_int":
            return dump_body(body[op[1]], kind)
        if k == "getitem_slice":
            return dump_body(body[slice(op[1], op[2], op[3])], kind)
        if k == "slice_step":
            return dump_body(body.slice_step(op[1]), kind)
        if k == "matmul":
            m = np.array(op[3], dtype=np.uint32).reshape(op[1], op[2]).view(np.float32)
            return dump_body(body.matmul(m), kind)
        if k == "zero_filled":
            return dump_body(body.zero_filled(), kind)
        if k == "copy":
            return dump_body(body.copy(), kind)
        if k == "flatten":
            return dump_flat(body.flatten(), body.fps)
        raise ValueError(k)

    def run_impl(self, case):
        from pose_format import Pose
        from pose_format.pose_header import PoseHeaderCache
        pre = case.get("pre")
        data = encode_file(dict(case, **pre["src"])) if pre else encode_file(case)
        args = {k: v for k, v in (case.get("args") or {}).items() if v is not None}
        out = {"read": [], "conv": [], "ops": [[None] * 3 for _ in case["ops"]]}
        bodies = []
        for kind in BACKENDS:
            PoseHeaderCache.clear_cache()
            try:
                b = Pose.read(data, pose_body=self.classes[kind], **args).body
                if pre:
                    po = pre["op"]
                    b = b.get_points(list(po[1])) if po[0] == "get_points" else \
                        b.select_frames(list(po[1])) if po[0] == "select_frames" else b[slice(po[1], po[2], po[3])]
                if kind == "numpy" and b.data.shape[0] >= 1 and (len(case["data"]) + len(case["ops"])) % 3 == 0:
                    # caller-side variety: the owner re-assigned body.data with an equal masked array it assembled itself
                    # (ma.stack / ma.concatenate of the frames, as normalize_hands_3d does): same values, same mask, NumPy's
                    # default fill_value
                    import numpy.ma as _ma
                    b.data = _ma.stack(list(b.data)) if len(case["ops"]) % 2 else _ma.concatenate([b.data[:1], b.data[1:]])
                out["read"].append(["ok", dump_body(b, kind)])
                bodies.append(b)
            except Exception as e:
                out["read"].append(["err", type(e).__name__])
                bodies.append(None)
        for kind in ("torch", "tensorflow"):
            try:
                if bodies[0] is None:
                    raise ValueError("numpy read failed")
                out["conv"].append(["ok", dump_body(getattr(bodies[0], kind)(), kind)])
            except Exception as e:
                out["conv"].append(["err", type(e).__name__])
        # conversion of a NumPy body whose array was written to in place (numpy.ma unmasks what is assigned): the converted bodies'
        # missing pattern comes from the confidences - a point is missing exactly when its confidence is 0 - not from whatever the
        # NumPy mask holds at the moment
        case["_edited"] = None
        if bodies[0] is not None and int(np.prod(case["shape"])) > 0:
            try:
                nb = bodies[0].copy()
                nb.data[...] = np.asarray(nb.data.data) + np.float32(0.0)
                conf = np.asarray(nb.confidence)
                want_valid = np.repeat((conf != 0)[..., None], nb.data.shape[-1], axis=-1)
                ed = {}
                for kind in ("torch", "tensorflow"):
                    try:
                        cb = getattr(nb, kind)()
                        ed[kind] = ["ok", bool(np.array_equal(np.asarray(cb.data.mask).astype(bool), want_valid)),
                                    bool(np.array_equal(np.asarray(cb.confidence), conf, equal_nan=True))]
                    except Exception as e:
                        ed[kind] = ["err", type(e).__name__]
                case["_edited"] = ed
            except Exception:
                case["_edited"] = None
        # conversion of a NumPy body that holds binary64 arrays (built in memory, or the output of interpolate()): the converted
        # bodies hold the same numbers - nothing is narrowed on the way - and a point is missing exactly when its confidence is 0
        case["_f64"] = None
        if int(np.prod(case["shape"])) > 0:
            try:
                F_, P_, T_, D_ = case["shape"]
                d64 = np.array(case["data"], dtype=np.uint32).view(np.float32).reshape(F_, P_, T_, D_).astype(np.float64)
                c64 = np.array(case["conf"], dtype=np.uint32).view(np.float32).reshape(F_, P_, T_).astype(np.float64)
                d64 = np.where(np.isfinite(d64), d64 * (1.0 + 2.0 ** -40), d64)            # not representable in binary32
                c64 = np.where(np.isfinite(c64) & (c64 != 0), c64 * 1e-60 if (F_ + T_) % 2 else c64 * (1.0 + 2.0 ** -40), c64)
                nb64 = self.classes["numpy"](30.0, d64.copy(), c64.copy())
                rec = {}
                for kind in ("torch", "tensorflow"):
                    try:
                        cb = getattr(nb64, kind)()
                        v = np.asarray(cb.data.tensor)
                        rec[kind] = ["ok", str(v.dtype), bool(np.array_equal(v.astype(np.float64), d64, equal_nan=True)),
                                     bool(np.array_equal(np.asarray(cb.confidence).astype(np.float64), c64, equal_nan=True)),
                                     bool(np.array_equal(np.asarray(cb.data.mask).astype(bool), np.repeat((c64 != 0)[..., None], D_, axis=-1)))]
                    except Exception as e:
                        rec[kind] = ["err", type(e).__name__]
                case["_f64"] = rec
            except Exception:
                case["_f64"] = None
        # the same body object used twice with its data RE-ASSIGNED in between (what normalize / normalize_distribution / `data * s`
        # do): select points, replace body.data by data + 1, select again - the second selection sees the new data on every
        # backend (nothing derived from the old array may survive on the object)
        case["_rebind"] = None
        if all(b is not None for b in bodies) and int(np.prod(case["shape"])) > 0:
            rec = {}
            for i, kind in enumerate(BACKENDS):
                try:
                    b2 = bodies[i].copy()
                    T_ = int(b2.data.shape[2])
                    idx = list(range(T_))[::-1]
                    b2.get_points(idx[:1])
                    before = dump_body(b2.get_points(idx), kind)
                    b2.data = b2.data + (np.float32(1.0) if kind == "numpy" else 1.0)      # (a Python float would widen a NumPy float32 array)
                    after = dump_body(b2.get_points(idx), kind)
                    rec[kind] = ["ok", before, after]
                    # copy() is a body of its own: overwriting the copy's confidences in place (NumPy, PyTorch; TensorFlow tensors
                    # are immutable) leaves the source's confidences what they were
                    if kind in ("numpy", "torch"):
                        try:
                            src_before = dump_body(bodies[i], kind)["conf"]
                            b3 = bodies[i].copy()
                            b3.confidence[...] = 0.125
                            rec[kind].append(dump_body(bodies[i], kind)["conf"] == src_before)
                        except Exception:
                            rec[kind].append(True)
                except Exception as e:
                    rec[kind] = ["err", type(e).__name__]
            case["_rebind"] = rec
        for j, op in enumerate(case["ops"]):
            for i, kind in enumerate(BACKENDS):
                if bodies[i] is None:
                    out["ops"][j][i] = ["err", "read failed"]
                    continue
                try:
                    out["ops"][j][i] = ["ok", self._apply(bodies[i], kind, op)]
                except Exception as e:
                    out["ops"][j][i] = ["err", type(e).__name__]
        case["_impl"] = out
        return out

    # ---- model
    def model_request(self, case):
        def o(x):
            return [] if x is None else [int(x)]
        ops = []
        for op in case["ops"]:
            k = op[0]
            if k == "get_points":
                ops.append([0, list(op[1])])
            elif k == "select_frames":
                ops.append([1, list(op[1])])
            elif k == "getitem_int":
                ops.append([2, op[1]])
            elif k == "getitem_slice":
                ops.append([3, o(op[1]), o(op[2]), o(op[3])])
            elif k == "slice_step":
                ops.append([4, op[1]])
            elif k == "matmul":
                ops.append([5, op[1], op[2], [list(r) for r in op[3]]])
            elif k == "zero_filled":
                ops.append([6])
            elif k == "copy":
                ops.append([7])
            elif k == "flatten":
                ops.append([8])
        return [self.cfg, list(encode_file(case)), pg.args_tree(case.get("args")), ops]

    @staticmethod
    def _obs(t):
        fps, shape, val, valid, cshape, conf = t
        return {"fps": canon64(fps), "shape": list(shape), "val": [pg.canon32(w) for w in val],
                "valid": None if valid == [] else [list(valid[0]), [int(x) for x in valid[1]]],
                "cshape": list(cshape), "conf": [pg.canon32(w) for w in conf], "dtype": "float32"}

    def model_output(self, case, reply):
        def res(t, f=self._obs):
            return ["ok", f(t[1])] if t[0] == 1 else ["err"]

        def flat(t):
            return {"fps": t[0], "rows": [[r[0], r[1], r[2], pg.canon32(r[3])] + [pg.canon32(w) for w in r[4]] for r in t[1]]}
        out = {"read": [res(t) for t in reply[0]], "conv": [res(t) for t in reply[1]], "ops": []}
        for op, trip in zip(case["ops"], reply[2]):
            out["ops"].append([res(t, flat if op[0] == "flatten" else self._obs) for t in trip])
        return out

    # ---- comparison of two observations (also used by the oracle)
    def _cmp_obs(self, a, b, what, tol=None):
        """a, b: ["ok", obs] | ["err"...].  tol: None (bit-exact) or array of per-cell absolute tolerances"""
        if a[0] != b[0]:
            return "%s: %s vs %s" % (what, a[0], b[0])
        if a[0] == "err":
            return None
        x, y = a[1], b[1]
        for k in ("shape", "cshape", "fps", "conf", "valid", "dtype"):
            if x.get(k) != y.get(k):
                return "%s: %s differs" % (what, k)
        if x["val"] != y["val"]:
            if tol is None or len(x["val"]) != len(y["val"]) or len(tol) != len(x["val"]):
                return "%s: values differ" % what
            for i, (p, q) in enumerate(zip(x["val"], y["val"])):
                if p == q:
                    continue
                fp, fq = f32(p), f32(q)
                if fp == fq:               # +0.0 / -0.0
                    continue
                if not math.isfinite(tol[i]) or tol[i] > 1e30:
                    continue               # ill-conditioned cell (overflow depends on the summation order)
                if not (math.isfinite(fp) and math.isfinite(fq)) or abs(fp - fq) > tol[i]:
                    return "%s: values differ beyond tolerance at cell %d (%r vs %r)" % (what, i, fp, fq)
        return None

    def compare(self, case, impl_out, model_out):
        for i, kind in enumerate(BACKENDS):
            d = self._cmp_obs(pg.strip_err(impl_out["read"][i]), model_out["read"][i], "read %s" % kind)
            if d:
                return d
        for i, kind in enumerate(("torch", "tensorflow")):
            d = self._cmp_obs(pg.strip_err(impl_out["conv"][i]), model_out["conv"][i], "convert %s" % kind)
            if d:
                return d
        for j, op in enumerate(case["ops"]):
            for i, kind in enumerate(BACKENDS):
                a, b = pg.strip_err(impl_out["ops"][j][i]), model_out["ops"][j][i]
                what = "%s %s on %s" % (op[0], common.small(op[1:], 80), kind)
                if op[0] == "flatten":
                    d = self._cmp_flat(a, b, what)
                elif op[0] == "matmul":
                    d = self._cmp_obs(a, b, what, tol=self._tol_for(case, op, a))
                else:
                    d = self._cmp_obs(a, b, what)
                if d:
                    return d
        return None

    def _tol_for(self, case, op, a):
        """tolerances for the cells of a matmul result, from the read values of this case (plain NumPy, float64)"""
        if a[0] != "ok":
            return None
        ref = self._ref_read(case)
        if ref is None or op[1] != ref["shape"][3]:
            return None
        x = np.abs(np.array(ref["val"], dtype=np.uint32).view(np.float32).astype(np.float64)).reshape(-1, ref["shape"][3]) if ref["shape"][3] else np.zeros((0, 0))
        m = np.abs(np.array(op[3], dtype=np.uint32).reshape(op[1], op[2]).view(np.float32).astype(np.float64))
        with np.errstate(all="ignore"):
            s = np.nan_to_num(x, nan=0.0, posinf=0.0, neginf=0.0) @ m
        # + flush-to-zero of subnormal inputs / results (TensorFlow): up to the smallest normal per term
        return list((s * 8 * 2.0 ** -24 + 1.2e-38 * (m.sum(axis=0)[None, :] + 1.0)).reshape(-1))

    @staticmethod
    def _cmp_flat(a, b, what):
        if a[0] != b[0]:
            return "%s: %s vs %s" % (what, a[0], b[0])
        if a[0] == "err":
            return None
        x, y = a[1], b[1]
        if "bad" in x:
            return "%s: %s" % (what, x["bad"])
        if len(x["rows"]) != len(y["rows"]):
            return "%s: %d rows vs %d" % (what, len(x["rows"]), len(y["rows"]))
        fps = pg.from_b64(y["fps"])
        for r, s in zip(x["rows"], y["rows"]):
            if r[1:] != s[1:]:
                return "%s: row (%s) differs" % (what, s[:3])
            with np.errstate(all="ignore"):
                t = s[0] * (1.0 / fps)
            if not (r[0] == t or (math.isnan(r[0]) and math.isnan(t)) or abs(r[0] - t) <= 4 * 2.0 ** -24 * abs(t) + 1.5e-45
                    or (math.isinf(r[0]) and abs(t) >= 3.4e38 and (r[0] > 0) == (t > 0))):
                return "%s: time column %r vs frame %d / fps %r" % (what, r[0], s[0], fps)
        return None

    # ---- reference (plain NumPy on the case; no pose_format, no Coq model)
    def _ref_read(self, case):
        """expected observation of reading the file, or None when every backend must raise"""
        if "_ref" in case:
            return case["_ref"]
        F, P, T, D = case["shape"]
        ref = None
        a = case.get("args") or {}
        if D >= 1:
            s, e = a.get("start_frame"), a.get("end_frame")
            lo, hi, ok = 0, F, True
            if s is not None and s > 0:
                ok = s < F
                lo = s
            if e is not None:
                hi = min(e, F)
            if ok and hi - lo >= 0:
                val = np.array(case["data"], dtype=np.uint32).reshape(F, P, T, D)[lo:hi]
                conf = np.array(case["conf"], dtype=np.uint32).reshape(F, P, T)[lo:hi]
                cf = conf.view(np.float32)
                with np.errstate(all="ignore"):
                    valid = np.repeat((cf != 0)[..., None], D, axis=3)
                ref = {"fps": canon64(pg.b64(f32(case["fps"]))), "shape": list(val.shape), "val": [pg.canon32(int(w)) for w in val.reshape(-1)],
                       "valid": [list(valid.shape), [int(x) for x in valid.reshape(-1)]], "cshape": list(conf.shape),
                       "conf": [pg.canon32(int(w)) for w in conf.reshape(-1)], "dtype": "float32"}
        case["_ref"] = ref
        return ref

    def _ref_op(self, case, op):
        """-> ("err",) | ("ok", obs, mode) with mode in full / vis / zf / flat ;  None if the reference does not apply"""
        ref = self._ref_read(case)
        if ref is None:
            return ("err",)
        val = np.array(ref["val"], dtype=np.uint32).reshape(ref["shape"])
        valid = np.array(ref["valid"][1], dtype=bool).reshape(ref["shape"])
        conf = np.array(ref["conf"], dtype=np.uint32).reshape(ref["cshape"])
        fps = ref["fps"]
        k = op[0]

        def pack(v, ok, c, fps=fps):
            return {"fps": fps, "shape": list(v.shape), "val": [pg.canon32(int(w)) for w in v.reshape(-1)],
                    "valid": [list(ok.shape), [int(x) for x in ok.reshape(-1)]], "cshape": list(c.shape),
                    "conf": [pg.canon32(int(w)) for w in c.reshape(-1)], "dtype": "float32"}
        try:
            if k == "get_points":
                ix = list(op[1])
                n = val.shape[2]
                if any(not (-n <= i < n) for i in ix):
                    return ("err",)
                ix = np.array(ix, dtype=np.int64)
                return ("ok", pack(val[:, :, ix], valid[:, :, ix], conf[:, :, ix]), "full")
            if k == "select_frames":
                ix = list(op[1])
                n = val.shape[0]
                if any(not (-n <= i < n) for i in ix):
                    return ("err",)
                ix = np.array(ix, dtype=np.int64)
                return ("ok", pack(val[ix], valid[ix], conf[ix]), "full")
            if k == "getitem_int":
                n = val.shape[0]
                if not (-n <= op[1] < n):
                    return ("err",)
                return ("ok", pack(val[op[1]], valid[op[1]], conf[op[1]]), "full")
            if k == "getitem_slice":
                if op[3] == 0:
                    return ("err",)
                sl = slice(op[1], op[2], op[3])
                return ("ok", pack(val[sl], valid[sl], conf[sl]), "full")
            if k == "slice_step":
                if op[1] == 0:
                    return ("err",)
                sl = slice(None, None, op[1])
                return ("ok", pack(val[sl], valid[sl], conf[sl], fps=canon64(pg.b64(pg.from_b64(fps) / op[1]))), "full")
            if k == "copy":
                return ("ok", pack(val, valid, conf), "full")
            if k == "zero_filled":
                return ("ok", pack(np.where(valid, val, np.uint32(0)), valid, conf), "zf")
            if k == "matmul":
                rows, cols = op[1], op[2]
                if rows != val.shape[3]:
                    return ("err",)
                m = np.array(op[3], dtype=np.uint32).reshape(rows, cols).view(np.float32)
                x = np.where(valid, val, np.uint32(0)).view(np.float32)
                with np.errstate(all="ignore"):
                    r = (x.astype(np.float64) @ m.astype(np.float64)).astype(np.float32)
                ok = np.repeat(valid.all(axis=3)[..., None], cols, axis=3) if rows else np.ones(r.shape, dtype=bool)
                r = np.where(ok, r.view(np.uint32), np.uint32(0))
                return ("ok", pack(r, ok, conf), "vis")
            if k == "flatten":
                f = pg.from_b64(fps)
                if f == 0 or val.shape[0] * val.shape[1] * val.shape[2] == 0:
                    return ("err",)
                rows = []
                cf = conf.view(np.float32)
                for fr in range(val.shape[0]):
                    for p in range(val.shape[1]):
                        for t in range(val.shape[2]):
                            if cf[fr, p, t] != 0:
                                rows.append([fr, p, t, pg.canon32(int(conf[fr, p, t]))] + [pg.canon32(int(w)) for w in val[fr, p, t]])
                return ("ok", {"fps": fps, "rows": rows}, "flat")
        except (IndexError, ValueError, ZeroDivisionError):
            return ("err",)
        return None

    @staticmethod
    def _vis(o):
        """values with invalid cells zeroed (when validity and values are aligned)"""
        o = dict(o)
        if o.get("valid") and o["valid"][0] == o["shape"] and isinstance(o["val"], list) and len(o["val"]) == len(o["valid"][1]):
            o["val"] = [w if ok else 0 for w, ok in zip(o["val"], o["valid"][1])]
        return o

    # ---- oracle: the statement of C08 on the implementation alone
    def oracle(self, case):
        out = case.get("_impl")
        if out is None:
            return None
        F, P, T, D = case["shape"]
        ref = self._ref_read(case)
        exp = ["ok", ref] if ref is not None else ["err"]
        conf_words = set(case["conf"])
        odd_conf = any(((w >> 31) and (w & 0x7FFFFFFF) != 0) or (w & 0x7FFFFFFF) > 0x7F800000 for w in conf_words)
        skip_tf = case_edge(case) is not None and not EDGE_ARGS_ARE_FAILURES
        for i, kind in enumerate(BACKENDS):
            if skip_tf and kind == "tensorflow":
                continue
            d = self._cmp_obs(pg.strip_err(out["read"][i]), exp, "reading the file into the %s body vs the file's content" % kind)
            if d:
                return {"what": d, "stage": "read", "backend": kind, "D": D, "odd_conf": odd_conf,
                        "got": common.small(out["read"][i], 500)}
        for i, kind in enumerate(("torch", "tensorflow")):
            if skip_tf and kind == "tensorflow":
                continue
            d = self._cmp_obs(pg.strip_err(out["conv"][i]), exp, "NumPy body .%s() vs the file's content" % kind)
            if d:
                return {"what": d, "stage": "convert", "backend": kind, "D": D, "odd_conf": odd_conf, "got": common.small(out["conv"][i], 500)}
        for kind, rec in (case.get("_edited") or {}).items():
            if skip_tf and kind == "tensorflow":
                continue
            if rec[0] != "ok" or not rec[1] or not rec[2]:
                return {"what": "NumPy body written to in place, then .%s(): %s" % (kind, "raises " + rec[1] if rec[0] != "ok" else
                        "the converted body's missing pattern is not `confidence == 0`" if not rec[1] else "confidences differ"),
                        "stage": "convert-after-edit", "backend": kind, "D": D, "odd_conf": odd_conf}
        rb = case.get("_rebind") or {}
        for kind, rec in rb.items():
            if rec[0] == "ok" and len(rec) > 3 and rec[3] is False:
                return {"what": "the %s body's copy() shares its confidence array with the source: overwriting the copy's confidences in place "
                                "changed the source's" % kind, "stage": "copy-shares-confidence", "backend": kind, "D": D, "odd_conf": odd_conf}
        if rb.get("numpy", ["err"])[0] == "ok":
            ref_after = rb["numpy"][2]
            for kind, rec in rb.items():
                if kind == "numpy" or (skip_tf and kind == "tensorflow"):
                    continue
                if rec[0] != "ok":
                    return {"what": "select points, re-assign body.data, select again: the %s body raises %s where NumPy does not" % (kind, rec[1]),
                            "stage": "rebind-then-select", "backend": kind, "D": D, "odd_conf": odd_conf}
                a, b = rec[2], ref_after
                d = None
                if a.get("shape") != b.get("shape") or a.get("valid") != b.get("valid") or a.get("conf") != b.get("conf"):
                    d = "shape / missing pattern / confidences differ"
                elif isinstance(a.get("val"), list) and isinstance(b.get("val"), list) and a.get("valid") and len(a["val"]) == len(b["val"]) == len(a["valid"][1]):
                    bad = [i for i, (p_, q_, v_) in enumerate(zip(a["val"], b["val"], a["valid"][1])) if v_ and p_ != q_ and f32(p_) != f32(q_)]
                    if bad:
                        d = "observed coordinates differ at cell %d (%r vs %r)" % (bad[0], f32(a["val"][bad[0]]), f32(b["val"][bad[0]]))
                if d:
                    return {"what": "select points, re-assign body.data (data + 1), select again - %s vs NumPy: %s" % (kind, d),
                            "stage": "rebind-then-select", "backend": kind, "D": D, "odd_conf": odd_conf}
        for kind, rec in (case.get("_f64") or {}).items():
            if rec[0] != "ok" or not (rec[2] and rec[3] and rec[4]):
                return {"what": "binary64 NumPy body .%s(): %s" % (kind, "raises " + rec[1] if rec[0] != "ok" else
                        "coordinates differ (dtype %s)" % rec[1] if not rec[2] else "confidences differ (dtype %s)" % rec[1] if not rec[3] else
                        "missing pattern is not `confidence == 0`"), "stage": "convert-float64", "backend": kind, "D": D, "odd_conf": odd_conf}
        for j, op in enumerate(case["ops"]):
            edge = op_edge(case, op)
            # a negative index leaves the common domain only on TensorFlow (tf.gather rejects it); NumPy and Torch share
            # Python's from-the-end convention and are still compared with the reference
            tf_only_edge = False
            if edge == "negative-index":
                rr = self._ref_read(case)
                if rr is not None:
                    n_ax = rr["shape"][2] if op[0] == "get_points" else rr["shape"][0]
                    tf_only_edge = all(-n_ax <= i < n_ax for i in op[1])     # out-of-range requests keep their own conventions
            if edge and not tf_only_edge and not EDGE_ARGS_ARE_FAILURES:
                continue
            r = self._ref_op(case, op)
            if r is None:
                continue
            for i, kind in enumerate(BACKENDS):
                if skip_tf and kind == "tensorflow":
                    continue
                if tf_only_edge and kind == "tensorflow" and not EDGE_ARGS_ARE_FAILURES:
                    continue
                got = pg.strip_err(out["ops"][j][i])
                if op[0] == "flatten" and kind == "tensorflow":
                    if got[0] != "err":
                        return {"what": "flatten is offered by TensorFlow now; the check has no reference for it", "stage": "op", "op": op[0], "backend": kind}
                    continue
                what = "%s%s on the %s body vs the reference" % (op[0], common.small(op[1:], 60), kind)
                if r[0] == "err":
                    d = None if got[0] == "err" else what + ": returns a result where the others raise"
                elif op[0] == "flatten":
                    d = self._cmp_flat(got, ["ok", r[1]], what)
                else:
                    mode = r[2]
                    e = r[1]
                    g = got
                    if got[0] == "ok":
                        g1 = dict(got[1])
                        if mode == "zf":
                            # Torch / TF leave a bare tensor: shape, values, confidence, fps are compared; validity where present
                            e = dict(e)
                            if g1.get("valid") is None:
                                e["valid"] = None
                        elif mode == "vis":
                            g1 = self._vis(g1)
                        g = ["ok", g1]
                    d = self._cmp_obs(g, ["ok", e], what, tol=self._tol_for(case, op, got) if op[0] == "matmul" else None)
                if d:
                    return {"what": d, "stage": "op", "op": op[0], "backend": kind, "D": D, "args": common.small(op[1:], 200), "edge": edge,
                            "nonsquare": op[0] == "matmul" and op[1] != op[2], "odd_conf": odd_conf, "got": common.small(out["ops"][j][i], 500)}
        return None

    def classify(self, case, failure):
        st, bk, D = failure.get("stage"), failure.get("backend"), failure.get("D")
        what = failure.get("what", "")
        if st in ("read", "convert"):
            if bk == "tensorflow" and D != 2 and ("valid differs" in what or "ok vs err" in what):
                return "tf-mask-stacked-twice"
            if bk in ("torch", "tensorflow") and failure.get("odd_conf") and "valid differs" in what:
                return "validity-rule-negative-or-nan-confidence"
            return "%s-%s" % (st, bk)
        if st in ("convert-after-edit", "convert-float64", "rebind-then-select", "copy-shares-confidence"):
            return "%s-%s" % (st, bk)
        op = failure.get("op")
        if failure.get("edge"):
            return "%s-%s-%s" % (op, bk, failure["edge"])
        if op == "getitem_int" and bk == "numpy" and "err vs ok" in what:
            return "numpy-int-index-raises"
        if op == "matmul" and failure.get("nonsquare") and bk in ("torch", "tensorflow"):
            return "matmul-nonsquare-mask-shape"
        if op == "zero_filled" and bk in ("torch", "tensorflow") and "values differ" in what:
            return "zero-filled-nonfinite-under-mask"
        return "op-%s-%s" % (op, bk)


PROP = C08
