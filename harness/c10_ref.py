"""C10 - NumPy reference interpreter for masked-tensor programs (the oracle's "direct reference").

A masked tensor is a pair (values float64 ndarray, valid bool ndarray) of identical shape.  Every
instruction is interpreted directly from the property statement:
  * structural operations act identically on values and validity;
  * an elementwise result is valid exactly when all its operands are (a plain tensor / scalar is all-valid);
  * a strict sum is valid only when every summed element is (vacuously for an empty axis);
  * a matrix product row is valid exactly when every coordinate of the input row is;
  * mean / variance / std use only valid elements and are valid where at least one exists
    (non-finite results are replaced by 0, the documented `fix_nan` of the implementation);
  * zero-fill replaces invalid values by 0 and yields an all-valid tensor.
Typing is per framework (fw in {"torch", "tf"}): an ill-typed instruction raises RefError.
Nothing here looks at the Coq model or at pose_format."""
import numpy as np


class RefError(Exception):
    pass


def _req(c, msg="ill-typed"):
    if not c:
        raise RefError(msg)


def norm_dim(d, rank, extra=0):
    """dimension index in [-(rank+extra), rank+extra) -> non-negative"""
    n = rank + extra
    _req(isinstance(d, int) and -n <= d < n, "dim out of range")
    return d + n if d < 0 else d


UNARY = {
    "sqrt": np.sqrt, "square": np.square, "cos": np.cos, "sin": np.sin, "tan": np.tan,
    "acos": np.arccos, "asin": np.arcsin, "atan": np.arctan,
}
# which framework functions the fall-back metaclass offers as mask-preserving (set by the harness from the source's
# `doesnt_change_mask`; a function outside it returns a plain tensor, i.e. is not a masked-tensor operation)
WHITELISTS = {"torch": set(UNARY), "tf": set(UNARY)}

ARITH = {
    "add": lambda a, b: a + b, "sub": lambda a, b: a - b, "mul": lambda a, b: a * b,
    "div": lambda a, b: a / b, "rdiv": lambda a, b: b / a,
}


def arr(shape, vals):
    return np.array(vals, dtype=np.float64).reshape(shape)


def fix_nan(x):
    return np.where(np.isfinite(x), x, 0.0)


def masked_mean(v, m, axis, keepdims=False):
    """mean over valid elements only; valid where at least one exists; non-finite -> 0"""
    with np.errstate(all="ignore"):
        s = np.where(m, v, 0.0).sum(axis=axis, keepdims=keepdims)
        c = m.sum(axis=axis, keepdims=keepdims).astype(np.float64)
        return fix_nan(np.asarray(s / c)), np.asarray(c != 0)


def get_operand(o, env):
    kind = o[0]
    if kind == "reg":
        _req(0 <= o[1] < len(env), "no such register")
        return env[o[1]]
    if kind == "plain":
        v = arr(o[1], o[2])
        return v, np.ones(v.shape, dtype=bool)
    if kind == "scalar":
        v = np.array(float(o[1]), dtype=np.float64)
        return v, np.ones((), dtype=bool)
    raise RefError("operand kind")


def ref_exec(fw, ins, env):
    """-> list of new (values, valid) pairs"""
    op = ins[0]

    def reg(r):
        _req(isinstance(r, int) and 0 <= r < len(env), "no such register")
        return env[r]

    with np.errstate(all="ignore"):
        if op == "getitem":
            v, m = reg(ins[1])
            key = []
            _req(len(ins[2]) <= v.ndim, "too many indices")
            for ax, k in enumerate(ins[2]):
                if k[0] == "i":
                    n = v.shape[ax]
                    _req(-n <= k[1] < n, "index out of range")
                    key.append(k[1])
                else:
                    _req(k[3] >= 1, "slice step")
                    key.append(slice(k[1], k[2], k[3]))
            key = tuple(key)
            return [(v[key], m[key])]
        if op == "getlist":
            v, m = reg(ins[1])
            _req(v.ndim >= 1 and len(ins[2]) >= 1)
            n = v.shape[0]
            ix = []
            for i in ins[2]:
                if fw == "tf":
                    _req(0 <= i < n, "gather index")
                else:
                    _req(-n <= i < n, "index")
                ix.append(i)
            return [(v[ix], m[ix])]
        if op == "arith":
            v, m = reg(ins[2])
            _req(ins[1] in ARITH)
            _req(ins[1] != "rdiv" or (fw == "tf" and ins[3][0] != "reg"))
            ov, om = get_operand(ins[3], env)
            try:
                shp = np.broadcast_shapes(v.shape, ov.shape)
            except ValueError:
                raise RefError("broadcast")
            res = ARITH[ins[1]](v, ov)
            return [(np.asarray(res), np.broadcast_to(m & om, shp))]
        if op == "divm":
            _req(fw == "torch")
            v, m = reg(ins[1])
            ov, om = reg(ins[2])
            try:
                shp = np.broadcast_shapes(v.shape, ov.shape)
            except ValueError:
                raise RefError("broadcast")
            # update_mask=False: the divisor's validity is deliberately ignored (documented switch)
            mm = (m & om) if ins[3] else np.broadcast_to(m, shp)
            return [(np.asarray(v / ov), np.broadcast_to(mm, shp))]
        if op == "sum":
            v, m = reg(ins[1])
            if ins[2] is None:
                _req(fw == "tf")
                return [(np.asarray(v.sum()), np.asarray(m.all()))]
            d = norm_dim(ins[2], v.ndim)
            return [(np.asarray(v.sum(axis=d)), np.asarray(m.all(axis=d)))]
        if op == "transpose":
            _req(fw == "torch")
            v, m = reg(ins[1])
            d0, d1 = norm_dim(ins[2], v.ndim), norm_dim(ins[3], v.ndim)
            return [(np.swapaxes(v, d0, d1), np.swapaxes(m, d0, d1))]
        if op == "permute":
            v, m = reg(ins[1])
            _req(len(ins[2]) == v.ndim)
            p = [norm_dim(d, v.ndim) for d in ins[2]] if fw == "torch" else list(ins[2])
            _req(sorted(p) == list(range(v.ndim)), "not a permutation")
            return [(np.transpose(v, p), np.transpose(m, p))]
        if op == "squeeze":
            v, m = reg(ins[1])
            if ins[2] is None:
                return [(np.squeeze(v), np.squeeze(m))]
            d = norm_dim(ins[2], v.ndim)
            if v.shape[d] != 1:
                _req(fw == "torch", "squeeze of a non-1 axis")
                return [(v, m)]
            return [(np.squeeze(v, d), np.squeeze(m, d))]
        if op == "split":
            v, m = reg(ins[1])
            d = norm_dim(ins[3], v.ndim)
            n = v.shape[d]
            a = ins[2]
            if isinstance(a, int):
                if fw == "torch":
                    _req(a > 0)
                    sizes = [min(a, n - i) for i in range(0, n, a)] if n > 0 else [0]
                else:
                    _req(a > 0 and n % a == 0)
                    sizes = [n // a] * a
            else:
                _req(len(a) >= 1 and all(isinstance(x, int) and x >= 0 for x in a) and sum(a) == n)
                sizes = list(a)
            out, pos = [], 0
            for s in sizes:
                sl = [slice(None)] * v.ndim
                sl[d] = slice(pos, pos + s)
                out.append((v[tuple(sl)], m[tuple(sl)]))
                pos += s
            return out
        if op == "reshape":
            v, m = reg(ins[1])
            shp = list(ins[2])
            _req(all(isinstance(x, int) and x >= -1 for x in shp) and shp.count(-1) <= 1)
            if -1 in shp:
                rest = int(np.prod([x for x in shp if x != -1], dtype=np.int64))
                _req(rest > 0 and v.size % rest == 0)
                shp[shp.index(-1)] = v.size // rest
            _req(int(np.prod(shp, dtype=np.int64)) == v.size)
            return [(v.reshape(shp), m.reshape(shp))]
        if op == "cat":
            ops_ = [get_operand(o, env) for o in ins[1]]
            _req(len(ops_) >= 1 and all(o[0] != "scalar" for o in ins[1]))
            r = ops_[0][0].ndim
            _req(r >= 1 and all(x[0].ndim == r for x in ops_))
            d = norm_dim(ins[2], r)
            for x in ops_:
                _req(all(x[0].shape[k] == ops_[0][0].shape[k] for k in range(r) if k != d), "cat shapes")
            return [(np.concatenate([x[0] for x in ops_], axis=d), np.concatenate([x[1] for x in ops_], axis=d))]
        if op == "stack":
            ops_ = [reg(r) for r in ins[1]]
            _req(len(ops_) >= 1 and all(x[0].shape == ops_[0][0].shape for x in ops_), "stack shapes")
            d = norm_dim(ins[2], ops_[0][0].ndim, extra=1)
            return [(np.stack([x[0] for x in ops_], axis=d), np.stack([x[1] for x in ops_], axis=d))]
        if op == "matmul":
            v, m = reg(ins[1])
            mat = arr(ins[2], ins[3])
            _req(v.ndim >= 2 and mat.ndim == 2 and v.shape[-1] == mat.shape[0], "matmul shapes")
            res = v @ mat
            return [(res, np.broadcast_to(m.all(axis=-1, keepdims=True), res.shape))]
        if op in ("mean", "var", "std"):
            _req(fw == "tf")
            v, m = reg(ins[1])
            ax = None if ins[2] is None else norm_dim(ins[2], v.ndim)
            if op == "mean":
                return [masked_mean(v, m, ax)]
            mu, _ = masked_mean(v, m, ax, keepdims=True)
            var, vm = masked_mean(np.square(v - mu), m, ax)
            return [(var if op == "var" else np.sqrt(var), vm)]
        if op == "zerofill":
            v, m = reg(ins[1])
            return [(np.where(m, v, 0.0), np.ones(v.shape, dtype=bool))]
        if op == "unary":
            v, m = reg(ins[3])
            _req(ins[1] in UNARY and ins[2] in ("method", "fallback"))
            _req(ins[2] == "fallback" or (fw == "tf" and ins[1] in ("sqrt", "square")))
            _req(ins[2] == "method" or ins[1] in WHITELISTS[fw], "not offered as mask-preserving")
            return [(np.asarray(UNARY[ins[1]](v)), m)]
        if op == "fallback":
            # a white-listed framework function that is not elementwise: the statement demands that validity follows the values
            v, m = reg(ins[2])
            _req(ins[1] in WHITELISTS[fw], "not offered as mask-preserving")
            if ins[1] == "unsqueeze":
                _req(fw == "torch" and len(ins[3]) == 1)
                d = norm_dim(ins[3][0], v.ndim, extra=1)
                return [(np.expand_dims(v, d), np.expand_dims(m, d))]
            raise RefError("fallback function without a reference")
    raise RefError("unknown instruction %r" % (op,))


def ref_run(fw, inputs, prog):
    """-> (env, err_step or None)"""
    env = []
    for t in inputs:
        env.append((arr(t["shape"], [dec_val(x) for x in t["vals"]]), np.array(t["mask"], dtype=bool).reshape(t["shape"])))
    for k, ins in enumerate(prog):
        try:
            env.extend(ref_exec(fw, ins, env))
        except RefError:
            return env, k
    return env, None


def dec_val(x):
    if isinstance(x, str):
        return {"nan": float("nan"), "inf": float("inf"), "-inf": float("-inf")}[x]
    return float(x)
