"""Fail-closed translator for C11: the declarative facts that the selection / helper model depends on,
regenerated from the Python `ast` of /repo on every run (-> coq/gen/Gen_C11.v).

Recognised sources: pose_body.py (POINTS_DIMS), the three get_points (axes of every transpose/permute, the
two gathers), pose_header.py (constructor parameter -> attribute maps), pose.py (how get_components builds the
new component / header), utils/generic.py (detect order, hide-legs tables, wrist name tables, holistic
reduction lists), utils/openpose.py, utils/openpose_135.py (component names, body points), utils/holistic.py
(component names, FLIPPED_BODY_POINTS, face point count; parsed, never imported - mediapipe is absent).
Anything that does not have exactly the expected shape raises TranslateError (a broken tie)."""
import ast
import json
import os
import warnings

from common import TranslateError
import translate_py
from translate_py import cls, fn, body_wo_doc, cstr, fail


def parse(rel):
    with warnings.catch_warnings():
        warnings.simplefilter("ignore")          # invalid-escape SyntaxWarnings of the parsed sources
        return translate_py.parse(rel)


# ------------------------------------------------------------------------------------------------
# a tiny evaluator for constant expressions (literals, f-strings, comprehensions over known lists)
class _NoValue(Exception):
    pass


def ev(node, env, where):
    def bad(msg):
        fail("%s: cannot evaluate %s (%s)" % (where, ast.unparse(node)[:80], msg))
    if isinstance(node, ast.Constant):
        return node.value
    if isinstance(node, ast.List):
        return [ev(x, env, where) for x in node.elts]
    if isinstance(node, ast.Tuple):
        return tuple(ev(x, env, where) for x in node.elts)
    if isinstance(node, ast.Dict):
        return {ev(k, env, where): ev(v, env, where) for k, v in zip(node.keys, node.values)}
    if isinstance(node, ast.Name):
        if node.id not in env:
            bad("unknown name")
        return env[node.id]
    if isinstance(node, ast.JoinedStr):
        out = ""
        for v in node.values:
            if isinstance(v, ast.Constant):
                out += v.value
            elif isinstance(v, ast.FormattedValue) and v.conversion == -1 and v.format_spec is None:
                x = ev(v.value, env, where)
                if not isinstance(x, str):
                    bad("non-str in f-string")
                out += x
            else:
                bad("f-string part")
        return out
    if isinstance(node, ast.BinOp) and isinstance(node.op, ast.Add):
        a, b = ev(node.left, env, where), ev(node.right, env, where)
        if type(a) is type(b) and isinstance(a, (str, list, int)):
            return a + b
        bad("+ on unlike values")
    if isinstance(node, ast.Subscript) and isinstance(node.slice, ast.Constant) and isinstance(node.slice.value, int):
        return ev(node.value, env, where)[node.slice.value]
    if isinstance(node, ast.Call):
        if isinstance(node.func, ast.Attribute) and node.func.attr in ("upper", "lower") and not node.args and not node.keywords:
            s = ev(node.func.value, env, where)
            if not isinstance(s, str):
                bad("upper/lower of non-str")
            return getattr(s, node.func.attr)()
        if isinstance(node.func, ast.Name) and node.func.id in ("any", "all") and len(node.args) == 1 and not node.keywords:
            xs = ev(node.args[0], env, where)
            return any(xs) if node.func.id == "any" else all(xs)
        if isinstance(node.func, ast.Name) and node.func.id == "str" and len(node.args) == 1:
            return str(ev(node.args[0], env, where))
        bad("call")
    if isinstance(node, ast.Compare) and len(node.ops) == 1:
        a, b = ev(node.left, env, where), ev(node.comparators[0], env, where)
        op = node.ops[0]
        if isinstance(op, ast.In):
            return a in b
        if isinstance(op, ast.NotIn):
            return a not in b
        if isinstance(op, ast.Eq):
            return a == b
        if isinstance(op, ast.NotEq):
            return a != b
        bad("comparison")
    if isinstance(node, (ast.ListComp, ast.GeneratorExp)):
        out = []

        def rec(gens, env2):
            if not gens:
                out.append(ev(node.elt, env2, where))
                return
            g = gens[0]
            if g.is_async or not isinstance(g.target, ast.Name):
                bad("comprehension target")
            for x in ev(g.iter, env2, where):
                e3 = dict(env2)
                e3[g.target.id] = x
                if all(ev(c, e3, where) for c in g.ifs):
                    rec(gens[1:], e3)
        rec(node.generators, env)
        return out
    bad("unsupported expression")


def module_assign(tree, name, where):
    r = [n for n in tree.body if isinstance(n, ast.Assign) and len(n.targets) == 1 and ast.unparse(n.targets[0]) == name]
    if len(r) != 1:
        fail("%s: module-level assignment %s not found exactly once" % (where, name))
    return r[0].value


def mfn(tree, name, where):
    r = [n for n in tree.body if isinstance(n, ast.FunctionDef) and n.name == name]
    if len(r) != 1:
        fail("%s: function %s not found exactly once" % (where, name))
    return r[0]


def str_list(v, where):
    if not (isinstance(v, list) and all(isinstance(x, str) for x in v)):
        fail("%s: expected a list of str, got %r" % (where, v))
    for x in v:
        check_ascii(x, where)
    return v


def check_ascii(s, where):
    if any(ord(ch) > 126 or ord(ch) < 32 for ch in s):
        fail("%s: non-printable-ASCII name %r in a table" % (where, s))


# ------------------------------------------------------------------------------------------------
def points_dims():
    t = parse("pose_body.py")
    v = ev(module_assign(t, "POINTS_DIMS", "pose_body.py"), {}, "POINTS_DIMS")
    if not (isinstance(v, tuple) and all(isinstance(x, int) and x >= 0 for x in v)):
        fail("POINTS_DIMS is not a tuple of naturals")
    return list(v)


def _axes_of_call(c):
    """axes argument of np/ma.transpose(x, axes=..), x.permute(..), x.transpose(perm=..), tf.transpose(x, perm=..)"""
    kws = {k.arg: k.value for k in c.keywords}
    for k in ("axes", "perm", "dims"):
        if k in kws:
            return kws[k]
    if isinstance(c.func, ast.Attribute) and c.func.attr == "permute" and len(c.args) == 1:
        return c.args[0]
    return None


def get_points_perms(rel, clsname, pd):
    """the axes of every transpose / permute executed by get_points, in source order, and the number of gathers"""
    t = parse(rel)
    c = cls(t, clsname)
    f = fn(c, "get_points")
    if [a.arg for a in f.args.args] != ["self", "indexes"]:
        fail("%s.get_points: unexpected parameters" % clsname)
    env = {"POINTS_DIMS": pd}
    perms, gathers = [], 0
    ret = None
    for st in body_wo_doc(f):
        if isinstance(st, ast.Assign) and len(st.targets) == 1 and isinstance(st.targets[0], ast.Name):
            tgt = st.targets[0].id
            if isinstance(st.value, (ast.Tuple, ast.List)):
                env[tgt] = list(ev(st.value, env, clsname + ".get_points"))
                continue
            for n in ast.walk(st.value):
                if isinstance(n, ast.Call):
                    fu = ast.unparse(n.func)
                    if fu == "self.points_perspective" and not n.args:
                        pp = fn(c, "points_perspective")
                        b = body_wo_doc(pp)
                        if not (len(b) == 1 and isinstance(b[0], ast.Return) and isinstance(b[0].value, ast.Call)):
                            fail("%s.points_perspective: not a single return of a call" % clsname)
                        ax = _axes_of_call(b[0].value)
                        if ax is None or "self.data" not in ast.unparse(b[0].value):
                            fail("%s.points_perspective: unrecognised" % clsname)
                        perms.append((n.lineno, n.col_offset, list(ev(ax, env, "points_perspective"))))
                    elif fu.split(".")[-1] in ("transpose", "permute"):
                        ax = _axes_of_call(n)
                        if ax is None:
                            fail("%s.get_points: transpose/permute without recognisable axes: %s" % (clsname, ast.unparse(n)))
                        perms.append((n.lineno, n.col_offset, list(ev(ax, env, clsname + ".get_points"))))
                    elif fu == "tf.gather":
                        ok_idx = ("indexes", "tf.constant(indexes, dtype=tf.int32)", "tf.constant(indexes, dtype=tf.int64)",
                                  "tf.convert_to_tensor(indexes, dtype=tf.int32)", "tf.convert_to_tensor(indexes, dtype=tf.int64)")
                        if not (len(n.args) == 2 and ast.unparse(n.args[1]) in ok_idx):
                            fail("%s.get_points: tf.gather not on `indexes`" % clsname)
                        gathers += 1
                    elif fu in ("tf.constant", "tf.convert_to_tensor", "np.asarray", "np.array", "list"):
                        pass
                    else:
                        fail("%s.get_points: unrecognised call %s" % (clsname, fu))
                elif isinstance(n, ast.Subscript):
                    if ast.unparse(n.slice) != "indexes":
                        fail("%s.get_points: subscript other than [indexes]" % clsname)
                    gathers += 1
        elif isinstance(st, ast.Return):
            ret = ast.unparse(st.value)
        else:
            fail("%s.get_points: unrecognised statement %s" % (clsname, ast.unparse(st)[:60]))
    if gathers != 2:
        fail("%s.get_points: expected exactly two gathers by `indexes`, found %d" % (clsname, gathers))
    if ret is None or not ret.endswith("(self.fps, new_data, new_confidence)"):
        fail("%s.get_points: unexpected return %s" % (clsname, ret))
    # evaluation order inside one statement is inner-first; all statements here nest (outer(inner[indexes])), so
    # within a statement the inner call (larger column) runs first
    out = []
    by_line = {}
    for ln, col, p in perms:
        by_line.setdefault(ln, []).append((col, p))
    for ln in sorted(by_line):
        out.extend(p for _, p in sorted(by_line[ln], reverse=True))
    return out


def ctor_map(rel, clsname):
    """__init__ parameters and the attribute each is stored in"""
    c = cls(parse(rel), clsname)
    f = fn(c, "__init__")
    params = [a.arg for a in f.args.args][1:]
    defaults = [ast.unparse(d) for d in f.args.defaults]
    fields = []
    for st in body_wo_doc(f):
        if isinstance(st, ast.Assign) and len(st.targets) == 1 and ast.unparse(st.targets[0]).startswith("self."):
            fields.append((ast.unparse(st.targets[0])[5:], ast.unparse(st.value)))
        else:
            fail("%s.__init__: unrecognised statement %s" % (clsname, ast.unparse(st)[:60]))
    return params, defaults, fields


def get_components_calls():
    f = fn(cls(parse("pose.py"), "Pose"), "get_components")
    comp, hdr, pose = [], [], []
    for n in ast.walk(f):
        if isinstance(n, ast.Call) and isinstance(n.func, ast.Name):
            if n.func.id == "PoseHeaderComponent":
                comp.append([ast.unparse(a) for a in n.args] + ["%s=%s" % (k.arg, ast.unparse(k.value)) for k in n.keywords])
            elif n.func.id == "PoseHeader":
                hdr.append([ast.unparse(a) for a in n.args] + ["%s=%s" % (k.arg, ast.unparse(k.value)) for k in n.keywords])
            elif n.func.id == "Pose":
                pose.append([ast.unparse(a) for a in n.args] + ["%s=%s" % (k.arg, ast.unparse(k.value)) for k in n.keywords])
    if len(comp) != 1 or len(hdr) != 1 or len(pose) != 1:
        fail("Pose.get_components: expected one PoseHeaderComponent(...), one PoseHeader(...), one Pose(...)")
    return comp[0], hdr[0], pose[0]


# ------------------------------------------------------------------------------------------------
def openpose_facts():
    t = parse("utils/openpose.py")
    body_points = str_list(ev(module_assign(t, "BODY_POINTS", "openpose.py"), {}, "openpose.BODY_POINTS"), "openpose.BODY_POINTS")
    return body_points, component_names(t, "openpose.py")


def component_names(t, where):
    """names of the literal list OpenPose_Components = [PoseHeaderComponent(name=...), <lambda>(name), ...]"""
    v = module_assign(t, "OpenPose_Components", where)
    if not isinstance(v, ast.List):
        fail("%s: OpenPose_Components is not a list literal" % where)
    names = []
    for e in v.elts:
        if not isinstance(e, ast.Call) or not isinstance(e.func, ast.Name):
            fail("%s: OpenPose_Components element %s" % (where, ast.unparse(e)[:50]))
        if e.func.id == "PoseHeaderComponent":
            kw = {k.arg: k.value for k in e.keywords}
            n = kw.get("name", e.args[0] if e.args else None)
            if not isinstance(n, ast.Constant) or not isinstance(n.value, str):
                fail("%s: component name is not a literal" % where)
            names.append(n.value)
        else:
            lam = module_assign(t, e.func.id, where)
            if not (isinstance(lam, ast.Lambda) and [a.arg for a in lam.args.args] == ["name"] and isinstance(lam.body, ast.Call)
                    and ast.unparse(lam.body.func) == "PoseHeaderComponent"
                    and any(k.arg == "name" and ast.unparse(k.value) == "name" for k in lam.body.keywords)):
                fail("%s: %s is not `lambda name: PoseHeaderComponent(name=name, ...)`" % (where, e.func.id))
            if not (len(e.args) == 1 and isinstance(e.args[0], ast.Constant) and isinstance(e.args[0].value, str)):
                fail("%s: %s(...) argument is not a literal" % (where, e.func.id))
            names.append(e.args[0].value)
    return str_list(names, where)


def holistic_facts():
    t = parse("utils/holistic.py")
    flipped = str_list(ev(module_assign(t, "FLIPPED_BODY_POINTS", "holistic.py"), {}, "FLIPPED_BODY_POINTS"), "FLIPPED_BODY_POINTS")
    lam = module_assign(t, "FACE_POINTS_NUM", "holistic.py")
    if not (isinstance(lam, ast.Lambda) and isinstance(lam.body, ast.BinOp) and isinstance(lam.body.op, ast.Add)
            and isinstance(lam.body.right, ast.Constant) and isinstance(lam.body.right.value, int)
            and ast.unparse(lam.body.left) == "additional_points"):
        fail("holistic.FACE_POINTS_NUM is not `lambda additional_points=0: additional_points + <int>`")
    face_n = lam.body.right.value
    f = mfn(t, "holistic_components", "holistic.py")
    rets = [s for s in body_wo_doc(f) if isinstance(s, ast.Return)]
    if len(rets) != 1 or not isinstance(rets[0].value, ast.List):
        fail("holistic_components: no single list return")
    comps = []
    for e in rets[0].value.elts:
        if not isinstance(e, ast.Call):
            fail("holistic_components: element is not a call")
        fu = ast.unparse(e.func)
        kw = {k.arg: k.value for k in e.keywords}
        if fu == "PoseHeaderComponent" and isinstance(kw.get("name"), ast.Constant):
            comps.append((kw["name"].value, ast.unparse(kw.get("points"))))
        elif fu == "holistic_hand_component" and e.args and isinstance(e.args[0], ast.Constant):
            comps.append((e.args[0].value, "HAND_POINTS"))
        else:
            fail("holistic_components: unrecognised element %s" % ast.unparse(e)[:60])
    for n, _ in comps:
        check_ascii(n, "holistic_components")
    return flipped, face_n, comps


# ------------------------------------------------------------------------------------------------
def if_chain(stmts, var, where):
    """[(literal, body)] of `if var == lit: ... elif var == lit: ... else: raise`, plus the statements after it"""
    out = []
    i = [k for k, s in enumerate(stmts) if isinstance(s, ast.If)]
    if not i:
        fail("%s: no if-chain" % where)
    node = stmts[i[0]]
    while True:
        t = node.test
        if not (isinstance(t, ast.Compare) and len(t.ops) == 1 and isinstance(t.ops[0], ast.Eq) and ast.unparse(t.left) == var
                and isinstance(t.comparators[0], ast.Constant)):
            fail("%s: test %s is not `%s == <literal>`" % (where, ast.unparse(t), var))
        out.append((t.comparators[0].value, node.body))
        if len(node.orelse) == 1 and isinstance(node.orelse[0], ast.If):
            node = node.orelse[0]
            continue
        if node.orelse and not all(isinstance(s, ast.Raise) for s in node.orelse):
            fail("%s: final else is not a raise" % where)
        break
    return out, stmts[:i[0]], stmts[i[0] + 1:]


def generic_facts(openpose_body, openpose_names, openpose135_names):
    t = parse("utils/generic.py")
    # imports that bind the names this file uses
    imp = {}
    for n in t.body:
        if isinstance(n, ast.ImportFrom):
            for a in n.names:
                imp[a.asname or a.name] = (n.module, a.name)
    if imp.get("OpenPose_Components") != ("pose_format.utils.openpose", "OpenPose_Components") or \
       imp.get("OPENPOSE_BODY_POINTS") != ("pose_format.utils.openpose", "BODY_POINTS") or \
       imp.get("OpenPose135_Components") != ("pose_format.utils.openpose_135", "OpenPose_Components"):
        fail("generic.py: the OpenPose imports are not the expected ones")
    facts = {}
    # ---- detect_known_pose_format
    f = mfn(t, "detect_known_pose_format", "generic.py")
    env = {}
    order = []
    for st in body_wo_doc(f):
        if isinstance(st, ast.Assign) and len(st.targets) == 1 and isinstance(st.targets[0], ast.Name):
            tg = st.targets[0].id
            src = ast.unparse(st.value)
            if tg == "component_names" and src == "get_component_names(pose_or_header)":
                continue
            if tg == "mediapipe_components":
                env[tg] = str_list(ev(st.value, {}, "mediapipe_components"), "mediapipe_components")
            elif src == "[c.name for c in OpenPose_Components]":
                env[tg] = openpose_names
            elif src == "[c.name for c in OpenPose135_Components]":
                env[tg] = openpose135_names
            else:
                fail("detect_known_pose_format: unrecognised assignment %s" % ast.unparse(st)[:80])
        elif isinstance(st, ast.For):
            if not (ast.unparse(st.target) == "component_name" and ast.unparse(st.iter) == "component_names" and not st.orelse):
                fail("detect_known_pose_format: unexpected loop header")
            for s in st.body:
                if not (isinstance(s, ast.If) and not s.orelse and len(s.body) == 1 and isinstance(s.body[0], ast.Return)
                        and isinstance(s.body[0].value, ast.Constant) and isinstance(s.test, ast.Compare)
                        and isinstance(s.test.ops[0], ast.In) and ast.unparse(s.test.left) == "component_name"
                        and isinstance(s.test.comparators[0], ast.Name)):
                    fail("detect_known_pose_format: unexpected loop statement %s" % ast.unparse(s)[:80])
                order.append((s.test.comparators[0].id, s.body[0].value.value))
        elif isinstance(st, ast.Raise):
            pass
        else:
            fail("detect_known_pose_format: unrecognised statement %s" % ast.unparse(st)[:80])
    if [r for _, r in order] != ["holistic", "openpose", "openpose_135"]:
        fail("detect_known_pose_format: the formats are not tested in the order holistic, openpose, openpose_135")
    facts["mediapipe"], facts["openpose"], facts["openpose135"] = [env[l] for l, _ in order]
    # ---- pose_hide_legs
    f = mfn(t, "pose_hide_legs", "generic.py")
    if [a.arg for a in f.args.args] != ["pose", "remove"]:
        fail("pose_hide_legs: unexpected parameters")
    b = body_wo_doc(f)
    chain, before, after = if_chain(b, "known_pose_format", "pose_hide_legs")
    if [ast.unparse(s) for s in before] != ["known_pose_format = detect_known_pose_format(pose)"]:
        fail("pose_hide_legs: unexpected prologue")
    hide = {}
    for lit, body in chain:
        e = {"OPENPOSE_BODY_POINTS": openpose_body}
        for s in body:
            if not (isinstance(s, ast.Assign) and len(s.targets) == 1 and isinstance(s.targets[0], ast.Name)):
                fail("pose_hide_legs[%s]: unrecognised statement %s" % (lit, ast.unparse(s)[:60]))
            e[s.targets[0].id] = ev(s.value, e, "pose_hide_legs[%s]" % lit)
        d = e.get("points_to_remove_dict")
        if not isinstance(d, dict):
            fail("pose_hide_legs[%s]: points_to_remove_dict not assigned" % lit)
        hide[lit] = [(k, str_list(v, "pose_hide_legs")) for k, v in d.items()]
        if lit == "openpose":
            if "words_to_look_for" not in e:
                fail("pose_hide_legs[openpose]: words_to_look_for not assigned")
            facts["hide_words"] = str_list(e["words_to_look_for"], "words_to_look_for")
        for k, _ in hide[lit]:
            check_ascii(k, "pose_hide_legs")
    if sorted(hide) != ["holistic", "openpose"]:
        fail("pose_hide_legs: branches %s, expected holistic and openpose" % sorted(hide))
    tail = [ast.unparse(s) for s in after]
    exp_tail_head = "if remove:\n    return pose.remove_components([], points_to_remove_dict)"
    if not tail or tail[0] != exp_tail_head:
        fail("pose_hide_legs: `if remove: return pose.remove_components([], points_to_remove_dict)` not found")
    facts["hide"] = hide
    facts["hide_tail"] = tail[1:]
    # ---- wrist name tables
    def wrist(fname):
        g = mfn(t, fname, "generic.py")
        if [a.arg for a in g.args.args] != ["pose", "hand"]:
            fail("%s: unexpected parameters" % fname)
        out = {}
        for st in body_wo_doc(g):
            if isinstance(st, ast.Assign) and ast.unparse(st) == "known_pose_format = detect_known_pose_format(pose)":
                continue
            if isinstance(st, ast.If) and not st.orelse and len(st.body) == 1 and isinstance(st.body[0], ast.Return):
                tst = st.test
                c = st.body[0].value
                if not (isinstance(tst, ast.Compare) and ast.unparse(tst.left) == "known_pose_format" and isinstance(tst.ops[0], ast.Eq)
                        and isinstance(tst.comparators[0], ast.Constant) and isinstance(c, ast.Call)
                        and ast.unparse(c.func) == "pose.header.get_point_index" and len(c.args) == 2 and not c.keywords):
                    fail("%s: unrecognised branch %s" % (fname, ast.unparse(st)[:80]))
                out[tst.comparators[0].value] = {h: (ev(c.args[0], {"hand": h}, fname), ev(c.args[1], {"hand": h}, fname))
                                                  for h in ("LEFT", "RIGHT")}
            elif isinstance(st, ast.Raise):
                pass
            else:
                fail("%s: unrecognised statement %s" % (fname, ast.unparse(st)[:80]))
        if sorted(out) != ["holistic", "openpose"]:
            fail("%s: branches %s" % (fname, sorted(out)))
        return out
    hw, bw = wrist("get_hand_wrist_index"), wrist("get_body_hand_wrist_index")
    facts["wrist"] = {fm: [(h, hw[fm][h], bw[fm][h]) for h in ("LEFT", "RIGHT")] for fm in ("holistic", "openpose")}
    for fm in facts["wrist"]:
        for h, a, b2 in facts["wrist"][fm]:
            for s in a + b2:
                if not isinstance(s, str):
                    fail("wrist table: non-str")
                check_ascii(s, "wrist table")
    g = mfn(t, "correct_wrists", "generic.py")
    hands = []
    for st in body_wo_doc(g):
        if isinstance(st, ast.Assign) and isinstance(st.value, ast.Call) and ast.unparse(st.value.func) == "correct_wrist" \
                and ast.unparse(st.targets[0]) == "pose" and len(st.value.args) == 2 and ast.unparse(st.value.args[0]) == "pose" \
                and isinstance(st.value.args[1], ast.Constant):
            hands.append(st.value.args[1].value)
        elif isinstance(st, ast.Return) and ast.unparse(st.value) == "pose":
            pass
        else:
            fail("correct_wrists: unrecognised statement %s" % ast.unparse(st)[:80])
    facts["wrists_hands"] = str_list(hands, "correct_wrists")
    # ---- reduce_holistic
    g = mfn(t, "reduce_holistic", "generic.py")
    e = {}
    consts = {}
    for st in body_wo_doc(g):
        src = ast.unparse(st)
        if isinstance(st, ast.Expr) and isinstance(st.value, ast.Constant):
            continue
        if src == "known_pose_format = detect_known_pose_format(pose)":
            continue
        if src == "if known_pose_format != 'holistic':\n    return pose":
            consts["guard"] = True
            continue
        if isinstance(st, ast.Assign) and isinstance(st.targets[0], ast.Name):
            tg = st.targets[0].id
            if tg in ("face_contours", "ignore_names"):
                e[tg] = str_list(ev(st.value, {}, tg), tg)
            elif tg == "body_component":
                v = st.value
                if not (isinstance(v, ast.Subscript) and ast.unparse(v.slice) == "0" and isinstance(v.value, ast.ListComp)
                        and ast.unparse(v.value.elt) == "c" and ast.unparse(v.value.generators[0].iter) == "pose.header.components"
                        and len(v.value.generators[0].ifs) == 1):
                    fail("reduce_holistic: body_component has an unrecognised shape")
                c = v.value.generators[0].ifs[0]
                if not (isinstance(c, ast.Compare) and ast.unparse(c.left) == "c.name" and isinstance(c.ops[0], ast.Eq)
                        and isinstance(c.comparators[0], ast.Constant)):
                    fail("reduce_holistic: body_component filter")
                consts["body"] = c.comparators[0].value
            elif tg == "body_no_face_no_hands":
                if src != "body_no_face_no_hands = [p for p in body_component.points if all([i not in p for i in ignore_names])]":
                    fail("reduce_holistic: body_no_face_no_hands has an unrecognised shape: %s" % src)
            elif tg == "components":
                v = st.value
                if not (isinstance(v, ast.ListComp) and ast.unparse(v.elt) == "c.name"
                        and ast.unparse(v.generators[0].iter) == "pose.header.components" and len(v.generators[0].ifs) == 1):
                    fail("reduce_holistic: components has an unrecognised shape")
                c = v.generators[0].ifs[0]
                if not (isinstance(c, ast.Compare) and ast.unparse(c.left) == "c.name" and isinstance(c.ops[0], ast.NotEq)
                        and isinstance(c.comparators[0], ast.Constant)):
                    fail("reduce_holistic: components filter")
                consts["world"] = c.comparators[0].value
            else:
                fail("reduce_holistic: unrecognised assignment to %s" % tg)
        elif isinstance(st, ast.Return):
            c = st.value
            if not (isinstance(c, ast.Call) and ast.unparse(c.func) == "pose.get_components" and len(c.args) == 2
                    and ast.unparse(c.args[0]) == "components" and isinstance(c.args[1], ast.Dict)):
                fail("reduce_holistic: unexpected return")
            d = {}
            for k, v in zip(c.args[1].keys, c.args[1].values):
                if not isinstance(k, ast.Constant):
                    fail("reduce_holistic: dict key")
                d[ast.unparse(v)] = k.value
            if sorted(d) != ["body_no_face_no_hands", "face_contours"]:
                fail("reduce_holistic: the points dict does not map exactly face_contours and body_no_face_no_hands")
            consts["face"] = d["face_contours"]
            consts["body_key"] = d["body_no_face_no_hands"]
        else:
            fail("reduce_holistic: unrecognised statement %s" % src[:80])
    if not consts.get("guard") or consts.get("body") != consts.get("body_key") or "world" not in consts or "face" not in consts:
        fail("reduce_holistic: incomplete / inconsistent shape %s" % consts)
    for k in ("body", "face", "world"):
        check_ascii(consts[k], "reduce_holistic")
    facts["face_contours"], facts["ignore_names"] = e["face_contours"], e["ignore_names"]
    facts["reduce"] = consts
    return facts


# ------------------------------------------------------------------------------------------------
_CACHE = {}
FALLBACK = os.path.join(os.path.dirname(os.path.abspath(__file__)), "c11_facts_fallback.json")


def _sections():
    def s_perms(F):
        pd = points_dims()
        F["points_dims"] = pd
        F["np_perms"] = get_points_perms("numpy/pose_body.py", "NumPyPoseBody", pd)
        F["torch_perms"] = get_points_perms("torch/pose_body.py", "TorchPoseBody", pd)
        F["tf_perms"] = get_points_perms("tensorflow/pose_body.py", "TensorflowPoseBody", pd)

    def s_ctors(F):
        F["component_ctor"] = ctor_map("pose_header.py", "PoseHeaderComponent")
        F["header_ctor"] = ctor_map("pose_header.py", "PoseHeader")
        F["gc_component_args"], F["gc_header_args"], F["gc_pose_args"] = get_components_calls()

    def s_tables(F):
        ob, on = openpose_facts()
        o135 = component_names(parse("utils/openpose_135.py"), "openpose_135.py")
        F["openpose_body_points"] = ob
        F["flipped_body_points"], F["face_points_num"], F["holistic_components"] = holistic_facts()
        F.update(generic_facts(ob, on, o135))
    return [s_perms, s_ctors, s_tables]


def facts(strict=True):
    """all regenerated facts as Python values (also used by the harness to build format-shaped headers and by its
    oracle).  strict: raise TranslateError on the first unrecognised shape (a broken tie).  Not strict: sections that
    cannot be translated are filled from the committed copy c11_facts_fallback.json, so that the failing-input search
    can still run; the broken tie itself is reported by translate()."""
    key = "strict" if strict else "lenient"
    if key in _CACHE:
        return _CACHE[key]
    F, errors = {}, []
    for sec in _sections():
        G = {}
        try:
            sec(G)
            F.update(G)
        except TranslateError as e:
            errors.append(e)
        except Exception as e:                          # a crash of the translator is a broken tie as well
            errors.append(TranslateError("translator crashed: %r" % (e,)))
    if errors:
        if strict:
            raise errors[0]
        fb = json.load(open(FALLBACK))
        for k, v in fb.items():
            F.setdefault(k, v)
        F["_errors"] = [str(e) for e in errors]
    _CACHE[key] = F
    return F


def glist(items):
    return "[" + "; ".join(items) + "]"


def gstrs(l):
    return glist([cstr(x) for x in l])


def gnats(l):
    return glist([str(int(x)) for x in l])


def gdict(d):
    return glist(["(%s, %s)" % (cstr(k), gstrs(v)) for k, v in d])


def gwrist(rows):
    return glist(["(%s, ((%s, %s), (%s, %s)))" % (cstr(h), cstr(a[0]), cstr(a[1]), cstr(b[0]), cstr(b[1])) for h, a, b in rows])


def gen():
    F = facts()
    L = ["(* GENERATED by harness/translate_c11.py from /repo on every run - do not edit. *)",
         "From Coq Require Import List ZArith.", "Require Import C11_Str C11_Select C11_Helpers.", "Import ListNotations.",
         "Open Scope str_scope.", "Open Scope list_scope.", ""]
    L.append("Definition points_dims : list nat := %s.   (* pose_body.py POINTS_DIMS *)" % gnats(F["points_dims"]))
    for k in ("np_perms", "torch_perms", "tf_perms"):
        L.append("Definition %s : list (list nat) := %s.   (* axes of the transposes of get_points, in execution order *)"
                 % (k, glist([gnats(p) for p in F[k]])))
    for nm, key in (("component", "component_ctor"), ("header", "header_ctor")):
        params, defaults, fields = F[key]
        L.append("Definition %s_ctor_params : list str := %s." % (nm, gstrs(params)))
        L.append("Definition %s_ctor_defaults : list str := %s." % (nm, gstrs(defaults)))
        L.append("Definition %s_ctor_fields : list (str * str) := %s."
                 % (nm, glist(["(%s, %s)" % (cstr(a), cstr(b)) for a, b in fields])))
    L.append("Definition gc_component_args : list str := %s.   (* pose.py get_components *)" % gstrs(F["gc_component_args"]))
    L.append("Definition gc_header_args : list str := %s." % gstrs(F["gc_header_args"]))
    L.append("Definition gc_pose_args : list str := %s." % gstrs(F["gc_pose_args"]))
    L.append("Definition openpose_body_points : list str :=\n  %s." % gstrs(F["openpose_body_points"]))
    L.append("Definition flipped_body_points : list str :=\n  %s." % gstrs(F["flipped_body_points"]))
    L.append("Definition face_points_num : nat := %d." % F["face_points_num"])
    L.append("Definition holistic_component_names : list str := %s." % gstrs([n for n, _ in F["holistic_components"]]))
    L.append("Definition holistic_component_points : list str := %s." % gstrs([p for _, p in F["holistic_components"]]))
    L.append("Definition correct_wrists_hands : list str := %s." % gstrs(F["wrists_hands"]))
    L.append("Definition hide_openpose_words : list str := %s.   (* generic.py words_to_look_for *)" % gstrs(F["hide_words"]))
    r = F["reduce"]
    L.append("Definition tables : tables := mkTables\n  %s\n  %s\n  %s\n  %s\n  %s\n  %s\n  %s\n  %s\n  %s\n  %s %s %s."
             % (gstrs(F["mediapipe"]), gstrs(F["openpose"]), gstrs(F["openpose135"]),
                gdict(F["hide"]["holistic"]), gdict(F["hide"]["openpose"]),
                gwrist(F["wrist"]["holistic"]), gwrist(F["wrist"]["openpose"]),
                gstrs(F["face_contours"]), gstrs(F["ignore_names"]), cstr(r["body"]), cstr(r["face"]), cstr(r["world"])))
    return {"Gen_C11.v": "\n".join(L) + "\n"}


if __name__ == "__main__":
    import sys
    if len(sys.argv) > 1 and sys.argv[1] == "--write-fallback":
        json.dump(facts(), open(FALLBACK, "w"), indent=1, sort_keys=True)
    else:
        print(gen()["Gen_C11.v"])
