"""C11 - selecting, removing or hiding points by name affects exactly those points."""
import copy
import itertools
import struct
import warnings

import numpy as np
import numpy.ma as ma

import common
import translate_c11

warnings.simplefilter("ignore")

BACKENDS = ["np", "torch", "tf"]
# MediaPipe's published hand landmark names (mediapipe is not installed; utils/holistic.py takes them from
# mp_holistic.HandLandmark).  generic.py names WRIST, PINKY_MCP, INDEX_FINGER_MCP, MIDDLE_FINGER_MCP among them.
MP_HAND_POINTS = ["WRIST", "THUMB_CMC", "THUMB_MCP", "THUMB_IP", "THUMB_TIP", "INDEX_FINGER_MCP", "INDEX_FINGER_PIP",
                  "INDEX_FINGER_DIP", "INDEX_FINGER_TIP", "MIDDLE_FINGER_MCP", "MIDDLE_FINGER_PIP", "MIDDLE_FINGER_DIP",
                  "MIDDLE_FINGER_TIP", "RING_FINGER_MCP", "RING_FINGER_PIP", "RING_FINGER_DIP", "RING_FINGER_TIP",
                  "PINKY_MCP", "PINKY_PIP", "PINKY_DIP", "PINKY_TIP"]
NAME_POOL = ["A", "B", "C", "hand", "face", "x y", "", "NOSE", "p0", "p1", "p2", "p3", "p4", "p5", "é", "手", "\U0001F600", "a", "b",
             "POSE", "Hip", "LHip", "RWrist", "0", "1", "10"]


def b64(x):
    return struct.unpack("<Q", struct.pack("<d", float(x)))[0]


def utf8(s):
    return list(s.encode("utf-8"))


def from_utf8(l):
    return bytes(l).decode("utf-8", errors="replace")


# ------------------------------------------------------------------------------------------------
# pose descriptions (JSON) -> implementation objects; implementation objects -> canonical dumps
def cell_data(f, p, n, d):
    return float(((f * 4 + p) * 1024 + n) * 4 + d + 1)


def cell_conf(f, p, n):
    return float((f * 4 + p) * 1024 + n) + 0.5


def make_pose_desc(rng, comps, F, P, D, maskmode="explicit", bbox=False, zero_conf=0.3):
    N = sum(len(c["points"]) for c in comps)
    data = np.zeros((F, P, N, D), np.float32)
    conf = np.zeros((F, P, N), np.float32)
    for f in range(F):
        for p in range(P):
            for n in range(N):
                r = rng.random()
                conf[f, p, n] = 0.0 if r < zero_conf else (-0.0 if r < zero_conf + 0.03 else cell_conf(f, p, n))
                for d in range(D):
                    data[f, p, n, d] = cell_data(f, p, n, d)
    mask = np.array([[[[1 if rng.random() < 0.3 else 0 for _ in range(D)] for _ in range(N)] for _ in range(P)] for _ in range(F)],
                    dtype=np.uint8).reshape(F, P, N, D)
    return {"version": 0.2, "dims": [rng.choice([1, 640, 1000]), rng.choice([1, 480, 1000]), rng.choice([0, 1, 3])],
            "bbox": bool(bbox), "comps": comps, "fps": rng.choice([24, 25.0, 29.97, 30]), "shape": [F, P, N, D],
            "data": [int(x) for x in data.view(np.uint32).ravel()], "conf": [int(x) for x in conf.view(np.uint32).ravel()],
            "mask": [int(x) for x in mask.ravel()], "maskmode": maskmode}


class Impl:
    """lazy imports of the implementation"""

    def __init__(self):
        from pose_format import Pose
        from pose_format.pose_header import PoseHeader, PoseHeaderComponent, PoseHeaderDimensions
        from pose_format.numpy import NumPyPoseBody
        from pose_format.utils import generic
        self.Pose, self.PoseHeader, self.PoseHeaderComponent, self.PoseHeaderDimensions = Pose, PoseHeader, PoseHeaderComponent, PoseHeaderDimensions
        self.NumPyPoseBody = NumPyPoseBody
        self.generic = generic
        self._torch = self._tf = None

    def torch(self):
        if self._torch is None:
            import torch
            from pose_format.torch.pose_body import TorchPoseBody
            from pose_format.torch.masked.tensor import MaskedTensor
            self._torch = (torch, TorchPoseBody, MaskedTensor)
        return self._torch

    def tf(self):
        if self._tf is None:
            import tensorflow as tf
            from pose_format.tensorflow.pose_body import TensorflowPoseBody
            from pose_format.tensorflow.masked.tensor import MaskedTensor
            self._tf = (tf, TensorflowPoseBody, MaskedTensor)
        return self._tf

    def build(self, pd, be):
        comps = [self.PoseHeaderComponent(c["name"], list(c["points"]), [tuple(l) for l in c["limbs"]],
                                          [tuple(k) for k in c["colors"]], c["format"]) for c in pd["comps"]]
        header = self.PoseHeader(pd["version"], self.PoseHeaderDimensions(*pd["dims"]), comps, is_bbox=pd["bbox"])
        F, P, N, D = pd["shape"]
        data = np.array(pd["data"], dtype=np.uint32).view(np.float32).reshape(F, P, N, D).copy()
        conf = np.array(pd["conf"], dtype=np.uint32).view(np.float32).reshape(F, P, N).copy()
        mask = np.array(pd["mask"], dtype=bool).reshape(F, P, N, D).copy()
        if be == "np":
            mm = pd.get("maskmode", "explicit")
            if mm == "explicit":
                body = self.NumPyPoseBody(pd["fps"], ma.masked_array(data, mask=mask), conf)
            elif mm == "nomask":
                body = self.NumPyPoseBody(pd["fps"], ma.masked_array(data), conf)
            else:
                body = self.NumPyPoseBody(pd["fps"], data, conf)
        elif be == "torch":
            torch, Body, MT = self.torch()
            body = Body(pd["fps"], MT(torch.from_numpy(data), torch.from_numpy(~mask)), torch.from_numpy(conf))
        else:
            tf, Body, MT = self.tf()
            body = Body(pd["fps"], MT(tf.constant(data), tf.constant(~mask)), tf.constant(conf))
        return self.Pose(header, body)

    def dump(self, pose):
        h, b = pose.header, pose.body
        comps = []
        for c in h.components:
            comps.append({"name": c.name, "format": c.format, "points": list(c.points),
                          "limbs": [[int(a), int(x)] for a, x in c.limbs],
                          "colors": [[int(v) for v in k] for k in np.asarray(c.colors).reshape(-1, 3).tolist()] if len(c.colors) else []})
        cn = type(b).__name__
        if cn == "NumPyPoseBody":
            be = "np"
            data, mask, conf = np.asarray(ma.getdata(b.data)), np.asarray(ma.getmaskarray(b.data)), np.asarray(b.confidence)
        elif cn == "TorchPoseBody":
            be = "torch"
            data, mask, conf = b.data.tensor.numpy(), ~b.data.mask.numpy().astype(bool), b.confidence.numpy()
        else:
            be = "tf"
            data, mask, conf = b.data.tensor.numpy(), ~b.data.mask.numpy().astype(bool), b.confidence.numpy()
        if data.dtype != np.float32 or conf.dtype != np.float32:
            raise RuntimeError("dtype changed: %s %s" % (data.dtype, conf.dtype))
        return {"version": b64(h.version), "dims": [int(h.dimensions.width), int(h.dimensions.height), int(h.dimensions.depth)],
                "bbox": bool(h.is_bbox), "comps": comps, "be": be, "fps": b64(b.fps),
                "dshape": list(data.shape), "data": [int(x) for x in np.ascontiguousarray(data).view(np.uint32).ravel()],
                "cshape": list(conf.shape), "conf": [int(x) for x in np.ascontiguousarray(conf).view(np.uint32).ravel()],
                "mshape": list(mask.shape), "mask": [int(x) for x in np.ascontiguousarray(mask).ravel()]}


# ------------------------------------------------------------------------------------------------
# model trees
def comp_tree(c):
    return [utf8(c["name"]), utf8(c["format"]), [utf8(p) for p in c["points"]], [list(l) for l in c["limbs"]], [list(k) for k in c["colors"]]]


def pose_tree(d):
    be = {"np": 0, "torch": 1, "tf": 2}[d["be"]]
    return [d["version"], d["dims"], int(d["bbox"]), [comp_tree(c) for c in d["comps"]],
            [be, d["fps"], [d["dshape"], d["data"]], [d["cshape"], d["conf"]], [d["mshape"], d["mask"]]]]


def dict_tree(d):
    return [] if d is None else [[[utf8(k), [utf8(p) for p in v]] for k, v in d.items()]]


def pose_of_tree(t):
    ver, dims, bbox, comps, body = t
    be, fps, (dshape, data), (cshape, conf), (mshape, mask) = body
    return {"version": ver, "dims": list(dims), "bbox": bool(bbox),
            "comps": [{"name": from_utf8(c[0]), "format": from_utf8(c[1]), "points": [from_utf8(p) for p in c[2]],
                       "limbs": [list(l) for l in c[3]], "colors": [list(k) for k in c[4]]} for c in comps],
            "be": ["np", "torch", "tf"][be], "fps": fps, "dshape": list(dshape), "data": list(data), "cshape": list(cshape),
            "conf": list(conf), "mshape": list(mshape), "mask": list(mask)}


# ------------------------------------------------------------------------------------------------
# independent reference for the oracle
def flat_names(comps):
    return [(c["name"], p) for c in comps for p in c["points"]]


def names_unique(comps):
    names = [c["name"] for c in comps]
    return len(set(names)) == len(names) and all(len(set(c["points"])) == len(c["points"]) for c in comps)


def limbs_ok(comps):
    return all(0 <= a < len(c["points"]) and 0 <= b < len(c["points"]) for c in comps for a, b in c["limbs"])


def arr(d):
    return (np.array(d["data"], dtype=np.uint32).reshape(d["dshape"]), np.array(d["conf"], dtype=np.uint32).reshape(d["cshape"]),
            np.array(d["mask"], dtype=np.uint8).reshape(d["mshape"]))


def check_selection(before, result, expected):
    """`result` must be the pose whose components are `expected` = [(component name, [point names])], every point carrying
    the column of the source point with that component and name, limbs re-named, colours / formats kept."""
    src = {c["name"]: c for c in before["comps"]}
    if [c["name"] for c in result["comps"]] != [n for n, _ in expected]:
        return "component names %s, expected %s" % ([c["name"] for c in result["comps"]], [n for n, _ in expected])
    for c, (n, pts) in zip(result["comps"], expected):
        s = src[n]
        if c["points"] != list(pts):
            return "points of %r are %s, expected %s" % (n, c["points"], list(pts))
        if c["format"] != s["format"] or c["colors"] != s["colors"]:
            return "format / colours of %r changed" % n
        want = [(s["points"][a], s["points"][b]) for a, b in s["limbs"] if s["points"][a] in pts and s["points"][b] in pts]
        got = [(c["points"][a] if 0 <= a < len(c["points"]) else None, c["points"][b] if 0 <= b < len(c["points"]) else None)
               for a, b in c["limbs"]]
        if got != want:
            return "limbs of %r connect %s, expected %s" % (n, got[:6], want[:6])
    sflat = flat_names(before["comps"])
    rflat = flat_names(result["comps"])
    sd, sc, sm = arr(before)
    rd, rc, rm = arr(result)
    F, P, N, D = before["dshape"]
    if list(rd.shape) != [F, P, len(rflat), D] or list(rc.shape) != [F, P, len(rflat)] or list(rm.shape) != [F, P, len(rflat), D]:
        return "result shapes %s %s %s, expected (%d, %d, %d, %d)" % (rd.shape, rc.shape, rm.shape, F, P, len(rflat), D)
    for i, cn in enumerate(rflat):
        k = sflat.index(cn)
        if not (np.array_equal(rd[:, :, i], sd[:, :, k]) and np.array_equal(rc[:, :, i], sc[:, :, k]) and np.array_equal(rm[:, :, i], sm[:, :, k])):
            what = "coordinates" if not np.array_equal(rd[:, :, i], sd[:, :, k]) else ("confidence" if not np.array_equal(rc[:, :, i], sc[:, :, k]) else "missing flag")
            return "point %d %r does not carry the %s of source point %d" % (i, cn, what, k)
    if result["fps"] != before["fps"] or result["version"] != before["version"] or result["dims"] != before["dims"]:
        return "fps / version / dimensions changed"
    return None


def substr_any(words, p):
    return any(w in p for w in words)


# ------------------------------------------------------------------------------------------------
class C11(common.Prop):
    ID = "C11"
    RUNNER = "c11"
    MODEL_FILES = ["base/Tensor.v", "model/C11_Str.v", "model/C11_Select.v", "model/C11_Helpers.v", "model/C11_Heap.v", "model/C11_Run.v"]
    RULE = ("poses of 1..4 components x 0..5 points (unicode names, ~8% with duplicate names, limbs incl. a few out of range), "
            "F,P in 0..3, D in 1..3, explicit / absent / confidence-derived masks, every cell encoding its (frame, person, point, dim); "
            "get_components with ordered selections, sub-lists and permutations (thorough: all of them for every component of <= 5 points), "
            "remove_components incl. absent names and the str form, get_point_index, and the helpers on OpenPose- and Holistic-shaped "
            "headers (full, reduced, reordered, with missing components); three backends; a malformed stream (absent / duplicated "
            "selections); non-trivial = the call returned a pose; distinct by content hash " "Two-step helper cases: legs hidden in place, then wrist correction / hiding again.")
    TRUSTED = ["Coq 8.16.1 kernel", "harness/translate_c11.py (fail-closed ast translator + constant evaluator)",
               "extraction: ExtrOcamlBasic only; runner/driver.ml", "harness/c11.py dump / canonicalisation (mask polarity, bit patterns)"]
    ASSUMPTIONS = ["component names are unique and point names are unique inside a component (DESIGN section 7: precondition of 'by name')",
                   "NumPy fancy indexing / transpose, numpy.ma item assignment and ma.where, torch indexing / permute, tf.gather / tf.transpose "
                   "behave as modelled by Tensor.reindex (sampled by the correspondence)",
                   "Holistic-shaped headers are built from the name lists in utils/holistic.py and generic.py plus MediaPipe's published "
                   "hand landmark names (mediapipe is not installed)"]
    TFE = 0   # model the repaired TensorFlow behaviour (an empty selection yields an empty pose); 1 = tf.gather([]) raises

    def translate(self):
        return translate_c11.gen()

    def translate_outputs(self):
        return ["gen/Gen_C11.v"]

    def setup(self):
        self.impl = Impl()
        try:
            self.F = translate_c11.facts()
        except Exception:
            self.F = translate_c11.facts(strict=False)      # the broken tie is reported by translate(); keep searching
        self.warm_up()

    def warm_up(self):
        """process history: before the first case every name-based utility has already been used once, on an ATYPICAL pose (a
        holistic pose whose legs were removed, an OpenPose pose, a reduced pose) - whatever such a call leaves behind in the
        module must not change what later calls return"""
        import random
        rng = random.Random(11)
        g = self.impl.generic
        for fmt in ("holistic", "openpose"):
            try:
                comps, D = (self.holistic_comps(rng, small_face=True), 3) if fmt == "holistic" else (self.openpose_comps(), 2)
                pose = self.impl.build(make_pose_desc(rng, comps, 1, 1, D), "np")
            except Exception:
                continue
            for seq in (("hide_remove", "reduce", "wrists"), ("reduce", "hide_remove"), ("hide", "wrists", "reduce")):
                p = pose
                for op in seq:
                    try:
                        p = self.call(p, {"op": op})
                    except Exception:
                        break

    # ---------------------------------------------------------------- generators
    def gen_comp(self, rng, name, npts, dup):
        pool = list(NAME_POOL)
        rng.shuffle(pool)
        pts = pool[:npts]
        if dup and npts >= 2:
            pts[rng.randrange(npts)] = pts[rng.randrange(npts)]
        nl = rng.randrange(0, 6)
        limbs = [[rng.randrange(0, max(1, npts)), rng.randrange(0, max(1, npts))] for _ in range(nl)] if npts else []
        if limbs and rng.random() < 0.05:
            limbs[0][rng.randrange(2)] = npts + rng.randrange(0, 2)
        colors = [[rng.randrange(256) for _ in range(3)] for _ in range(rng.randrange(0, 3))]
        return {"name": name, "format": rng.choice(["XYC", "XYZC", "XC", "CYX"]), "points": pts, "limbs": limbs, "colors": colors}

    def gen_generic_pose(self, rng, max_pts=5):
        nc = rng.choice([1, 2, 2, 3, 3, 4])
        pool = list(NAME_POOL)
        rng.shuffle(pool)
        dup = rng.random() < 0.08
        names = pool[:nc]
        if dup and nc >= 2 and rng.random() < 0.5:
            names[1] = names[0]
        comps = [self.gen_comp(rng, names[i], rng.randrange(0, max_pts + 1), dup) for i in range(nc)]
        F, P, D = rng.choice([0, 1, 2, 2, 3]), rng.choice([0, 1, 1, 2, 3]), rng.choice([1, 2, 2, 3])
        return make_pose_desc(rng, comps, F, P, D, maskmode=rng.choice(["explicit", "explicit", "nomask", "fromconf"]), bbox=rng.random() < 0.2)

    def gen_get(self, rng, pd):
        comps = pd["comps"]
        names = [c["name"] for c in comps]
        k = rng.randrange(0, len(names) + 1)
        sel = rng.sample(names, k) if rng.random() < 0.8 else list(names)
        pts = None
        if rng.random() < 0.8:
            pts = {}
            for c in comps:
                if c["name"] in sel and rng.random() < 0.7:
                    kk = rng.randrange(0, len(c["points"]) + 1)
                    pts[c["name"]] = rng.sample(c["points"], kk)
                elif rng.random() < 0.1:
                    pts[c["name"]] = list(c["points"])
        mal = "none"
        if rng.random() < 0.12:
            mal = rng.choice(["absent_comp", "absent_point", "dup_comp", "dup_point"])
            if mal == "absent_comp":
                sel.insert(rng.randrange(len(sel) + 1), "no-such-component")
            elif mal == "dup_comp" and sel:
                sel.append(sel[0])
            elif mal == "absent_point" and sel:
                pts = pts or {}
                pts.setdefault(sel[0], []).append("no-such-point")
            elif mal == "dup_point" and pts:
                k0 = next(iter(pts))
                if pts[k0]:
                    pts[k0].append(pts[k0][0])
        return {"op": "get", "sel": sel, "points": pts, "mal": mal}

    def gen_remove(self, rng, pd):
        comps = pd["comps"]
        names = [c["name"] for c in comps]
        r = rng.sample(names, rng.randrange(0, len(names) + 1))
        if rng.random() < 0.3:
            r.append("no-such-component")
        form = "list"
        if rng.random() < 0.15 and names:
            r, form = rng.choice(names + ["absent"]), "str"
        pts = None
        q = rng.random()
        if q < 0.1:
            pts = {}
        elif q < 0.8:
            pts = {}
            for c in comps:
                if rng.random() < 0.6:
                    pts[c["name"]] = rng.sample(c["points"], rng.randrange(0, len(c["points"]) + 1)) + (["no-such-point"] if rng.random() < 0.3 else [])
            if rng.random() < 0.2:
                pts["no-such-component"] = ["x"]
        return {"op": "remove", "remove": r, "form": form, "points": pts}

    def openpose_comps(self):
        from pose_format.utils.openpose import OpenPose_Components
        return [{"name": c.name, "format": c.format, "points": list(c.points), "limbs": [[int(a), int(b)] for a, b in c.limbs],
                 "colors": [[int(v) for v in k] for k in c.colors]} for c in OpenPose_Components]

    def holistic_comps(self, rng, small_face):
        fl = self.F["flipped_body_points"]
        swap = {"LEFT": "RIGHT", "RIGHT": "LEFT"}
        body = ["_".join(swap.get(w, w) for w in p.split("_")) for p in fl]     # MediaPipe order = FLIPPED with the sides swapped back
        nface = self.F["face_points_num"]
        face = [str(i) for i in range(nface)]
        if small_face:
            keep = set(self.F["face_contours"]) | set(str(rng.randrange(nface)) for _ in range(12))
            face = [p for p in face if p in keep]
        table = {"BODY_POINTS": body, "HAND_POINTS": MP_HAND_POINTS, "FACE_POINTS(additional_face_points)": face}
        out = []
        for name, ptsrc in self.F["holistic_components"]:
            pts = list(table[ptsrc])
            n = len(pts)
            limbs = [[rng.randrange(n), rng.randrange(n)] for _ in range(min(40, 2 * n))]
            out.append({"name": name, "format": "XYZC", "points": pts, "limbs": limbs, "colors": [[rng.randrange(256)] * 3]})
        return out

    def vary_shaped(self, rng, comps):
        comps = copy.deepcopy(comps)
        r = rng.random()
        kind = "full"
        if r < 0.2 and len(comps) > 1:
            del comps[rng.randrange(len(comps))]
            kind = "drop_comp"
        elif r < 0.4:
            c = comps[0]
            dead = set(rng.sample(range(len(c["points"])), rng.randrange(1, 6)))
            keep = [i for i in range(len(c["points"])) if i not in dead]
            ren = {o: i for i, o in enumerate(keep)}
            c["points"] = [c["points"][i] for i in keep]
            c["limbs"] = [[ren[a], ren[b]] for a, b in c["limbs"] if a in ren and b in ren]
            kind = "drop_points"
        elif r < 0.5:
            rng.shuffle(comps)
            kind = "reordered"
        elif r < 0.58:
            comps.append({"name": "extra", "format": comps[0]["format"], "points": ["e0", "e1"], "limbs": [[0, 1]], "colors": [[1, 2, 3]]})
            kind = "extra_comp"
        elif r < 0.63:
            comps = [{"name": "BODY_135", "format": "XYC", "points": ["Nose", "LEye"], "limbs": [[0, 1]], "colors": [[255, 0, 0]]}]
            kind = "openpose_135"
        elif r < 0.66:
            comps = [{"name": "unknown", "format": "XYC", "points": ["a"], "limbs": [], "colors": []}]
            kind = "unknown"
        return comps, kind

    def gen_shaped(self, rng, fmt):
        if fmt == "openpose":
            comps, D = self.openpose_comps(), 2
        else:
            comps, D = self.holistic_comps(rng, small_face=rng.random() < 0.7), 3
        comps, kind = self.vary_shaped(rng, comps)
        F, P = rng.choice([1, 1, 2]), rng.choice([1, 1, 2])
        pd = make_pose_desc(rng, comps, F, P, D, maskmode=rng.choice(["explicit", "explicit", "nomask"]), zero_conf=0.5)
        op = rng.choice(["hide", "hide_remove", "wrist", "wrists", "reduce", "reduce" if fmt == "holistic" else "hide"])
        be = "np"
        args = {"op": op}
        if op == "wrist":
            args["hand"] = rng.choice(["LEFT", "RIGHT", "left", "Right"])
        if op in ("hide_remove", "reduce") and rng.random() < 0.4:
            be = rng.choice(["torch", "tf"])
        if op in ("hide", "wrist", "wrists") and rng.random() < 0.1:
            be = rng.choice(["torch", "tf"])          # item assignment / deepcopy are NumPy-body operations: these raise
        return {"be": be, "pose": pd, "args": args, "kind": "%s/%s" % (fmt, kind)}

    def enum_cases(self, rng, max_pts):
        """every ordered sub-list (hence every permutation) of the points of one component, three backends"""
        for n in range(0, max_pts + 1):
            comps = [{"name": "L", "format": "XYC", "points": ["l0", "l1"], "limbs": [[0, 1]], "colors": [[9, 9, 9]]},
                     {"name": "M", "format": "XYC", "points": ["m%d" % i for i in range(n)],
                      "limbs": [[a, b] for a in range(n) for b in range(n) if a != b and (a + 2 * b) % 3 == 0], "colors": [[1, 2, 3]]},
                     {"name": "R", "format": "XYC", "points": ["r0"], "limbs": [], "colors": []}]
            pd = make_pose_desc(rng, comps, 2, 2, 2)
            for k in range(0, n + 1):
                for sub in itertools.permutations(comps[1]["points"], k):
                    for be in BACKENDS:
                        sel = rng.choice([["M"], ["R", "M", "L"], ["M", "L"]])
                        yield {"be": be, "pose": pd, "args": {"op": "get", "sel": sel, "points": {"M": list(sub)}, "mal": "none"},
                               "kind": "enum%d" % n}

    def gen_cases(self, rng, tier):
        quick = tier == "quick"
        for c in self.enum_cases(rng, 3 if quick else 5):
            yield c
        n = 450 if quick else 30000
        for i in range(n):
            pd = self.gen_generic_pose(rng)
            r = rng.random()
            if r < 0.5:
                args = self.gen_get(rng, pd)
            elif r < 0.85:
                args = self.gen_remove(rng, pd)
            else:
                fl = flat_names(pd["comps"])
                c, p = rng.choice(fl) if fl and rng.random() < 0.8 else (rng.choice(NAME_POOL), rng.choice(NAME_POOL))
                if rng.random() < 0.15 and pd["comps"]:
                    c = pd["comps"][-1]["name"]
                args = {"op": "index", "comp": c, "point": p}
            yield {"be": rng.choice(BACKENDS), "pose": pd, "args": args, "kind": "generic"}
        # two steps: a selection that permutes / drops points inside the components, then a second by-name operation on the
        # RESULT (a derived pose must answer by-name lookups like a fresh one)
        for i in range(90 if quick else 6000):
            pd = self.gen_generic_pose(rng)
            names = [c["name"] for c in pd["comps"]]
            if not names_unique(pd["comps"]) or not names:
                continue
            sel = list(names)
            if rng.random() < 0.5:
                rng.shuffle(sel)
            pts, comps2 = {}, []
            for nme in sel:
                c = next(x for x in pd["comps"] if x["name"] == nme)
                keep = list(c["points"])
                if keep and rng.random() < 0.8:
                    keep = rng.sample(keep, rng.randrange(1, len(keep) + 1))
                    pts[nme] = keep
                comps2.append({"name": nme, "format": c["format"], "points": keep, "limbs": [], "colors": []})
            pre = {"op": "get", "sel": sel, "points": pts or None, "mal": "none"}
            pd2 = {"comps": comps2, "shape": pd["shape"]}
            r = rng.random()
            if r < 0.5:
                args = self.gen_get(rng, pd2)
            elif r < 0.8:
                args = self.gen_remove(rng, pd2)
            else:
                fl = flat_names(comps2)
                if not fl:
                    continue
                c, p_ = rng.choice(fl)
                args = {"op": "index", "comp": c, "point": p_}
            yield {"be": rng.choice(BACKENDS), "pose": pd, "pre": [pre], "args": args, "kind": "generic-2step"}
        for i in range(16 if quick else 300):
            case = self.gen_shaped(rng, "openpose")
            if case["be"] == "np" and case["kind"].endswith("/full"):
                if i % 3 == 2:
                    # legs hidden in place first (zero confidence, mask cleared: the helper's own convention), then a helper that
                    # works on a copy: it must change the points it names and nothing else - not the hidden points' missing flags
                    case["pre"] = [{"op": "hide"}]
                    case["args"] = rng.choice([{"op": "wrists"}, {"op": "wrist", "hand": rng.choice(["left", "right"])}, {"op": "hide"}])
                else:
                    case["pre"] = [{"op": "hide_remove"}]
                    case["args"] = rng.choice([{"op": "hide"}, {"op": "wrists"}, {"op": "index", "comp": "pose_keypoints_2d", "point": "LWrist"},
                                               {"op": "get", "sel": ["pose_keypoints_2d"], "points": {"pose_keypoints_2d": ["RWrist", "Nose", "LEye"]}, "mal": "none"}])
                case["kind"] = "openpose/2step"
            yield case
        # a by-name selection that REORDERS the body component first (any point may end up at global index 0 - a leg point too),
        # then the in-place helpers, which look points up by name in whatever order the header now has
        for i in range(24 if quick else 600):
            case = self.gen_shaped(rng, "openpose" if i % 2 == 0 else "holistic")
            if case["be"] != "np" or not case["kind"].endswith("/full"):
                continue
            comps = case["pose"]["comps"]
            body = comps[0]
            pts = list(body["points"])
            rng.shuffle(pts)
            sel = [c["name"] for c in comps]
            case["pre"] = [{"op": "get", "sel": sel, "points": {body["name"]: pts}, "mal": "none"}]
            case["args"] = rng.choice([{"op": "hide"}, {"op": "hide"}, {"op": "wrists"}, {"op": "hide_remove"}])
            case["kind"] = case["kind"].split("/")[0] + "/2step-reordered"
            yield case
        for i in range(40 if quick else 1500):
            yield self.gen_shaped(rng, "openpose")
        for i in range(16 if quick else 400):
            yield self.gen_shaped(rng, "holistic")
        # selections on format-shaped headers (large components)
        for i in range(6 if quick else 120):
            comps = self.openpose_comps()
            pd = make_pose_desc(rng, comps, 1, rng.choice([1, 2]), 2)
            args = self.gen_get(rng, pd) if rng.random() < 0.5 else self.gen_remove(rng, pd)
            yield {"be": rng.choice(BACKENDS), "pose": pd, "args": args, "kind": "openpose/select"}

    def features(self, case):
        a = case["args"]
        pd = case["pose"]
        extra = ""
        if a["op"] == "get":
            extra = a.get("mal", "none") + ("/pts" if a.get("points") is not None else "/nopts")
        elif a["op"] == "remove":
            extra = a.get("form", "list") + ("/none" if a.get("points") is None else ("/empty" if not a["points"] else "/pts"))
        return (a["op"] + ("<-" + "+".join(x["op"] for x in case["pre"]) if case.get("pre") else ""), case["be"], case.get("kind", "").split("/")[0], extra, "uniq" if names_unique(pd["comps"]) else "dupnames",
                "F%dP%d" % (min(pd["shape"][0], 2), min(pd["shape"][1], 2)))

    def nontrivial(self, case):
        out = case.get("_impl")
        return bool(out) and out[0] == "ok"

    # ---------------------------------------------------------------- implementation
    def call(self, pose, a):
        g = self.impl.generic
        op = a["op"]
        if op == "get":
            return pose.get_components(list(a["sel"]), None if a["points"] is None else {k: list(v) for k, v in a["points"].items()})
        if op == "remove":
            r = a["remove"] if a.get("form") == "str" else list(a["remove"])
            return pose.remove_components(r, None if a["points"] is None else {k: list(v) for k, v in a["points"].items()})
        if op == "hide":
            return g.pose_hide_legs(pose, remove=False)
        if op == "hide_remove":
            return g.pose_hide_legs(pose, remove=True)
        if op == "wrist":
            return g.correct_wrist(pose, a["hand"])
        if op == "wrists":
            return g.correct_wrists(pose)
        if op == "reduce":
            return g.reduce_holistic(pose)
        raise ValueError(op)

    def run_impl(self, case):
        a = case["args"]
        pose = self.impl.build(case["pose"], case["be"])
        for pre in case.get("pre") or []:
            # earlier steps of a multi-step case; the step under test starts from their result
            try:
                nxt = self.call(pose, pre)
                pose = nxt if nxt is not None else pose
            except Exception:
                break
        before = self.impl.dump(pose)
        case["_before"] = before
        if a["op"] == "index":
            try:
                out = ("ok", int(pose.header.get_point_index(a["comp"], a["point"])))
            except Exception as e:
                out = ("err", type(e).__name__)
            case["_impl"] = out
            return out if out[0] == "ok" else ("err",)
        try:
            res = self.call(pose, a)
            out = ("ok", self.impl.dump(pose), self.impl.dump(res), res is pose)
        except Exception as e:
            out = ("err", type(e).__name__, str(e)[:200])
            case["_after_err"] = self.impl.dump(pose)
        case["_impl"] = out
        return out if out[0] == "ok" else ("err",)

    # ---------------------------------------------------------------- model
    def model_request(self, case):
        a = case["args"]
        p = pose_tree(case["_before"])
        op = a["op"]
        if op == "get":
            return [1, self.TFE, p, [utf8(s) for s in a["sel"]], dict_tree(a["points"])]
        if op == "remove":
            r = [0, utf8(a["remove"])] if a.get("form") == "str" else [1, [utf8(s) for s in a["remove"]]]
            return [2, self.TFE, p, r, dict_tree(a["points"])]
        if op == "index":
            return [3, self.TFE, p, utf8(a["comp"]), utf8(a["point"])]
        if op == "hide":
            return [4, self.TFE, p, 0, []]
        if op == "hide_remove":
            return [4, self.TFE, p, 1, []]
        if op == "wrist":
            return [5, self.TFE, p, utf8(a["hand"].upper()), []]      # hand.upper() / hand.lower() of LEFT|RIGHT in any case
        if op == "wrists":
            return [6, self.TFE, p, [], []]
        if op == "reduce":
            return [7, self.TFE, p, [], []]

    def model_output(self, case, t):
        if t[0] == 0:
            return ("err",)
        if case["args"]["op"] == "index":
            return ("ok", t[1])
        src, res, same = t[1]
        if src[0] == 0 or res[0] == 0:
            return ("model-deref-failed",)
        return ("ok", pose_of_tree(src[1]), pose_of_tree(res[1]), bool(same))

    def compare(self, case, impl_out, model_out):
        if impl_out == model_out:
            return None
        if impl_out[0] != model_out[0]:
            return "implementation %s, model %s" % (impl_out[0], model_out[0])
        if case["args"]["op"] == "index":
            return "get_point_index: implementation %s, model %s" % (impl_out[1], model_out[1])
        for i, what in ((1, "source after the call"), (2, "returned pose")):
            if impl_out[i] != model_out[i]:
                ks = [k for k in impl_out[i] if impl_out[i][k] != model_out[i].get(k)]
                return "%s differs in %s" % (what, ks)
        return "same-object flag: implementation %s, model %s" % (impl_out[3], model_out[3])

    # ---------------------------------------------------------------- oracle: the statement on the implementation alone
    def named_points(self, comps, fmt_tables):
        return [(c, p) for c, pts in fmt_tables for p in pts]

    def detect(self, comps):
        for c in comps:
            if c["name"] in self.F["mediapipe"]:
                return "holistic"
            if c["name"] in self.F["openpose"]:
                return "openpose"
            if c["name"] in self.F["openpose135"]:
                return "openpose_135"
        return None

    def oracle(self, case):
        a = case["args"]
        op = a["op"]
        out = case.get("_impl")
        before = case.get("_before")
        if out is None or before is None:
            return None
        comps = before["comps"]
        if not names_unique(comps) or not limbs_ok(comps):
            return None                       # "by name" presupposes unique names (DESIGN section 7); limbs must name points
        N = len(flat_names(comps))
        if before["dshape"][2] != N:
            return None
        byname = {c["name"]: c for c in comps}
        fail = lambda what, **kw: dict({"what": what, "op": op, "be": case["be"]}, **kw)
        if op == "index":
            fl = flat_names(comps)
            if (a["comp"], a["point"]) in fl:
                k = fl.index((a["comp"], a["point"]))
                if out != ("ok", k):
                    return fail("get_point_index(%r, %r) is %s, the point is at flat position %d" % (a["comp"], a["point"], out, k), kind="index")
            elif out[0] == "ok":
                return fail("get_point_index of an absent point returned %s" % (out[1],), kind="index-absent")
            return None
        # ---- expected result of the call, from the statement
        expected = None          # [(component, [points])] for selections
        valid = True
        if op == "get":
            sel, pts = a["sel"], a["points"] or {}
            valid = (len(set(sel)) == len(sel) and all(s in byname for s in sel)
                     and all(len(set(pts[s])) == len(pts[s]) and all(p in byname[s]["points"] for p in pts[s]) for s in sel if s in pts))
            if valid:
                expected = [(s, pts[s] if (a["points"] is not None and s in pts) else byname[s]["points"]) for s in sel]
        elif op == "remove":
            rem = [a["remove"]] if a.get("form") == "str" else a["remove"]
            pts = a["points"] or {}
            expected = [(c["name"], [p for p in c["points"] if p not in pts.get(c["name"], [])]) for c in comps if c["name"] not in rem]
        elif op in ("hide", "hide_remove"):
            fmt = self.detect(comps)
            if fmt not in ("holistic", "openpose"):
                return None if out[0] == "err" else fail("pose_hide_legs accepted an unsupported format", kind="format")
            table = {k: v for k, v in self.F["hide"][fmt]}
            if op == "hide_remove":
                expected = [(c["name"], [p for p in c["points"] if p not in table.get(c["name"], [])]) for c in comps]
        elif op == "reduce":
            fmt = self.detect(comps)
            if fmt is None:
                return None if out[0] == "err" else fail("reduce_holistic accepted an unknown format", kind="format")
            if fmt == "holistic":
                r = self.F["reduce"]
                if r["body"] not in byname:
                    valid = False
                elif r["face"] in byname and not all(p in byname[r["face"]]["points"] for p in self.F["face_contours"]):
                    valid = False
                else:
                    expected = []
                    for c in comps:
                        if c["name"] == r["world"]:
                            continue
                        if c["name"] == r["face"]:
                            expected.append((c["name"], list(self.F["face_contours"])))
                        elif c["name"] == r["body"]:
                            expected.append((c["name"], [p for p in c["points"] if not substr_any(self.F["ignore_names"], p)]))
                        else:
                            expected.append((c["name"], c["points"]))
        if out[0] == "err":
            if op in ("get", "reduce") and not valid:
                return None
            if op in ("wrist", "wrists"):
                fmt = self.detect(comps)
                hands = ["LEFT", "RIGHT"] if op == "wrists" else [a["hand"].upper()]
                ok_req = fmt in ("holistic", "openpose") and all(
                    (tuple(e[1]) in flat_names(comps) and tuple(e[2]) in flat_names(comps)) for e in self.F["wrist"][fmt] if e[0] in hands) and case["be"] == "np" \
                    and before["dshape"][3] > 0
                if not ok_req:
                    return None
            if op == "hide" and case["be"] != "np":
                return None                   # item assignment is a NumPy-body operation
            empty = expected is not None and sum(len(p) for _, p in expected) == 0
            return fail("%s raised %s on a request it should serve%s" % (op, out[1], " (empty selection)" if empty else ""),
                        kind="raises-tf-empty-selection" if (empty and case["be"] == "tf" and out[1] == "InvalidArgumentError") else "raises",
                        exc=out[1:])
        _, after, result, same = out
        # ---- the source pose
        if op == "hide":
            table = self.F["hide"][self.detect(comps)]
            fl = flat_names(comps)
            named = [fl.index(cn) for cn in self.named_points(comps, table) if cn in fl]
            if not same:
                return fail("pose_hide_legs(remove=False) did not return its argument", kind="hide-identity")
            if {k: after[k] for k in ("version", "dims", "bbox", "comps", "fps", "dshape", "cshape")} != {k: before[k] for k in ("version", "dims", "bbox", "comps", "fps", "dshape", "cshape")}:
                return fail("hiding changed the header / shapes", kind="hide-header")
            sd, sc, sm = arr(before)
            rd, rc, rm = arr(after)
            for k in range(N):
                if k in named:
                    if rd[:, :, k].any() or rc[:, :, k].any() or rm[:, :, k].any():
                        return fail("hidden point %d %r is not zero / unmasked" % (k, fl[k]), kind="hide-named")
                elif not (np.array_equal(rd[:, :, k], sd[:, :, k]) and np.array_equal(rc[:, :, k], sc[:, :, k]) and np.array_equal(rm[:, :, k], sm[:, :, k])):
                    return fail("pose_hide_legs changed point %d %r, which it does not name" % (k, fl[k]), kind="hide-frame")
            return None
        if after != before:
            ks = [k for k in before if before[k] != after[k]]
            return fail("the source pose changed (%s)" % ks, kind="source-changed")
        if op in ("wrist", "wrists"):
            if same:
                return fail("correct_wrist returned its argument", kind="wrist-identity")
            fmt = self.detect(comps)
            fl = flat_names(comps)
            sd, sc, sm = arr(before)
            ed, ec, em = sd.copy(), sc.copy(), sm.copy()
            for h, hw, bw in self.F["wrist"][fmt]:
                if op == "wrist" and h != a["hand"].upper():
                    continue
                wi, bi = fl.index(tuple(hw)), fl.index(tuple(bw))
                z = (ec[:, :, wi] & 0x7FFFFFFF) == 0
                nd, nm, ncf = np.where(z[..., None], ed[:, :, bi], ed[:, :, wi]), np.where(z[..., None], em[:, :, bi], em[:, :, wi]), np.where(z, ec[:, :, bi], ec[:, :, wi])
                ed[:, :, bi], em[:, :, bi], ec[:, :, bi] = nd, nm, ncf
            rd, rc, rm = arr(result)
            if {k: result[k] for k in ("version", "dims", "bbox", "comps", "fps")} != {k: before[k] for k in ("version", "dims", "bbox", "comps", "fps")}:
                return fail("wrist correction changed the header", kind="wrist-header")
            if not (np.array_equal(rd, ed) and np.array_equal(rc, ec) and np.array_equal(rm, em)):
                bad = sorted(set(np.argwhere(rd != ed)[:, 2].tolist()) | set(np.argwhere(rc != ec)[:, 2].tolist()) | set(np.argwhere(rm != em)[:, 2].tolist()))
                return fail("wrist correction: points %s differ from the reference" % [fl[k] for k in bad[:5]], kind="wrist-frame")
            return None
        if op == "reduce" and self.detect(comps) != "holistic":
            if not same:
                return fail("reduce_holistic did not return a non-holistic pose unchanged", kind="reduce-identity")
            return None
        if expected is None:
            return None
        d = check_selection(before, result, expected)
        if d:
            return fail(d, kind="selection")
        if op == "remove":
            # removal == selecting the complement, evaluated on the implementation
            try:
                pose2 = self.impl.build(case["pose"], case["be"])
                alt = self.impl.dump(pose2.get_components([n for n, _ in expected], {n: list(p) for n, p in expected}))
            except Exception as e:
                return fail("selecting the complement raises %s" % type(e).__name__, kind="complement-raises")
            if alt != result:
                return fail("remove_components differs from selecting the complement", kind="complement")
        return None

    def classify(self, case, failure):
        if failure.get("kind") == "raises-tf-empty-selection":
            return "tf-empty-selection-raises"          # F17, whichever call reaches TensorflowPoseBody.get_points([])
        return "%s:%s" % (failure.get("op", "?"), failure.get("kind", "oracle-crash"))


PROP = C11
