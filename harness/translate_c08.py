"""C08 translator (fail-closed): the facts of the three body classes the model was written from are
regenerated from the current source on every run and emitted as coq/gen/Gen_C08.v.

  ctor_facts     the three constructors' mask derivation, each recognised in one exact shape with a small
                 set of admissible variants (comparison operator, number of stacked copies, stacking axis)
  zf_facts       MaskedTensor.zero_filled of Torch / TF (multiplication or where)
  points_dims, conf_perm_*   the permutations get_points uses
  tensor_readers which reader method each class names and what unpack_torch / unpack_tensorflow do to the ndarray
  fn_*           the statement lists of the small shared operations (docstrings stripped, ast.unparse)

Anything unrecognised raises TranslateError (a broken tie)."""
import ast

import translate_py as tp
from common import TranslateError


def _stmts(f):
    return [ast.unparse(s) for s in tp.body_wo_doc(f)]


def _coq_list(name, items):
    return "Definition %s : list string :=\n  %s.\n" % (name, tp.clist([tp.cstr(x) for x in items]))


def _match_init_np(f):
    b = tp.body_wo_doc(f)
    if len(b) != 2 or not isinstance(b[0], ast.If) or b[0].orelse or ast.unparse(b[0].test) != "isinstance(data, np.ndarray)":
        tp.fail("NumPyPoseBody.__init__: unrecognised shape")
    s = [ast.unparse(x) for x in b[0].body]
    if len(s) != 3 or s[0] != "mask = confidence == 0" or s[2] != "data = ma.masked_array(data, mask=stacked_mask)":
        tp.fail("NumPyPoseBody.__init__: mask derivation is not `confidence == 0` / ma.masked_array(data, mask=stacked_mask): %s" % s)
    ax = {"stacked_mask = np.stack([mask] * data.shape[-1], axis=3)": "3",
          "stacked_mask = np.stack([mask] * data.shape[-1], axis=-1)": "-1"}.get(s[1])
    if ax is None:
        tp.fail("NumPyPoseBody.__init__: unrecognised stacking statement %s" % s[1])
    if ast.unparse(b[1]) != "super().__init__(fps, data, confidence)":
        tp.fail("NumPyPoseBody.__init__: does not end in super().__init__(fps, data, confidence)")
    return ax


def _rule(stmt, who):
    r = {"mask = confidence != 0": "!=", "mask = confidence > 0": ">"}.get(stmt)
    if r is None:
        tp.fail("%s.__init__: validity rule is neither `confidence != 0` nor `confidence > 0`: %s" % (who, stmt))
    return r


def _match_init_torch(f):
    b = tp.body_wo_doc(f)
    if len(b) != 2 or not isinstance(b[0], ast.If) or b[0].orelse or ast.unparse(b[0].test) != "isinstance(data, torch.Tensor)":
        tp.fail("TorchPoseBody.__init__: unrecognised shape")
    s = [ast.unparse(x) for x in b[0].body]
    if len(s) != 3 or s[1] != "stacked_mask = torch.stack([mask] * data.shape[-1], dim=3)" or s[2] != "data = MaskedTensor(data, stacked_mask)":
        tp.fail("TorchPoseBody.__init__: unrecognised stacking %s" % s)
    if ast.unparse(b[1]) != "super().__init__(fps, data, confidence)":
        tp.fail("TorchPoseBody.__init__: does not end in super().__init__(fps, data, confidence)")
    return _rule(s[0], "TorchPoseBody")


def _match_init_tf(f):
    b = tp.body_wo_doc(f)
    if len(b) != 2 or not isinstance(b[0], ast.If) or b[0].orelse or ast.unparse(b[0].test) != "isinstance(data, tf.Tensor)":
        tp.fail("TensorflowPoseBody.__init__: unrecognised shape")
    s = [ast.unparse(x) for x in b[0].body]
    if len(s) != 2:
        tp.fail("TensorflowPoseBody.__init__: unrecognised body %s" % s)
    n = None
    if s[1] == "data = MaskedTensor(data, tf.stack([mask] * data.shape[-1], axis=3))":
        n = "data.shape[-1]"
    else:
        st = b[0].body[1]
        try:
            mult = st.value.args[1].args[0].right
            if (isinstance(mult, ast.Constant) and isinstance(mult.value, int) and 0 <= mult.value <= 16
                    and s[1] == "data = MaskedTensor(data, tf.stack([mask] * %d, axis=3))" % mult.value):
                n = str(mult.value)
        except (AttributeError, IndexError):
            pass
    if n is None:
        tp.fail("TensorflowPoseBody.__init__: unrecognised stacking %s" % s[1])
    if ast.unparse(b[1]) != "super().__init__(fps, data, confidence)":
        tp.fail("TensorflowPoseBody.__init__: does not end in super().__init__(fps, data, confidence)")
    return _rule(s[0], "TensorflowPoseBody"), n


def _zf_kind(f, variants, who):
    s = _stmts(f)
    if len(s) == 1 and s[0] in variants:
        return variants[s[0]]
    tp.fail("%s.zero_filled: unrecognised body %s" % (who, s))


def facts():
    """-> dict of everything the generated file and the runner configuration need"""
    tn = tp.parse("numpy/pose_body.py")
    tt = tp.parse("torch/pose_body.py")
    tf_ = tp.parse("tensorflow/pose_body.py")
    tb = tp.parse("pose_body.py")
    tr = tp.parse("utils/reader.py")
    tmt = tp.parse("torch/masked/tensor.py")
    tmf = tp.parse("tensorflow/masked/tensor.py")
    nb, tbo, fb, pb = tp.cls(tn, "NumPyPoseBody"), tp.cls(tt, "TorchPoseBody"), tp.cls(tf_, "TensorflowPoseBody"), tp.cls(tb, "PoseBody")
    rd = tp.cls(tr, "BufferReader")
    mtt, mtf = tp.cls(tmt, "MaskedTensor"), tp.cls(tmf, "MaskedTensor")
    out = {}
    out["np_axis"] = _match_init_np(tp.fn(nb, "__init__"))
    out["torch_rule"] = _match_init_torch(tp.fn(tbo, "__init__"))
    out["tf_rule"], out["tf_stack"] = _match_init_tf(tp.fn(fb, "__init__"))
    out["torch_zf"] = _zf_kind(tp.fn(mtt, "zero_filled"),
                               {"return self.tensor.mul(self.mask)": "mul",
                                "return torch.where(self.mask.bool(), self.tensor, torch.zeros_like(self.tensor))": "where"}, "torch MaskedTensor")
    out["tf_zf"] = _zf_kind(tp.fn(mtf, "zero_filled"),
                            {"return self.tensor * tf.cast(self.mask, dtype=self.tensor.dtype)": "mul",
                             "return tf.where(tf.cast(self.mask, tf.bool), self.tensor, tf.zeros_like(self.tensor))": "where"}, "tf MaskedTensor")
    # POINTS_DIMS
    pd = [n for n in tb.body if isinstance(n, ast.Assign) and ast.unparse(n.targets[0]) == "POINTS_DIMS"]
    if len(pd) != 1 or not isinstance(pd[0].value, ast.Tuple) or not all(isinstance(e, ast.Constant) and isinstance(e.value, int) for e in pd[0].value.elts):
        tp.fail("POINTS_DIMS is not a literal tuple of ints")
    out["points_dims"] = [e.value for e in pd[0].value.elts]

    def attr(c, name):
        r = [n for n in c.body if isinstance(n, ast.Assign) and ast.unparse(n.targets[0]) == name]
        if len(r) != 1 or not isinstance(r[0].value, ast.Constant) or not isinstance(r[0].value.value, str):
            tp.fail("%s.%s is not a string literal" % (c.name, name))
        return r[0].value.value
    out["readers"] = ["numpy:" + attr(nb, "tensor_reader"), "torch:" + attr(tbo, "tensor_reader"), "tensorflow:" + attr(fb, "tensor_reader")]
    fns = {
        "fn_unpack_torch": tp.fn(rd, "unpack_torch"), "fn_unpack_tensorflow": tp.fn(rd, "unpack_tensorflow"),
        "fn_np_torch": tp.fn(nb, "torch"), "fn_np_tensorflow": tp.fn(nb, "tensorflow"),
        "fn_base_getitem": tp.fn(pb, "__getitem__"), "fn_base_slice_step": tp.fn(pb, "slice_step"),
        "fn_base_select_frames": tp.fn(pb, "select_frames"), "fn_base_flatten": tp.fn(pb, "flatten"),
        "fn_tf_select_frames": tp.fn(fb, "select_frames"),
        "fn_np_get_points": tp.fn(nb, "get_points"), "fn_torch_get_points": tp.fn(tbo, "get_points"),
        "fn_torch_points_perspective": tp.fn(tbo, "points_perspective"), "fn_tf_get_points": tp.fn(fb, "get_points"),
        "fn_np_copy": tp.fn(nb, "copy"), "fn_torch_copy": tp.fn(tbo, "copy"), "fn_tf_copy": tp.fn(fb, "copy"),
        "fn_np_zero_filled": tp.fn(nb, "zero_filled"), "fn_torch_zero_filled": tp.fn(tbo, "zero_filled"), "fn_tf_zero_filled": tp.fn(fb, "zero_filled"),
        "fn_np_matmul": tp.fn(nb, "matmul"), "fn_torch_matmul": tp.fn(tbo, "matmul"), "fn_tf_matmul": tp.fn(fb, "matmul"),
        "fn_mt_torch_matmul": tp.fn(mtt, "matmul"), "fn_mt_tf_matmul": tp.fn(mtf, "matmul"),
        "fn_mt_torch_getitem": tp.fn(mtt, "__getitem__"), "fn_mt_tf_getitem": tp.fn(mtf, "__getitem__"), "fn_mt_tf_gather": tp.fn(mtf, "gather"),
        "fn_mt_torch_permute": tp.fn(mtt, "permute"), "fn_mt_tf_transpose": tp.fn(mtf, "transpose"),
        "fn_np_flatten": tp.fn(nb, "flatten"), "fn_torch_flatten": tp.fn(tbo, "flatten"),
    }
    out["fns"] = {k: _stmts(v) for k, v in fns.items()}
    # --- statements other owners' proposed fixes change (F16a matmul mask, int32 cast of index lists): each is
    #     recognised in its two shapes, recorded in the configuration and emitted in the first (canonical) shape
    mm_t = {"return MaskedTensor(tensor, self.mask)": "keep",
            "mask = self.mask.bool().all(dim=-1, keepdim=True).expand(tensor.shape)|return MaskedTensor(tensor, mask)": "all_expand"}
    mm_f = {"return MaskedTensor(tensor=tensor, mask=self.mask)": "keep",
            "mask = tf.broadcast_to(tf.reduce_all(tf.cast(self.mask, tf.bool), axis=-1, keepdims=True), tf.shape(tensor))|return MaskedTensor(tensor=tensor, mask=mask)": "all_expand"}
    for key, table, who, canon in (("fn_mt_torch_matmul", mm_t, "torch_mm", "return MaskedTensor(tensor, self.mask)"),
                                   ("fn_mt_tf_matmul", mm_f, "tf_mm", "return MaskedTensor(tensor=tensor, mask=self.mask)")):
        st = out["fns"][key]
        if len(st) < 2:
            tp.fail("%s: unrecognised body %s" % (key, st))
        tail = "|".join(st[1:])
        if tail not in table:
            tp.fail("%s: unrecognised mask derivation %s" % (key, st[1:]))
        out[who] = table[tail]
        out["fns"][key] = [st[0], canon]
    cast = "key = tf.constant(key, dtype=tf.int32)"
    gi = out["fns"]["fn_mt_tf_getitem"]
    gp = out["fns"]["fn_tf_get_points"]
    canon_gp = "new_confidence = tf.transpose(tf.gather(confidence, indexes), perm=confidence_reshape)"
    cast_gp = "new_confidence = tf.transpose(tf.gather(confidence, tf.constant(indexes, dtype=tf.int32)), perm=confidence_reshape)"
    has_gi = len(gi) == 2 and gi[0].startswith("if isinstance(key, list):\n    " + cast + "\n")
    has_gp = cast_gp in gp
    if has_gi != has_gp:
        tp.fail("TensorFlow index lists are cast to int32 in only one of MaskedTensor.__getitem__ / get_points")
    out["tf_empty_ok"] = has_gi
    if has_gi:
        out["fns"]["fn_mt_tf_getitem"] = [gi[0].replace("    " + cast + "\n", "", 1)] + gi[1:]
        out["fns"]["fn_tf_get_points"] = [canon_gp if x == cast_gp else x for x in gp]
    # TensorFlow must not define flatten (the base class raises NotImplementedError)
    if any(isinstance(n, ast.FunctionDef) and n.name == "flatten" for n in fb.body):
        out["tf_flatten"] = "defined"
    else:
        out["tf_flatten"] = "absent"
    return out


def runner_cfg(f):
    """tree of C08_Run.t_cfg"""
    return [0 if f["np_axis"] == "-1" else 1, 0 if f["torch_rule"] == "!=" else 1, 0 if f["tf_rule"] == "!=" else 1,
            -1 if f["tf_stack"] == "data.shape[-1]" else int(f["tf_stack"]),
            0 if f["torch_zf"] == "where" else 1, 0 if f["tf_zf"] == "where" else 1,
            0 if f["torch_mm"] == "keep" else 1, 0 if f["tf_mm"] == "keep" else 1, 1 if f["tf_empty_ok"] else 0]


REPAIRED_CFG = [0, 0, 0, -1, 0, 0, 0, 0, 0]


def gen():
    f = facts()
    lines = [tp.HEADER.replace("translate_py.py", "translate_c08.py")]
    lines.append(_coq_list("ctor_facts", ["numpy: mask = confidence == 0; np.stack axis=" + f["np_axis"],
                                          "torch: valid = confidence " + f["torch_rule"] + " 0; torch.stack([mask] * data.shape[-1], dim=3)",
                                          "tensorflow: valid = confidence " + f["tf_rule"] + " 0; tf.stack([mask] * " + f["tf_stack"] + ", axis=3)"]))
    lines.append(_coq_list("zf_facts", ["torch: " + f["torch_zf"], "tensorflow: " + f["tf_zf"]]))
    # the same facts as the configuration tree handed to the extracted runner (C08_Run.t_cfg)
    lines.append("Definition cfg_code : list Z := [%s]%%Z.\n" % "; ".join("(%d)" % x for x in runner_cfg(f)))
    lines.append("Definition points_dims : list nat := [%s].\n" % "; ".join(str(x) for x in f["points_dims"]))
    lines.append(_coq_list("tensor_readers", f["readers"]))
    lines.append("Definition tf_flatten : string := %s.\n" % tp.cstr(f["tf_flatten"]))
    for k in sorted(f["fns"]):
        lines.append(_coq_list(k, f["fns"][k]))
    return {"Gen_C08.v": "\n".join(lines)}, f


if __name__ == "__main__":
    print(gen()[0]["Gen_C08.v"])
