"""C03 - a frame or time window read equals the same slice of a full read; bounded stream consumption;
argument conflicts rejected."""
import math
import struct

import common
import posegen as pg
import translate_py

PREFETCH_DEFAULT = 10 * 1024 + 100


def f32_to_float(w):
    return struct.unpack("<f", struct.pack("<I", w))[0]


class C03(common.Prop):
    ID = "C03"
    RUNNER = "codec"
    MODEL_FILES = ["base/Prog.v", "model/Codec.v", "model/PoseRead.v"]
    RULE = ("v0.2 files with frame payloads from 8 B to ~4 KB and total size on both sides of the 10 340-byte prefetch; each case is a "
            "history: optional memo-priming read (none / same file / other file), then one windowed read (frame or time bounds, bytes or "
            "stream); windows are drawn per class relative to the prefetch boundary (inside / straddling / beyond) plus conflicts and "
            "start >= total; non-trivial = window is a proper sub-range or the read must be rejected; distinct by content hash " "Window bounds arrive as Python ints or NumPy integer scalars (int8..int64, only types that hold the file's frame count).")
    TRUSTED = ["Coq 8.16.1 kernel", "harness/translate_py.py", "extraction: ExtrOcamlBasic only; runner/driver.ml",
               "harness/posegen.py canonicalisers; counting stream wrapper"]
    ASSUMPTIONS = ["io.BytesIO.read/seek/tell behave as the list model of a seekable stream (base/Prog.v read_chunk)",
                   "binary64 arithmetic of start_time/1000*fps is SpecFloat's (base/F32.v), sampled incl. products within 1 ulp of an integer"]

    def translate(self):
        return translate_py.codec_gen()

    def setup(self):
        self.other = pg.other_file_bytes()
        self._files = {}

    # ------------------------------------------------------------------ generation
    def gen_file(self, rng, big):
        D = rng.choice([1, 2, 2, 3])
        if big:
            T = rng.choice([3, 8, 25, 60])
            P = rng.choice([1, 1, 2])
            per_frame = P * T * (D + 1) * 4
            F = rng.choice([max(2, 11000 // per_frame + rng.randrange(1, 6)), max(3, 30000 // per_frame), max(4, 60000 // per_frame)])
        else:
            T = rng.choice([1, 2, 5])
            P = rng.choice([1, 2])
            F = rng.choice([1, 2, 5, 12])
        comps = []
        left = T
        nc = rng.choice([1, 2])
        for i in range(nc):
            n = left if i == nc - 1 else rng.randrange(0, left + 1)
            left -= n
            comps.append({"name": pg.cps("c%d" % i), "format": pg.cps("XYZW"[:D] + "C"), "points": [pg.cps("p%d" % k) for k in range(n)],
                          "limbs": [[0, 0]] if n else [], "colors": [[1, 2, 3]] if n else []})
        # long header variant: header longer than the prefetch
        if rng.random() < 0.08:
            comps[0]["name"] = [0x61] * rng.choice([10300, 12000, 20000])
        fps = rng.choice([30.0, 29.97, 25.0, 24.0, 59.94, 12.5, 1.0, 1000.0, 0.5])
        n = F * P * T * D
        case = {"dims": [640, 480, 0], "comps": comps, "fps": pg.b64(fps), "shape": [F, P, T, D], "cshape": [F, P, T], "dtype": "f32",
                "edge": "none",
                # every cell encodes its flat index so a shifted read is visible
                "data": [pg.b64(float(i % 16000000)) for i in range(n)],
                "conf": [pg.b64(0.0 if (i % 7 == 3) else float(1 + i % 5)) for i in range(F * P * T)]}
        return case

    def gen_window(self, rng, F, fps, hdr_end, per_frame):
        kind = rng.choice(["frames"] * 6 + ["time"] * 3 + ["conflict", "beyond", "mixed", "ftime"])
        a = {}
        # frames located relative to the prefetch boundary
        pf_frame = max(0, (PREFETCH_DEFAULT - hdr_end - 10) // max(1, per_frame))
        cands = sorted(set([0, 1, 2, F // 2, F - 1, F, pf_frame - 1, pf_frame, pf_frame + 1, rng.randrange(0, F + 1), rng.randrange(0, F + 1)]))
        cands = [c for c in cands if 0 <= c <= F + 3]
        if kind == "frames":
            s = rng.choice([None] + [c for c in cands if c < F])
            e = rng.choice([None] + [c for c in cands + [F + 1, F + 1000] if (s or 0) <= c])
            if s is None and e is None:
                s = rng.choice([c for c in cands if c < F])
            a = {"start_frame": s, "end_frame": e}
        elif kind == "time":
            def t_of(fr, up):
                t = fr * 1000.0 / fps
                return int(math.floor(t)) if not up else int(math.ceil(t))
            s = rng.choice([None] + [c for c in cands if c < F])
            e = rng.choice([None] + [c for c in cands + [F + 2] if (s or 0) <= c])
            if s is None and e is None:
                e = rng.choice(cands)
            a = {"start_time": None if s is None else t_of(s, rng.random() < 0.5) + rng.choice([0, 0, 1]),
                 "end_time": None if e is None else t_of(e, rng.random() < 0.5) + rng.choice([0, 0, -1, 1])}
            if a["end_time"] is not None and a["end_time"] < 0:
                a["end_time"] = 0
        elif kind == "mixed":
            s = rng.choice([c for c in cands if c < F])
            a = {"start_frame": s, "end_time": int((s + rng.randrange(0, 5)) * 1000.0 / fps) + 1}
        elif kind == "conflict":
            a = rng.choice([{"start_frame": 0, "start_time": 0}, {"start_frame": 1, "start_time": 10}, {"end_frame": 2, "end_time": 100},
                            {"start_frame": 1, "end_frame": 2, "end_time": 50}])
        elif kind == "ftime":
            # fractional millisecond bounds placed a hair below / above the instant of a frame, computed with the frame rate the
            # FILE holds (the float32 value): floor / ceil of time x fps decide on the last bit of that product, so the mapping
            # must use exactly the stored rate (judged by the oracle only: the model's time bounds are whole milliseconds)
            ks = [c for c in cands if 1 <= c < F] or [1]
            k = rng.choice(ks)
            t = k * 1000.0 / fps
            below = t
            while below / 1000 * fps >= k:
                below = math.nextafter(below, -math.inf)
            above = t
            while above / 1000 * fps <= k:
                above = math.nextafter(above, math.inf)
            a = rng.choice([{"start_time": below}, {"start_time": above}, {"end_time": above}, {"end_time": below},
                            {"start_time": below, "end_time": above}])
        elif kind == "beyond":
            a = rng.choice([{"start_frame": F}, {"start_frame": F + 5, "end_frame": F + 9}, {"start_time": int(F * 1000.0 / fps) + 1000}])
        return kind, {k: v for k, v in a.items() if v is not None}

    def gen_cases(self, rng, tier):
        nfiles = 24 if tier == "quick" else 200
        per_file = 14 if tier == "quick" else 40
        for i in range(nfiles):
            pose = self.gen_file(rng, big=(i % 3 != 0))
            w = pg.impl_write(pose)
            if w[0] != "ok":
                continue
            data = w[1]
            F, P, T, D = pose["shape"]
            fps = pg.from_b64(pose["fps"])
            fps32 = struct.unpack("<f", struct.pack("<f", fps))[0]
            hdr_end = len(data) - 10 - F * P * T * (D + 1) * 4
            for j in range(per_file):
                wk, args = self.gen_window(rng, F, fps32, hdr_end, P * T * (D + 1) * 4)
                yield {"file": data, "F": F, "P": P, "T": T, "D": D, "hdr_end": hdr_end, "args": args, "wkind": wk,
                       "src": rng.choice(["bytes", "stream", "stream"]), "memo": rng.choice(["empty", "same", "other"])}
            if i % 3 == 1 and F >= 1 and P >= 1 and T >= 1:
                # the same content in the v0.1 layout (16-bit fps / frame-count / people fields; the frame count is taken from the
                # file size, so the 16-bit field may hold anything): the window clause speaks about every file.  These cases are
                # judged by the oracle only (the byte-layer runner has no legacy decoders; the theorems for them are C04's).
                for j in range(5):
                    field = rng.choice([F % 65536, 0, 65535, (F * 3 + 1) % 65536, max(0, F - 1)])
                    twin = list(pg.V01_WORD) + data[4:hdr_end] + list(struct.pack("<HHH", 25, field, P)) + data[hdr_end + 10:]
                    wk, args = self.gen_window(rng, F, 25.0, hdr_end, P * T * (D + 1) * 4)
                    yield {"file": twin, "F": F, "P": P, "T": T, "D": D, "hdr_end": hdr_end, "args": args, "wkind": wk, "v01": True,
                           "src": rng.choice(["bytes", "stream"]), "memo": rng.choice(["empty", "same"])}
        if tier == "thorough":
            # every (s, e) window of a few short files, both sources
            for k in range(6):
                pose = self.gen_file(rng, big=False)
                w = pg.impl_write(pose)
                if w[0] != "ok":
                    continue
                F, P, T, D = pose["shape"]
                hdr_end = len(w[1]) - 10 - F * P * T * (D + 1) * 4
                for s in range(0, F):
                    for e in range(s, F + 2):
                        for src in ("bytes", "stream"):
                            yield {"file": w[1], "F": F, "P": P, "T": T, "D": D, "hdr_end": hdr_end, "args": {"start_frame": s, "end_frame": e},
                                   "wkind": "frames", "src": src, "memo": "empty"}

    def features(self, case):
        big = len(case["file"]) > PREFETCH_DEFAULT
        pf = case["hdr_end"] + 10
        per = case["P"] * case["T"] * case["D"] * 4
        s = case["args"].get("start_frame")
        cls = "na"
        if s is not None:
            off = pf + s * per
            cls = "start-inside-prefetch" if off < PREFETCH_DEFAULT else "start-beyond-prefetch"
        return (case["wkind"], case["src"], case["memo"], "big" if big else "small", cls,
                "v0.1-twin" if case.get("v01") else ("longhdr" if case["hdr_end"] > 10240 else ""))

    def nontrivial(self, case):
        return bool(case["args"])

    # ------------------------------------------------------------------ implementation
    def run_impl(self, case):
        pg.set_memo(case["memo"], other_bytes=self.other, same_bytes=case["file"])
        # window bounds arrive as Python ints or NumPy integer scalars of any width (a function of the case only)
        at = pg.ARG_TYPES[(len(case["file"]) + sum(v for v in case["args"].values() if isinstance(v, int))) % len(pg.ARG_TYPES)]
        r, pulled = pg.impl_read(case["file"], "bytes" if case["src"] == "bytes" else "stream", case["args"], argtype=at, limit=case.get("F"))
        case["_impl"] = (r, pulled)
        return {"read": pg.strip_err(r), "pulled": pulled if r[0] == "ok" else None}

    # ------------------------------------------------------------------ model
    def run_model(self, case, runner):
        if case.get("v01") or case.get("wkind") == "ftime":
            return None
        files = [case["file"], self.other]
        ops = []
        if case["memo"] == "same":
            ops.append([0, 0, pg.args_tree(None)])
        elif case["memo"] == "other":
            ops.append([1, 0, pg.args_tree(None)])
        ops.append([0, 0 if case["src"] == "bytes" else 1, pg.args_tree(case["args"])])
        rep = runner.ask([5, files, ops])
        last = rep[-1]
        r = pg.result_of_tree(last[0], pg.pose_of_tree)
        return {"read": r, "pulled": (last[1] if case["src"] != "bytes" else 0) if r[0] == "ok" else None}

    def compare(self, case, io, mo):
        if io["read"] != mo["read"]:
            return "read result differs (impl %s / model %s)" % (io["read"][0], mo["read"][0])
        if io["pulled"] != mo["pulled"]:
            return "bytes pulled from the stream differ: impl %s model %s" % (io["pulled"], mo["pulled"])
        return None

    # ------------------------------------------------------------------ direct oracle
    def full(self, case):
        key = id(case["file"])
        if key not in self._files:
            pg.set_memo("empty")
            r, _ = pg.impl_read(case["file"])
            self._files[key] = r
        return self._files[key]

    def oracle(self, case):
        a = case["args"]
        full = self.full(case)
        if full[0] != "ok":
            return {"what": "full read of a written file raises %s" % full[1]}
        fd = full[1]
        F, P, T, D = fd["shape"]
        fps = f32_to_float(fd["fps"])
        r, pulled = case["_impl"]
        conflict = ("start_frame" in a and "start_time" in a) or ("end_frame" in a and "end_time" in a)
        if conflict:
            return None if r[0] == "err" else {"what": "both a time and a frame bound for the same end were accepted", "kind": "conflict"}
        s = a.get("start_frame")
        if "start_time" in a:
            s = math.floor(a["start_time"] / 1000 * fps)
        e = a.get("end_frame")
        if "end_time" in a:
            e = math.ceil(a["end_time"] / 1000 * fps)
        s0 = 0 if s is None else s
        if F == 0:
            return None
        if s0 >= F:
            if s0 == 0:
                return None
            return None if r[0] == "err" else {"what": "a start at or beyond the last frame was accepted", "kind": "start-beyond"}
        e0 = F if e is None else min(e, F)
        if e0 < s0:
            return None  # outside the quantifier (start <= end)
        if r[0] != "ok":
            return {"what": "window [%d,%d) of a %d-frame file raises %s (%s, memo %s)" % (s0, e0, F, r[1], case["src"], case["memo"]), "kind": "raises"}
        got = r[1]
        cell = P * T * D
        exp = dict(fd)
        exp["shape"] = [e0 - s0, P, T, D]
        exp["data"] = fd["data"][s0 * cell:e0 * cell]
        exp["conf"] = fd["conf"][s0 * P * T:e0 * P * T]
        exp["mask"] = fd["mask"][s0 * P * T:e0 * P * T]
        if got != exp:
            diff = [k for k in exp if got.get(k) != exp[k]]
            return {"what": "window [%d,%d) differs from the slice of the full read in %s (%s, memo %s)" % (s0, e0, diff, case["src"], case["memo"]),
                    "kind": "wrong-data", "fields": diff}
        if case["src"] == "stream":
            prefetch = PREFETCH_DEFAULT if case["memo"] == "empty" else (case["hdr_end"] if case["memo"] == "same" else 37) + 100
            prefetch = max(prefetch, PREFETCH_DEFAULT) if case["memo"] == "empty" else prefetch
            window_bytes = (e0 - s0) * P * T * (D + 1) * 4
            bound = case["hdr_end"] + 10 + 2 * max(prefetch, PREFETCH_DEFAULT) + window_bytes
            if pulled > bound and len(case["file"]) > bound:
                return {"what": "stream read pulled %d bytes for a window of %d bytes (bound %d, file %d)" % (pulled, window_bytes, bound, len(case["file"])),
                        "kind": "consumption"}
        return None

    def classify(self, case, f):
        k = f.get("kind", "other")
        if k in ("wrong-data", "raises") and case["src"] == "stream":
            return "stream-window-" + k
        if k == "consumption":
            a = case["args"]
            if not any(a.get(x) for x in ("start_frame", "end_frame", "start_time", "end_time")):
                return "stream-consumption-falsy-window-args"
            return "stream-consumption"
        return "window-" + k


PROP = C03
