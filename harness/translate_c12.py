"""C12 translator: declarative facts of the operation layer -> coq/gen/Gen_C12.v (fail-closed).

What is regenerated (and tied to the hand-written model by coq/proofs/C12_GenTie.v):
  * Pose.pass_through_methods (the dispatcher's white-list) and the statement list of Pose.__getattr__
  * the attribute names of PoseHeader (methods + what __init__ sets): the dispatcher replaces the header only
    when the header has an attribute of the dispatched name
  * PoseHeader.bbox: box point names, the component constructor call, the returned header
  * NumPyPoseBody.bbox: the reductions stacked per component (min, max)
  * POINTS_DIMS and get_points' confidence permutation
  * the three body constructors (how the mask is derived from the confidence)
  * Pose.write's sanity checks (tests, in order)
  * statement lists of the small methods the model transcribes one-to-one
"""
import ast

from common import TranslateError  # noqa: F401
from translate_py import HEADER, body_wo_doc, clist, cls, cstr, fail, fn, parse


def stmts(f):
    return [ast.unparse(s) for s in body_wo_doc(f)]


class _NoFloats(ast.NodeTransformer):
    """float literals are tuning constants the property does not depend on (dropout cap ...): not part of the tie"""

    def visit_Constant(self, node):
        return ast.copy_location(ast.Name(id="CONST", ctx=ast.Load()), node) if isinstance(node.value, float) else node


def stmts_nofloat(f):
    import copy
    return [ast.unparse(ast.fix_missing_locations(_NoFloats().visit(copy.deepcopy(s)))) for s in body_wo_doc(f)]


def strlist(name, items):
    return "Definition %s : list string :=\n  %s.\n" % (name, clist([cstr(x) for x in items]))


def natlist(name, items):
    return "Definition %s : list nat := [%s]%%nat.\n" % (name, "; ".join(str(int(x)) for x in items))


def const_tuple(node, where):
    if not (isinstance(node, (ast.Tuple, ast.List)) and all(isinstance(e, ast.Constant) and isinstance(e.value, int) and e.value >= 0
                                                           for e in node.elts)):
        fail("%s is not a tuple of small naturals" % where)
    return [e.value for e in node.elts]


def assign_in(f, target, where):
    r = [s for s in ast.walk(f) if isinstance(s, ast.Assign) and len(s.targets) == 1 and ast.unparse(s.targets[0]) == target]
    if len(r) != 1:
        fail("%s: assignment to %s not found exactly once" % (where, target))
    return r[0].value


OPS = {ast.Eq: "==", ast.NotEq: "!=", ast.Gt: ">", ast.GtE: ">=", ast.Lt: "<", ast.LtE: "<="}


def mask_rule(f, where):
    """how a body constructor derives the mask of a plain array: [comparison, constant, number of stacked copies]"""
    cmp_ = [n for n in ast.walk(f) if isinstance(n, ast.Assign) and len(n.targets) == 1 and ast.unparse(n.targets[0]) == "mask"]
    if len(cmp_) != 1:
        fail("%s: `mask = ...` not found exactly once" % where)
    v = cmp_[0].value
    if not (isinstance(v, ast.Compare) and ast.unparse(v.left) == "confidence" and len(v.ops) == 1 and type(v.ops[0]) in OPS
            and isinstance(v.comparators[0], ast.Constant)):
        fail("%s: mask is not `confidence <op> <constant>`" % where)
    mult = [n for n in ast.walk(f) if isinstance(n, ast.BinOp) and isinstance(n.op, ast.Mult) and ast.unparse(n.left) == "[mask]"]
    if len(mult) != 1:
        fail("%s: `[mask] * n` not found exactly once" % where)
    return [OPS[type(v.ops[0])], repr(v.comparators[0].value), ast.unparse(mult[0].right)]


def c12_gen():
    out = [HEADER]
    # ---- pose.py
    tp = parse("pose.py")
    pc = cls(tp, "Pose")
    pt = [n for n in pc.body if isinstance(n, ast.Assign) and len(n.targets) == 1 and ast.unparse(n.targets[0]) == "pass_through_methods"]
    if len(pt) != 1 or not isinstance(pt[0].value, ast.Set) or not all(isinstance(e, ast.Constant) and isinstance(e.value, str)
                                                                      for e in pt[0].value.elts):
        fail("Pose.pass_through_methods is not a set of string literals")
    out.append(strlist("pass_through_methods", sorted(e.value for e in pt[0].value.elts)))
    out.append(strlist("pose_getattr", stmts(fn(pc, "__getattr__"))))
    for m in ("bbox", "copy", "frame_dropout_uniform", "frame_dropout_normal", "focus", "normalize", "normalize_distribution"):
        out.append(strlist("pose_" + m, stmts(fn(pc, m))))
    w = fn(pc, "write")
    checks = []
    for st in body_wo_doc(w):
        if isinstance(st, ast.If):
            if st.orelse or not (len(st.body) == 1 and isinstance(st.body[0], ast.Raise)):
                fail("Pose.write: an if-statement is not a guard that raises")
            checks.append(ast.unparse(st.test))
    out.append(strlist("pose_write_checks", checks))
    out.append(strlist("pose_write_lets", [ast.unparse(s) for s in body_wo_doc(w) if isinstance(s, ast.Assign)]))
    # ---- pose_header.py
    th = parse("pose_header.py")
    hc = cls(th, "PoseHeader")
    attrs = set()
    for n in hc.body:
        if isinstance(n, ast.FunctionDef):
            attrs.add(n.name)
        elif isinstance(n, (ast.Assign, ast.AnnAssign)):
            for t in (n.targets if isinstance(n, ast.Assign) else [n.target]):
                if isinstance(t, ast.Name):
                    attrs.add(t.id)
                else:
                    fail("PoseHeader: unrecognised class-level assignment")
        elif isinstance(n, ast.Expr) and isinstance(n.value, ast.Constant):
            continue
        else:
            fail("PoseHeader: unrecognised class-level statement %s" % ast.unparse(n)[:60])
    if hc.bases or hc.keywords or hc.decorator_list:
        fail("PoseHeader has base classes / decorators: inherited attributes are not enumerated")
    for n in ast.walk(fn(hc, "__init__")):
        if isinstance(n, (ast.Assign, ast.AnnAssign, ast.AugAssign)):
            for t in (n.targets if isinstance(n, ast.Assign) else [n.target]):
                if isinstance(t, ast.Attribute) and isinstance(t.value, ast.Name) and t.value.id == "self":
                    attrs.add(t.attr)
    for other in hc.body:      # any other method that sets a new attribute on self would add to hasattr()
        if isinstance(other, ast.FunctionDef) and other.name != "__init__":
            for n in ast.walk(other):
                if isinstance(n, ast.Attribute) and isinstance(n.ctx, ast.Store) and isinstance(n.value, ast.Name) and n.value.id == "self":
                    attrs.add(n.attr)
    out.append(strlist("header_attrs", sorted(attrs)))
    hb = fn(hc, "bbox")
    bp = assign_in(hb, "box_points", "PoseHeader.bbox")
    if not (isinstance(bp, ast.List) and all(isinstance(e, ast.Constant) and isinstance(e.value, str) for e in bp.elts)):
        fail("PoseHeader.bbox: box_points is not a list of string literals")
    out.append(strlist("box_points", [e.value for e in bp.elts]))
    comps = assign_in(hb, "components", "PoseHeader.bbox")
    if not (isinstance(comps, ast.ListComp) and len(comps.generators) == 1 and not comps.generators[0].ifs
            and ast.unparse(comps.generators[0].iter) == "self.components" and isinstance(comps.elt, ast.Call)
            and ast.unparse(comps.elt.func) == "PoseHeaderComponent" and not comps.elt.keywords):
        fail("PoseHeader.bbox: components is not [PoseHeaderComponent(...) for c in self.components]")
    out.append(strlist("header_bbox_component_args", [ast.unparse(a) for a in comps.elt.args]))
    ret = [s for s in body_wo_doc(hb) if isinstance(s, ast.Return)]
    if len(ret) != 1:
        fail("PoseHeader.bbox: not exactly one return")
    out.append(strlist("header_bbox_return", [ast.unparse(ret[0])]))
    out.append(strlist("header_total_points", stmts(fn(hc, "total_points"))))
    out.append(strlist("header_num_dims", stmts(fn(hc, "num_dims"))))
    # ---- pose_body.py
    tb = parse("pose_body.py")
    pd = [n for n in tb.body if isinstance(n, ast.Assign) and ast.unparse(n.targets[0]) == "POINTS_DIMS"]
    if len(pd) != 1:
        fail("POINTS_DIMS not found")
    out.append(natlist("points_dims", const_tuple(pd[0].value, "POINTS_DIMS")))
    pb = cls(tb, "PoseBody")
    for m in ("slice_step", "select_frames", "frame_dropout_given_percent", "frame_dropout_uniform", "frame_dropout_normal"):
        out.append(strlist("body_" + m, stmts_nofloat(fn(pb, m))))
    # ---- numpy/pose_body.py
    tn = parse("numpy/pose_body.py")
    nb = cls(tn, "NumPyPoseBody")
    out.append(strlist("numpy_mask_rule", mask_rule(fn(nb, "__init__"), "NumPyPoseBody.__init__")))
    out.append(strlist("numpy_body_init_guard", [ast.unparse(s.test) for s in body_wo_doc(fn(nb, "__init__")) if isinstance(s, ast.If)]))
    for m in ("copy", "flip", "get_points", "matmul", "torch", "tensorflow"):
        out.append(strlist("numpy_body_" + m, [s for s in stmts(fn(nb, m)) if not s.startswith(("import ", "from ", "try:"))]))
    gp = fn(nb, "get_points")
    out.append(natlist("confidence_reshape", const_tuple(assign_in(gp, "confidence_reshape", "NumPyPoseBody.get_points"), "confidence_reshape")))
    bb = fn(nb, "bbox")
    boxes = assign_in(bb, "boxes", "NumPyPoseBody.bbox")
    if not (isinstance(boxes, ast.ListComp) and isinstance(boxes.elt, ast.Call) and ast.unparse(boxes.elt.func) == "ma.stack"
            and len(boxes.elt.args) == 1 and isinstance(boxes.elt.args[0], ast.List)):
        fail("NumPyPoseBody.bbox: boxes is not [ma.stack([...]) for c in components]")
    out.append(strlist("bbox_stack", [ast.unparse(e) for e in boxes.elt.args[0].elts]))
    # ---- torch / tensorflow constructors
    tt = parse("torch/pose_body.py")
    out.append(strlist("torch_mask_rule", mask_rule(fn(cls(tt, "TorchPoseBody"), "__init__"), "TorchPoseBody.__init__")))
    tf_ = parse("tensorflow/pose_body.py")
    out.append(strlist("tf_mask_rule", mask_rule(fn(cls(tf_, "TensorflowPoseBody"), "__init__"), "TensorflowPoseBody.__init__")))
    return {"Gen_C12.v": "\n".join(out)}


if __name__ == "__main__":
    for k, v in c12_gen().items():
        print(v)
