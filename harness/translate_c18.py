"""C18 translator (fail-closed): the shared-variable access programme of the reader path.

From pose_header.py / pose.py it regenerates, as Gallina string lists (coq/gen/Gen_C18.v):
  * the memo's fields and the lock attribute of PoseHeaderCache,
  * for calc_hash, check_cache, set_cache, PoseHeader.read and Pose.read the sequence of statements that
    touch the memo, each as the accesses it performs in Python evaluation order
    (`load f`, `store f`, `call m`, `with[load lock]{ ... }`, `if[...]{ ... }`, `return[...]`).
The thread model coq/model/C18_Threads.v was written from exactly this programme (proofs/C18_GenTie.v states
the equality), so an edit that adds, drops, reorders or un-locks an access breaks a proof obligation.
Not included on purpose: the hash function (md5 is modelled as injective), the prefetch constants (they are
parameters of the model; `prefetch_consts` hands them to the runner), local computations.
It also tells the replay scheduler where to yield: the first line of every statement that itself contains a
field access or a lock operation."""
import ast
import os

from common import REPO, TranslateError

PY = os.path.join(REPO, "src", "python", "pose_format")
MEMO = "PoseHeaderCache"
FIELDS = ("start_offset", "end_offset", "hash", "header")
FUNCS = (("pose_header.py", "PoseHeaderCache", "calc_hash"), ("pose_header.py", "PoseHeaderCache", "check_cache"),
         ("pose_header.py", "PoseHeaderCache", "set_cache"), ("pose_header.py", "PoseHeader", "read"), ("pose.py", "Pose", "read"))


def fail(msg):
    raise TranslateError("C18 translator: " + msg)


def parse(rel):
    try:
        import reconcile, translate_py
        return reconcile.reconcile(rel, ast.parse(open(os.path.join(PY, rel)).read()), translate_py.RECONCILED)
    except (OSError, SyntaxError) as e:
        fail("cannot parse %s: %s" % (rel, e))


def find_class(tree, name):
    r = [n for n in tree.body if isinstance(n, ast.ClassDef) and n.name == name]
    if len(r) != 1:
        fail("class %s not found exactly once" % name)
    return r[0]


def find_fn(c, name):
    r = [n for n in c.body if isinstance(n, ast.FunctionDef) and n.name == name]
    if len(r) != 1:
        fail("function %s.%s not found exactly once" % (c.name, name))
    return r[0]


def mentions(node):
    return any(isinstance(n, ast.Name) and n.id == MEMO for n in ast.walk(node))


def is_memo_attr(n):
    return isinstance(n, ast.Attribute) and isinstance(n.value, ast.Name) and n.value.id == MEMO


class Walker:
    def __init__(self, lock_name, methods):
        self.lock = lock_name
        self.methods = methods

    # ---- expressions, in evaluation order
    def ev(self, n, out):
        if n is None or not mentions(n):
            return
        if is_memo_attr(n):
            if not isinstance(n.ctx, ast.Load):
                fail("memo attribute %s used in a non-load expression context" % n.attr)
            if n.attr in FIELDS:
                out.append("load " + n.attr)
            elif self.lock is not None and n.attr == self.lock:
                out.append("load lock")
            else:
                fail("reference to %s.%s is neither a memo field, the lock, nor a call of a memo method" % (MEMO, n.attr))
            return
        if isinstance(n, ast.Call):
            if is_memo_attr(n.func):
                if n.func.attr not in self.methods:
                    fail("call of unknown memo method %s" % n.func.attr)
                for a in n.args:
                    self.ev(a, out)
                for k in n.keywords:
                    self.ev(k.value, out)
                out.append("call " + n.func.attr)
                return
            self.ev(n.func, out)
            for a in n.args:
                self.ev(a, out)
            for k in n.keywords:
                self.ev(k.value, out)
            return
        if isinstance(n, ast.Compare):
            self.ev(n.left, out)
            for c in n.comparators:
                self.ev(c, out)
        elif isinstance(n, ast.BoolOp):
            for v in n.values:
                self.ev(v, out)
        elif isinstance(n, ast.BinOp):
            self.ev(n.left, out)
            self.ev(n.right, out)
        elif isinstance(n, ast.UnaryOp):
            self.ev(n.operand, out)
        elif isinstance(n, ast.Subscript):
            self.ev(n.value, out)
            self.ev(n.slice, out)
        elif isinstance(n, ast.Slice):
            self.ev(n.lower, out)
            self.ev(n.upper, out)
            self.ev(n.step, out)
        elif isinstance(n, (ast.Tuple, ast.List)):
            for e in n.elts:
                self.ev(e, out)
        elif isinstance(n, ast.Attribute):
            self.ev(n.value, out)
        elif isinstance(n, ast.IfExp):
            self.ev(n.test, out)
            self.ev(n.body, out)
            self.ev(n.orelse, out)
        elif isinstance(n, ast.Starred):
            self.ev(n.value, out)
        else:
            fail("memo referenced inside an unsupported expression: %s" % ast.unparse(n)[:80])

    def target(self, t, out):
        if is_memo_attr(t):
            if t.attr not in FIELDS:
                fail("store to %s.%s, which is not a memo field" % (MEMO, t.attr))
            out.append("store " + t.attr)
        elif isinstance(t, (ast.Tuple, ast.List)):
            for e in t.elts:
                self.target(e, out)
        elif isinstance(t, ast.Attribute):
            self.ev(t.value, out)
        elif isinstance(t, ast.Subscript):
            self.ev(t.value, out)
            self.ev(t.slice, out)
        elif mentions(t):
            fail("unsupported assignment target %s" % ast.unparse(t))

    # ---- statements: -> list of (token string, line | None)   line = yield point of the replay scheduler
    def block(self, stmts, inside, out):
        for s in stmts:
            self.stmt(s, inside, out)

    def stmt(self, s, inside, out):
        if isinstance(s, ast.Expr) and isinstance(s.value, ast.Constant):
            return
        if isinstance(s, (ast.Return, ast.Raise)):
            toks = []
            self.ev(s.value if isinstance(s, ast.Return) else s.exc, toks)
            if toks or inside:
                kw = "return" if isinstance(s, ast.Return) else "raise"
                out.append((kw + ("[" + "; ".join(toks) + "]" if toks else ""), s.lineno if self.direct(toks) else None))
            return
        if not mentions(s) and not (inside and isinstance(s, (ast.If, ast.With))):
            return
        if isinstance(s, ast.Expr):
            toks = []
            self.ev(s.value, toks)
            out.append(("; ".join(toks), s.lineno if self.direct(toks) else None))
        elif isinstance(s, (ast.Assign, ast.AnnAssign)):
            toks = []
            self.ev(s.value, toks)
            for t in (s.targets if isinstance(s, ast.Assign) else [s.target]):
                self.target(t, toks)
            out.append(("; ".join(toks), s.lineno if self.direct(toks) else None))
        elif isinstance(s, ast.If):
            toks = []
            self.ev(s.test, toks)
            sub = []
            self.block(s.body, True, sub)
            sub2 = []
            self.block(s.orelse, True, sub2)
            if not toks and not sub and not sub2:
                return
            out.append(("if[" + "; ".join(toks) + "]{", s.lineno if self.direct(toks) else None))
            out.extend(sub)
            out.append(("}", None))
            if sub2:
                out.append(("else{", None))
                out.extend(sub2)
                out.append(("}", None))
        elif isinstance(s, ast.With):
            toks = []
            for it in s.items:
                self.ev(it.context_expr, toks)
                if it.optional_vars is not None and mentions(it.optional_vars):
                    fail("with ... as <memo attribute>")
            sub = []
            self.block(s.body, True, sub)
            if not toks and not sub:
                return
            out.append(("with[" + "; ".join(toks) + "]{", s.lineno if self.direct(toks) else None))
            out.extend(sub)
            out.append(("}", None))
        else:
            fail("memo referenced inside an unsupported statement: %s" % ast.unparse(s).splitlines()[0][:80])

    @staticmethod
    def direct(toks):
        return any(t.startswith(("load ", "store ")) for t in toks)


def const_int(n):
    """small closed integer expressions only"""
    if isinstance(n, ast.Constant) and isinstance(n.value, int) and not isinstance(n.value, bool):
        return n.value
    if isinstance(n, ast.BinOp) and isinstance(n.op, (ast.Mult, ast.Add)):
        a, b = const_int(n.left), const_int(n.right)
        return a * b if isinstance(n.op, ast.Mult) else a + b
    fail("prefetch length is not (end_offset or <int>) + <int>: %s" % ast.unparse(n))


def analyse():
    """-> dict(fields, lock, programme {fn: [tokens]}, yield_lines {fn: [lines]}, line_tokens {fn: {line: token}},
    prefetch (dflt, slack), locked = True | False | None (lock around only one of the two critical sections))"""
    th = parse("pose_header.py")
    tp = parse("pose.py")
    cache = find_class(th, MEMO)
    fields, lock = [], None
    for n in cache.body:
        if isinstance(n, ast.Expr) and isinstance(n.value, ast.Constant):
            continue
        if isinstance(n, ast.FunctionDef):
            continue
        if isinstance(n, ast.AnnAssign) and isinstance(n.target, ast.Name) and isinstance(n.value, ast.Constant) and n.value.value is None:
            fields.append(n.target.id)
        elif (isinstance(n, ast.Assign) and len(n.targets) == 1 and isinstance(n.targets[0], ast.Name)
              and ast.unparse(n.value) in ("threading.Lock()", "threading.RLock()", "Lock()", "RLock()")):
            if lock is not None:
                fail("more than one lock attribute")
            lock = n.targets[0].id
        else:
            fail("unrecognised class-level statement in %s: %s" % (MEMO, ast.unparse(n)[:60]))
    if tuple(fields) != FIELDS:
        fail("memo fields are %s, expected %s" % (fields, list(FIELDS)))
    methods = [n.name for n in cache.body if isinstance(n, ast.FunctionDef)]
    w = Walker(lock, methods)
    programme, ylines, ltoks = {}, {}, {}
    for rel, cname, fname in FUNCS:
        f = find_fn(find_class(th if rel == "pose_header.py" else tp, cname), fname)
        out = []
        w.block(f.body, cname == MEMO, out)
        key = "%s.%s" % (cname, fname)
        programme[key] = [t for t, _ in out]
        ylines[key] = sorted({ln for _, ln in out if ln is not None})
        ltoks[key] = {ln: t for t, ln in out if ln is not None}
    # nobody else may touch the memo
    for rel, tree in (("pose_header.py", th), ("pose.py", tp)):
        for c in [n for n in tree.body if isinstance(n, ast.ClassDef)]:
            for f in [n for n in c.body if isinstance(n, ast.FunctionDef)]:
                if (rel, c.name, f.name) in FUNCS or (c.name == MEMO and f.name == "clear_cache"):
                    continue
                if mentions(f):
                    fail("%s.%s also touches the memo" % (c.name, f.name))
    # prefetch: reader.expect_to_read((PoseHeaderCache.end_offset or A) + B)
    pr = find_fn(find_class(tp, "Pose"), "read")
    st = [s for s in pr.body if mentions(s)]
    if len(st) != 1 or not (isinstance(st[0], ast.Expr) and isinstance(st[0].value, ast.Call) and len(st[0].value.args) == 1):
        fail("Pose.read: expected exactly one statement `reader.expect_to_read(...)` using the memo")
    arg = st[0].value.args[0]
    if not (isinstance(arg, ast.BinOp) and isinstance(arg.op, ast.Add) and isinstance(arg.left, ast.BoolOp) and isinstance(arg.left.op, ast.Or)
            and len(arg.left.values) == 2 and is_memo_attr(arg.left.values[0]) and arg.left.values[0].attr == "end_offset"):
        fail("Pose.read: prefetch length is not (PoseHeaderCache.end_offset or <int>) + <int>")
    prefetch = (const_int(arg.left.values[1]), const_int(arg.right))
    hr, sc = programme["PoseHeader.read"], programme["PoseHeaderCache.set_cache"]
    lk = [("with[load lock]{" in hr), ("with[load lock]{" in sc)]
    locked = True if all(lk) else (False if not any(lk) else None)
    return {"fields": fields, "lock": lock, "programme": programme, "yield_lines": ylines, "line_tokens": ltoks, "prefetch": prefetch, "locked": locked}


def cstr(s):
    return '"' + s.replace('"', '""') + '"'


def clist(items):
    return "[]" if not items else "[ " + ";\n    ".join(items) + " ]"


def gen(info=None):
    info = info or analyse()
    L = ["(* GENERATED by harness/translate_c18.py from /repo on every run - do not edit. *)",
         "From Coq Require Import String List.", "Import ListNotations.", "Open Scope string_scope.", ""]
    L.append("Definition memo_fields : list string := %s.\n" % clist([cstr(x) for x in info["fields"]]))
    L.append("Definition lock_attribute : list string := %s.\n" % clist([cstr("lock")] if info["lock"] else []))
    names = {"PoseHeaderCache.calc_hash": "calc_hash", "PoseHeaderCache.check_cache": "check_cache", "PoseHeaderCache.set_cache": "set_cache",
             "PoseHeader.read": "header_read", "Pose.read": "pose_read"}
    for k, nm in names.items():
        L.append("Definition %s : list string :=\n  %s.\n" % (nm, clist([cstr(x) for x in info["programme"][k]])))
    return {"Gen_C18.v": "\n".join(L)}


if __name__ == "__main__":
    import json
    i = analyse()
    print(json.dumps(i, indent=1))
    print(gen(i)["Gen_C18.v"])


# ------------------------------------------------------------------------------------------------
# Every other piece of module- or class-level state on the Pose.read path (second tie): the inventory of
# module/class-level assignments of the five files a read executes, and - per function - the accesses to such
# state in source order: every WRITE (attribute/item store on a module-level name, setattr/delattr, mutating
# method call, `global`) in any function, and every READ (`Class.attr`, getattr/hasattr) in the functions a read
# runs.  BufferReader.unpack_f's per-format ConstStructs memo (hasattr / setattr / getattr) is the one piece of
# shared state besides PoseHeaderCache; it is modelled in coq/model/C18_StructMemo.v.
STATE_FILES = ("utils/reader.py", "pose_header.py", "pose.py", "pose_body.py", "numpy/pose_body.py")
READ_PATH = ("read", "read_v0_0", "read_v0_1", "read_v0_1_frames", "read_v0_2", "__init__", "unpack", "unpack_f", "unpack_str",
             "unpack_numpy", "advance", "skip", "expect_to_read", "bytes_left", "read_chunk", "calc_hash", "check_cache", "set_cache",
             "clear_cache")
MUTATORS = ("append", "extend", "insert", "add", "update", "setdefault", "pop", "popitem", "remove", "discard", "clear", "sort", "reverse")
DYN = ("setattr", "delattr", "hasattr", "getattr", "vars")


def _is_main_guard(n):
    return isinstance(n, ast.If) and "__name__" in ast.unparse(n.test)


def _targets(n):
    if isinstance(n, ast.Assign):
        ts = n.targets
    elif isinstance(n, (ast.AnnAssign, ast.AugAssign)):
        ts = [n.target] if (not isinstance(n, ast.AnnAssign) or n.value is not None) else []
    else:
        return []
    out = []
    for t in ts:
        for e in (t.elts if isinstance(t, (ast.Tuple, ast.List)) else [t]):
            out.append(ast.unparse(e))
    return out


def _level_state(body, prefix, out, classes, where):
    for n in body:
        if isinstance(n, (ast.Assign, ast.AnnAssign, ast.AugAssign)):
            out.extend(prefix + t for t in _targets(n))
        elif isinstance(n, ast.ClassDef):
            classes.add(n.name)
            _level_state(n.body, prefix + n.name + ".", out, classes, where)
        elif _is_main_guard(n):
            continue
        elif isinstance(n, (ast.If, ast.Try, ast.With, ast.For, ast.While)):
            fail("%s: module/class-level compound statement may hide state: %s" % (where, ast.unparse(n).splitlines()[0][:60]))


def _root(n):
    while isinstance(n, (ast.Attribute, ast.Subscript)):
        n = n.value
    return n.id if isinstance(n, ast.Name) else None


def _fn_tokens(f, globals_, classes, on_read_path):
    local = {a.arg for a in f.args.args + f.args.kwonlyargs + f.args.posonlyargs}
    if f.args.vararg:
        local.add(f.args.vararg.arg)
    if f.args.kwarg:
        local.add(f.args.kwarg.arg)
    for n in ast.walk(f):
        if isinstance(n, ast.Name) and isinstance(n.ctx, ast.Store):
            local.add(n.id)
    toks = []

    def shared(name):
        return name is not None and name in globals_ and name not in local

    def visit(n):
        if isinstance(n, (ast.Global, ast.Nonlocal)):
            fail("%s uses `%s`" % (f.name, ast.unparse(n)))
        if isinstance(n, (ast.FunctionDef, ast.Lambda)) and n is not f:
            pass
        if isinstance(n, (ast.Attribute, ast.Subscript)) and isinstance(n.ctx, (ast.Store, ast.Del)) and shared(_root(n)):
            visit_children(n)
            toks.append("store " + ast.unparse(n.value if isinstance(n, ast.Subscript) else n) + ("[]" if isinstance(n, ast.Subscript) else ""))
            return
        if isinstance(n, ast.Call):
            fn = n.func
            if isinstance(fn, ast.Name) and fn.id in DYN and n.args and shared(_root(n.args[0])):
                for a in n.args[1:]:
                    visit(a)
                if fn.id in ("setattr", "delattr") or on_read_path:
                    toks.append("%s %s" % (fn.id, ast.unparse(n.args[0])))
                return
            if isinstance(fn, ast.Attribute) and fn.attr in MUTATORS and isinstance(fn.value, (ast.Attribute, ast.Name)) and shared(_root(fn.value)) \
                    and not (isinstance(fn.value, ast.Name)):
                for a in n.args:
                    visit(a)
                toks.append("mutate %s.%s" % (ast.unparse(fn.value), fn.attr))
                return
        if on_read_path and isinstance(n, ast.Attribute) and isinstance(n.ctx, ast.Load) and isinstance(n.value, ast.Name) \
                and n.value.id in classes and n.value.id not in local:
            toks.append("load %s.%s" % (n.value.id, n.attr))
            return
        visit_children(n)

    def visit_children(n):
        for c in ast.iter_child_nodes(n):
            visit(c)

    for s in f.body:
        visit(s)
    return toks


def shared_state():
    """-> (inventory [str], functions [str])"""
    trees = {rel: parse(rel) for rel in STATE_FILES}
    inventory, classes, globals_ = [], set(), set()
    for rel, t in trees.items():
        st = []
        _level_state(t.body, "", st, classes, rel)
        inventory.extend("%s:%s" % (rel, x) for x in st)
        for n in t.body:
            if isinstance(n, (ast.Import, ast.ImportFrom)):
                globals_.update((a.asname or a.name).split(".")[0] for a in n.names)
            globals_.update(x.split(".")[0] for x in st)
    globals_ |= classes
    funcs = []
    for rel, t in trees.items():
        def walk(body, prefix):
            for n in body:
                if isinstance(n, ast.ClassDef):
                    walk(n.body, prefix + n.name + ".")
                elif isinstance(n, (ast.FunctionDef, ast.AsyncFunctionDef)):
                    toks = _fn_tokens(n, globals_, classes, n.name in READ_PATH)
                    if toks:
                        funcs.append("%s:%s%s: %s" % (rel, prefix, n.name, "; ".join(toks)))
        walk([n for n in t.body if not _is_main_guard(n)], "")
    return inventory, funcs


_gen_memo = gen


def gen(info=None):   # noqa: F811  (extends the generated file with the second tie)
    out = _gen_memo(info)
    inv, funcs = shared_state()
    text = out["Gen_C18.v"]
    text += "\nDefinition state_inventory : list string :=\n  %s.\n" % clist([cstr(x) for x in inv])
    text += "\nDefinition shared_state_accesses : list string :=\n  %s.\n" % clist([cstr(x) for x in funcs])
    return {"Gen_C18.v": text}


if __name__ == "__main__":
    inv, funcs = shared_state()
    print("\n".join(inv))
    print("\n".join(funcs))
