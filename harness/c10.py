"""C10 - masked tensors keep values and validity aligned under every operation (PyTorch and TensorFlow)."""
import math

import numpy as np

import common
import c10_gen as G
import c10_impl as I
import c10_ref as R
import translate_c10

AOP = {"add": 0, "sub": 1, "mul": 2, "div": 3, "rdiv": 4}
UN = {"sqrt": 0, "square": 1, "cos": 2, "sin": 3, "tan": 4, "acos": 5, "asin": 6, "atan": 7}
STAT = {"mean": 0, "var": 1, "std": 2}
SHAPE_CHANGING = {"getitem", "getlist", "sum", "transpose", "permute", "squeeze", "split", "reshape", "cat", "stack", "matmul",
                  "mean", "var", "std", "fallback"}
RTOL = 1e-9
ATOL = 1e-9


def words(vals):
    return [I.f2w(R.dec_val(x)) for x in vals]


def opt(x):
    return [] if x is None else [x]


def enc_operand(o):
    if o[0] == "reg":
        return [0, o[1]]
    if o[0] == "plain":
        return [1, list(o[1]), words(o[2])]
    return [2, I.f2w(float(o[1]))]


def enc_instr(ins):
    op = ins[0]
    if op == "getitem":
        return [0, ins[1], [[0, k[1]] if k[0] == "i" else [1, opt(k[1]), opt(k[2]), k[3]] for k in ins[2]]]
    if op == "getlist":
        return [1, ins[1], list(ins[2])]
    if op == "arith":
        return [2, AOP[ins[1]], ins[2], enc_operand(ins[3])]
    if op == "divm":
        return [3, ins[1], ins[2], int(bool(ins[3]))]
    if op == "sum":
        return [4, ins[1], opt(ins[2])]
    if op == "transpose":
        return [5, ins[1], ins[2], ins[3]]
    if op == "permute":
        return [6, ins[1], list(ins[2])]
    if op == "squeeze":
        return [7, ins[1], opt(ins[2])]
    if op == "split":
        return [8, ins[1], [0, ins[2]] if isinstance(ins[2], int) else [1, list(ins[2])], ins[3]]
    if op == "reshape":
        return [9, ins[1], list(ins[2])]
    if op == "cat":
        return [10, [enc_operand(o) for o in ins[1]], ins[2]]
    if op == "stack":
        return [11, list(ins[1]), ins[2]]
    if op == "matmul":
        return [12, ins[1], list(ins[2]), words(ins[3])]
    if op in STAT:
        return [13, STAT[op], ins[1], opt(ins[2])]
    if op == "zerofill":
        return [14, ins[1]]
    if op == "unary":
        return [15, UN[ins[1]], int(ins[2] == "method"), ins[3]]
    if op == "fallback" and ins[1] == "unsqueeze":
        return [16, ins[2], ins[3][0]]
    return [99]


def close(a, b):
    """two binary64 words denote the same value up to the stated tolerance (NaN is one class, -0 == 0)"""
    if a == b:
        return True
    x, y = I.w2f(a), I.w2f(b)
    if x != x or y != y:
        return x != x and y != y
    if x == y:
        return True
    if math.isinf(x) or math.isinf(y):
        return False
    return abs(x - y) <= RTOL * max(abs(x), abs(y)) + ATOL


class C10(common.Prop):
    ID = "C10"
    RUNNER = "c10"
    RUNNER_FLOATS = True
    MODEL_FILES = ["base/Tensor.v", "base/Num.v", "model/C10_Tensor.v", "model/C10_Masked.v", "model/C10_Run.v"]
    RULE = ("random straight-line programs over the masked-tensor API of both frameworks (indexing, list/gather indexing, "
            "arithmetic with masked / plain / scalar operands, torch div, strict sum, transpose / permute, squeeze, split, reshape, "
            "cat / stack with masked and plain operands, matmul, tf mean / variance / std, zero-fill, white-listed fall-backs); "
            "1..3 inputs of rank 0..4, extents 0..3, integer / half values (exact in binary64), random masks incl. all / none, "
            "12% of cases with nan / inf garbage under the mask; typed stream validated instruction by instruction against the "
            "NumPy reference, plus an ill-typed stream (one corrupted last instruction); every register after every step is "
            "compared (shape of value, shape of mask, mask bits exactly, values within rtol 1e-9 + atol 1e-9, NaN one class, modulo the sign of zero: registers computed from operands in which the two sides hold zeros of different sign are compared on shape and mask only); "
            "non-trivial = typed program in which a shape-changing operation is followed by another operation " "PyTorch aftermath: pow_ / add_ / fix_nan on the inputs must not change any computed register, and leave v*v+1 with NaN -> 0 (infinities kept); inputs arrive contiguous, transposed-storage or strided.")
    TRUSTED = ["Coq 8.16.1 kernel", "harness/translate_c10.py (fail-closed ast translator)",
               "extraction: ExtrOcamlBasic, ExtrOCamlFloats, ExtrOCamlInt63; runner/driver.ml",
               "harness/c10_ref.py (NumPy reference interpreter, the oracle), harness/c10_impl.py canonicalisers (errors -> one class, NaN -> one word)"]
    ASSUMPTIONS = ["PyTorch / TensorFlow kernels (indexing, broadcasting, reductions, matmul, where, split, reshape ...) behave as the "
                   "re-indexing model says - sampled by the correspondence on every run",
                   "floating-point rounding is not modelled: the theorems are over an abstract numeric type with x + 0 = x and a faithful count; "
                   "executed instance binary64, inputs exact; cos/sin/tan/acos/asin/atan are uninterpreted (values of such steps are compared "
                   "with the NumPy reference only, not with the model)",
                   "mean replaces non-finite results by 0 (the implementation's fix_nan) - taken as part of the reference",
                   "typing is the NumPy reference's: dimension arguments on rank-0 tensors (torch accepts dim 0 / -1 there), empty index lists and "
                   "negative tf.gather indices are treated as ill-typed and are not generated",
                   "in-place methods (pow_, fix_nan on torch, div(in_place=True)), device moves, __eq__/__round__/float and methods that can only "
                   "raise (tf permute/rename/div/size) are outside the operation language"]

    def __init__(self):
        self.drivers = {}
        self.facts = None

    # ---- tie (a)
    def translate(self):
        out = translate_c10.gen()
        return out

    def translate_outputs(self):
        return ["gen/Gen_C10.v"]

    def setup(self):
        try:
            self.facts = translate_c10.facts()
        except Exception:
            self.facts = None
        self.drivers = {"torch": I.TorchDriver(), "tf": I.TfDriver()}
        for fw in ("torch", "tf"):
            R.WHITELISTS[fw] = set(self.whitelist(fw))

    def whitelist(self, fw):
        if self.facts is None:
            return list(G.ELEMENTWISE)
        return list(self.facts["torch_whitelist_full" if fw == "torch" else "tf_whitelist_full"])

    # ---- cases
    def gen_cases(self, rng, tier):
        n, maxlen = (1500, 6) if tier == "quick" else (40000, 12)
        for i in range(n):
            fw = "torch" if i % 2 == 0 else "tf"
            if i % 8 == 7:
                c = G.gen_illtyped(rng, fw, maxlen, self.whitelist(fw))
                if c is not None:
                    yield c
                    continue
            yield G.gen_typed(rng, fw, maxlen, self.whitelist(fw))

    def features(self, case):
        ops = [i[0] for i in case["prog"]]
        last = ops[-1] if ops else "-"
        return (case["fw"], case.get("stream", "typed"), last, min(len(ops), 12) // 3)

    def nontrivial(self, case):
        ops = [i[0] for i in case["prog"]]
        return case.get("stream", "typed") == "typed" and any(o in SHAPE_CHANGING for o in ops[:-1])

    # ---- implementation
    def run_impl(self, case):
        out = I.run_impl(self.drivers[case["fw"]], case)
        case["_impl"] = out
        return out

    # ---- model
    def model_request(self, case):
        return [0 if case["fw"] == "torch" else 1,
                [[list(t["shape"]), words(t["vals"]), [int(b) for b in t["mask"]]] for t in case["inputs"]],
                [enc_instr(i) for i in case["prog"]]]

    def model_output(self, case, reply):
        if reply[0] == 0:
            return {"regs": None, "err": True}
        return {"regs": [[list(r[0]), list(r[1]), list(r[2]), list(r[3])] for r in reply[1]], "err": False}

    def tainted(self, case, regs_a, regs_b, opaque=True):
        """registers whose values are not compared between two runs: (i) produced by / after an uninterpreted function
        (model runs only), (ii) computed from operands in which the two runs hold zeros of different sign (signed zeros are
        not modelled; after a division they become infinities of different sign)"""
        tainted = set()
        env_n = len(case["inputs"])
        ZS = (0, 1 << 63)
        for ins, k in zip(case["prog"], case["_counts"]):
            srcs = self.sources(ins)
            t = any(x in tainted for x in srcs) or (opaque and ins[0] == "unary" and ins[1] not in ("sqrt", "square"))
            if not t:
                for x in srcs:
                    if x < len(regs_a) and x < len(regs_b) and any(p != q and p in ZS and q in ZS for p, q in zip(regs_a[x][1], regs_b[x][1])):
                        t = True
                        break
            if t:
                tainted.update(range(env_n, env_n + k))
            env_n += k
        return tainted

    @staticmethod
    def sources(ins):
        op = ins[0]
        if op == "arith":
            return [ins[2]] + ([ins[3][1]] if ins[3][0] == "reg" else [])
        if op == "divm":
            return [ins[1], ins[2]]
        if op == "cat":
            return [o[1] for o in ins[1] if o[0] == "reg"]
        if op == "stack":
            return list(ins[1])
        if op == "unary":
            return [ins[3]]
        if op == "fallback":
            return [ins[2]]
        return [ins[1]]

    def compare(self, case, impl_out, model_out):
        if model_out["err"]:
            return None if impl_out["err"] is not None else "model rejects the program, implementation accepts it"
        if impl_out["err"] is not None:
            return "implementation raises %s at step %d, model accepts the program" % (impl_out["err"][1], impl_out["err"][0])
        a, b = impl_out["regs"], model_out["regs"]
        if len(a) != len(b):
            return "number of registers differs (%d / %d)" % (len(a), len(b))
        self.ensure_ref(case)
        tainted = self.tainted(case, a, b)
        for k, (x, y) in enumerate(zip(a, b)):
            if x[0] != y[0]:
                return "register %d: value shape %s / %s" % (k, x[0], y[0])
            if x[2] != y[2]:
                return "register %d: mask shape %s / %s" % (k, x[2], y[2])
            if x[3] != y[3]:
                return "register %d: mask bits differ" % k
            if k not in tainted and not all(close(p, q) for p, q in zip(x[1], y[1])):
                return "register %d: values differ" % k
        return None

    def ensure_ref(self, case):
        if "_refenv" in case:
            return
        fw = case["fw"]
        env = G.make_env(case["inputs"])
        counts, err = [], None
        for k, ins in enumerate(case["prog"]):
            try:
                outs = R.ref_exec(fw, ins, env)
            except R.RefError:
                err = k
                break
            counts.append(len(outs))
            env.extend(outs)
        case["_refenv"], case["_referr"], case["_counts"] = env, err, counts

    # ---- direct oracle: the statement on the implementation alone, against the NumPy reference
    def oracle(self, case):
        out = case.get("_impl") or self.run_impl(case)
        self.ensure_ref(case)
        env, err = case["_refenv"], case["_referr"]
        n_in = len(case["inputs"])
        regs = out["regs"]
        owner = [None] * n_in                      # which instruction produced which register (for the classifier)
        for k, cnt in enumerate(case["_counts"]):
            owner += [k] * cnt
        ref_regs = [I.snap_np(rv, rm) for rv, rm in env]
        taint = self.tainted(case, regs, ref_regs, opaque=False)
        for k in range(min(len(regs), len(env))):
            vshape, vw, mshape, mb = regs[k]
            rv, rm = env[k]
            step = owner[k] if k < len(owner) else None
            opname = case["prog"][step][0] if step is not None else "input"
            if vshape != mshape:
                return {"what": "value and mask shapes differ after %s: value %s, mask %s" % (opname, vshape, mshape),
                        "step": step, "op": self.opkey(case, step), "kind": "misaligned"}
            if vshape != list(rv.shape):
                return {"what": "shape after %s is %s, reference %s" % (opname, vshape, list(rv.shape)), "step": step,
                        "op": self.opkey(case, step), "kind": "shape"}
            if mb != [int(x) for x in rm.reshape(-1).tolist()]:
                return {"what": "validity after %s differs from the reference" % opname, "step": step, "op": self.opkey(case, step),
                        "kind": "validity", "got": common.small(mb, 300), "expected": common.small([int(x) for x in rm.reshape(-1).tolist()], 300)}
            flat = rv.reshape(-1).tolist()
            for j, ok in enumerate(mb):
                if ok and k not in taint and not close(vw[j], I.f2w(flat[j])):
                    return {"what": "valid value after %s differs from the reference at flat index %d: %r, reference %r" % (opname, j, I.w2f(vw[j]), flat[j]),
                            "step": step, "op": self.opkey(case, step), "kind": "value"}
        if err is None and out["err"] is not None:
            step = out["err"][0]
            return {"what": "well-typed program raises %s at step %d (%s)" % (out["err"][1], step, case["prog"][step][0]), "step": step,
                    "op": self.opkey(case, step), "kind": "raises"}
        if err is None and len(regs) != len(env):
            return {"what": "number of results differs from the reference", "step": None, "op": "?", "kind": "count"}
        if out.get("stat32") is not None:
            return {"what": "float32 variance / std of values around 4096 (axis %s) differ from the two-pass binary64 value of the valid "
                            "elements by more than 0.2%%" % (out["stat32"],), "step": None, "op": "stat32", "kind": "value"}
        if out.get("inplace") is not None:
            return {"what": "the in-place methods pow_(2), tensor.add_(1), fix_nan() on input %s do not leave v*v + 1 with NaN -> 0 (infinities "
                            "kept) under an unchanged mask" % (out["inplace"],), "step": None, "op": "inplace", "kind": "inplace"}
        if out.get("batchedmatmul"):
            return {"what": "masked (3, 4) x plain batched matrix (2, 4, 5): %s (expected (2, 3, 5) for both, a row valid iff all its entries are)"
                            % (out["batchedmatmul"],), "step": None, "op": "batched-matmul", "kind": "shape"}
        if out.get("graphshape"):
            return {"what": "in graph mode (tf.function, leading extent unknown at trace time) masked (1, 3) <op> plain (5, 3) gives %s"
                            % (out["graphshape"],), "step": None, "op": "graph-broadcast", "kind": "shape"}
        if out.get("viewinplace") is not None:
            return {"what": "pow_(2) on the view x[:1] of input %s does not square the first row of x itself (an in-place method on a "
                            "view writes through, as for plain tensors)" % (out["viewinplace"],), "step": None, "op": "inplace-on-view", "kind": "inplace"}
        if out.get("alias"):
            k = out["alias"][0]
            step = owner[k] if k < len(owner) else None
            return {"what": "the result of %s (register %d) changed when an in-place method (pow_, fix_nan, tensor.add_) was applied to the "
                            "program's inputs afterwards: a computed result must hold its own values" % (case["prog"][step][0] if step is not None else "?", k),
                    "step": step, "op": self.opkey(case, step), "kind": "aliased"}
        return None

    @staticmethod
    def opkey(case, step):
        if step is None:
            return "input"
        ins = case["prog"][step]
        op = ins[0]
        if op == "arith":
            return "arith-" + ins[3][0]
        if op == "divm":
            return "div-update_mask=%d" % ins[3]
        if op in ("unary", "fallback"):
            return "%s-%s" % (op, ins[1])
        return op

    def classify(self, case, failure):
        return "%s-%s-%s" % (case["fw"], failure.get("op", "?"), failure.get("kind", "?"))


PROP = C10
