"""Fail-closed translator for C13: Python `ast` of the anchored sources -> coq/gen/Gen_C13.v.

Regenerated on every run:
  * the name tables of the reference lookup (utils/generic.py: detect_known_pose_format's component lists and the
    order of its membership tests, pose_shoulders, hands_components; utils/openpose.py / openpose_135.py:
    the names of OpenPose_Components),
  * the statement sequences (ast.unparse, docstrings and comments dropped) of the numeric functions the model was
    written from: Pose.normalize, normalize_distribution, unnormalize_distribution, distance_batch, the
    PoseNormalizer methods, MaskedTensor.mean / variance / std, PoseHeader._get_point_index / normalization_info,
    pose_normalization_info, normalize_component_3d, normalize_hands_3d.
coq/proofs/C13_GenTie.v proves each generated constant equal to the literal the hand-written model was written
from, so an edit of any of them breaks a proof obligation.  Unrecognised shapes raise TranslateError."""
import ast
import warnings

from translate_py import parse, cls, fn, body_wo_doc, cstr, clist, fail, HEADER


def topfn(tree, name):
    r = [n for n in tree.body if isinstance(n, ast.FunctionDef) and n.name == name]
    if len(r) != 1:
        fail("function %s not found exactly once" % name)
    return r[0]


def stmts(f):
    return [ast.unparse(s) for s in body_wo_doc(f)]


def const_str_list(node, where):
    if not (isinstance(node, ast.List) and all(isinstance(e, ast.Constant) and isinstance(e.value, str) for e in node.elts)):
        fail("%s is not a list of string literals" % where)
    return [e.value for e in node.elts]


def str_tuple(node, n, where):
    if not (isinstance(node, ast.Tuple) and len(node.elts) == n and
            all(isinstance(e, ast.Constant) and isinstance(e.value, str) for e in node.elts)):
        fail("%s is not a %d-tuple of string literals" % (where, n))
    return tuple(e.value for e in node.elts)


def component_names(rel, var):
    """names of the components in `var = [PoseHeaderComponent(name="..", ...), OpenPose_Hand_Component(".."), ...]`"""
    t = parse(rel)
    a = [n for n in t.body if isinstance(n, ast.Assign) and len(n.targets) == 1 and ast.unparse(n.targets[0]) == var]
    if len(a) != 1 or not isinstance(a[0].value, ast.List):
        fail("%s: %s is not assigned a list literal exactly once" % (rel, var))
    out = []
    for e in a[0].value.elts:
        if not isinstance(e, ast.Call):
            fail("%s: element of %s is not a call" % (rel, var))
        f = ast.unparse(e.func)
        if f == "PoseHeaderComponent":
            kw = [k for k in e.keywords if k.arg == "name"]
            if e.args or len(kw) != 1 or not (isinstance(kw[0].value, ast.Constant) and isinstance(kw[0].value.value, str)):
                fail("%s: PoseHeaderComponent without a literal name= keyword" % rel)
            out.append(kw[0].value.value)
        elif f == "OpenPose_Hand_Component":
            lam = [n for n in t.body if isinstance(n, ast.Assign) and ast.unparse(n.targets[0]) == "OpenPose_Hand_Component"]
            if len(lam) != 1 or not isinstance(lam[0].value, ast.Lambda) or [x.arg for x in lam[0].value.args.args] != ["name"]:
                fail("%s: OpenPose_Hand_Component is not `lambda name: ...`" % rel)
            b = lam[0].value.body
            if not (isinstance(b, ast.Call) and ast.unparse(b.func) == "PoseHeaderComponent" and
                    any(k.arg == "name" and ast.unparse(k.value) == "name" for k in b.keywords)):
                fail("%s: OpenPose_Hand_Component does not pass its argument as name=" % rel)
            if len(e.args) != 1 or e.keywords or not (isinstance(e.args[0], ast.Constant) and isinstance(e.args[0].value, str)):
                fail("%s: OpenPose_Hand_Component(<literal>) expected" % rel)
            out.append(e.args[0].value)
        else:
            fail("%s: unrecognised component constructor %s" % (rel, f))
    return out


def detect_tables(tg):
    f = topfn(tg, "detect_known_pose_format")
    b = body_wo_doc(f)
    lists, order = {}, []
    imports = {}
    for n in tg.body:
        if isinstance(n, ast.ImportFrom):
            for a in n.names:
                imports[a.asname or a.name] = (n.module, a.name)
    loop = None
    for st in b:
        if isinstance(st, ast.Assign) and len(st.targets) == 1 and isinstance(st.targets[0], ast.Name):
            nm = st.targets[0].id
            v = st.value
            if nm == "component_names":
                if ast.unparse(v) != "get_component_names(pose_or_header)":
                    fail("detect_known_pose_format: component_names has an unrecognised source")
            elif isinstance(v, ast.List):
                lists[nm] = const_str_list(v, nm)
            elif isinstance(v, ast.ListComp) and ast.unparse(v.elt) == "c.name" and len(v.generators) == 1 \
                    and ast.unparse(v.generators[0].target) == "c" and not v.generators[0].ifs and isinstance(v.generators[0].iter, ast.Name):
                src = v.generators[0].iter.id
                if src not in imports or imports[src][1] != "OpenPose_Components":
                    fail("detect_known_pose_format: %s is not an imported OpenPose_Components" % src)
                mod = imports[src][0]
                rel = {"pose_format.utils.openpose": "utils/openpose.py", "pose_format.utils.openpose_135": "utils/openpose_135.py"}.get(mod)
                if rel is None:
                    fail("detect_known_pose_format: unknown module %s" % mod)
                lists[nm] = component_names(rel, "OpenPose_Components")
            else:
                fail("detect_known_pose_format: unrecognised assignment %s" % ast.unparse(st)[:80])
        elif isinstance(st, ast.For):
            if loop is not None or ast.unparse(st.target) != "component_name" or ast.unparse(st.iter) != "component_names" or st.orelse:
                fail("detect_known_pose_format: unrecognised loop")
            loop = st
            for i in st.body:
                if not (isinstance(i, ast.If) and not i.orelse and len(i.body) == 1 and isinstance(i.body[0], ast.Return)
                        and isinstance(i.body[0].value, ast.Constant) and isinstance(i.test, ast.Compare)
                        and len(i.test.ops) == 1 and isinstance(i.test.ops[0], ast.In) and ast.unparse(i.test.left) == "component_name"
                        and isinstance(i.test.comparators[0], ast.Name)):
                    fail("detect_known_pose_format: unrecognised test %s" % ast.unparse(i)[:80])
                order.append((i.test.comparators[0].id, i.body[0].value.value))
        elif isinstance(st, ast.Raise):
            if ast.unparse(st.exc.func) != "ValueError" or st is not b[-1]:
                fail("detect_known_pose_format: unexpected raise")
        else:
            fail("detect_known_pose_format: unrecognised statement %s" % ast.unparse(st)[:80])
    if loop is None or not isinstance(b[-1], ast.Raise):
        fail("detect_known_pose_format: loop / final raise missing")
    for nm, _ in order:
        if nm not in lists:
            fail("detect_known_pose_format: list %s not defined" % nm)
    # get_component_names: names of the header's components in order
    g = stmts(topfn(tg, "get_component_names"))
    return lists, order, g


def if_chain(f, var, conv, where):
    """`known_pose_format = detect_known_pose_format(x)` ; `if known_pose_format == "<fmt>": return <literal>` ... ; raise NotImplementedError"""
    b = body_wo_doc(f)
    if not (isinstance(b[0], ast.Assign) and ast.unparse(b[0].targets[0]) == "known_pose_format"
            and isinstance(b[0].value, ast.Call) and ast.unparse(b[0].value.func) == "detect_known_pose_format"
            and [ast.unparse(a) for a in b[0].value.args] == [var]):
        fail("%s: first statement is not the format detection" % where)
    out = []
    for st in b[1:-1]:
        if not (isinstance(st, ast.If) and not st.orelse and len(st.body) == 1 and isinstance(st.body[0], ast.Return)
                and isinstance(st.test, ast.Compare) and len(st.test.ops) == 1 and isinstance(st.test.ops[0], ast.Eq)
                and ast.unparse(st.test.left) == "known_pose_format" and isinstance(st.test.comparators[0], ast.Constant)):
            fail("%s: unrecognised statement %s" % (where, ast.unparse(st)[:80]))
        out.append((st.test.comparators[0].value, conv(st.body[0].value)))
    if not (isinstance(b[-1], ast.Raise) and ast.unparse(b[-1].exc.func) == "NotImplementedError"):
        fail("%s: does not end in raise NotImplementedError" % where)
    return out


def shoulders_value(node):
    if not (isinstance(node, ast.Tuple) and len(node.elts) == 2):
        fail("pose_shoulders: return value is not a pair")
    return (str_tuple(node.elts[0], 2, "pose_shoulders"), str_tuple(node.elts[1], 2, "pose_shoulders"))


def hands_value(node):
    if not (isinstance(node, ast.Tuple) and len(node.elts) == 3):
        fail("hands_components: return value is not a triple")
    return (str_tuple(node.elts[0], 2, "hands_components"), str_tuple(node.elts[1], 3, "hands_components"),
            str_tuple(node.elts[2], 2, "hands_components"))


def q(s):
    return cstr(s)


def strlist(name, items):
    return "Definition %s : list string :=\n  %s.\n" % (name, clist([q(x) for x in items]))


def gen():
    warnings.simplefilter("ignore", SyntaxWarning)      # utils/openpose.py contains "\D" in a plain string literal
    out = [HEADER.replace("harness/translate_py.py", "harness/translate_c13.py")]
    tg = parse("utils/generic.py")
    lists, order, gcn = detect_tables(tg)
    for nm in sorted(lists):
        out.append(strlist("list_" + nm, lists[nm]))
    out.append("Definition detect_order : list (string * string) :=\n  %s.\n" % clist(["(%s, %s)" % (q(a), q(b)) for a, b in order]))
    out.append(strlist("get_component_names_body", gcn))
    sh = if_chain(topfn(tg, "pose_shoulders"), "pose_header", shoulders_value, "pose_shoulders")
    out.append("Definition pose_shoulders : list (string * ((string * string) * (string * string))) :=\n  %s.\n" % clist(
        ["(%s, ((%s, %s), (%s, %s)))" % (q(f), q(v[0][0]), q(v[0][1]), q(v[1][0]), q(v[1][1])) for f, v in sh]))
    hc = if_chain(topfn(tg, "hands_components"), "pose_header", hands_value, "hands_components")
    out.append("Definition hands_components : list (string * ((string * string) * (string * string * string) * (string * string))) :=\n  %s.\n" % clist(
        ["(%s, ((%s, %s), (%s, %s, %s), (%s, %s)))" % ((q(f),) + tuple(q(x) for x in v[0] + v[1] + v[2])) for f, v in hc]))
    for name in ("pose_normalization_info", "normalize_component_3d", "normalize_hands_3d"):
        out.append(strlist(name + "_body", stmts(topfn(tg, name))))
    th = parse("pose_header.py")
    hdr = cls(th, "PoseHeader")
    out.append(strlist("get_point_index_body", stmts(fn(hdr, "_get_point_index")) + ["--"] + stmts(fn(hdr, "get_point_index"))))
    out.append(strlist("normalization_info_body", stmts(fn(hdr, "normalization_info"))))
    tp = parse("pose.py")
    pc = cls(tp, "Pose")
    for name in ("normalize", "normalize_distribution", "unnormalize_distribution"):
        out.append(strlist("pose_" + name + "_body", stmts(fn(pc, name))))
    tf_ = parse("utils/fast_math.py")
    out.append(strlist("distance_batch_body", stmts(topfn(tf_, "distance_batch"))))
    tn = parse("utils/normalization_3d.py")
    pn = cls(tn, "PoseNormalizer")
    for name in ("__init__", "rotate_to_normal", "get_normal", "get_rotation_angle", "rotate", "scale", "normalize_pose", "__call__"):
        out.append(strlist("pn_" + name.strip("_") + "_body", stmts(fn(pn, name))))
    tt = parse("tensorflow/masked/tensor.py")
    mt = cls(tt, "MaskedTensor")
    for name in ("mean", "variance", "std"):
        out.append(strlist("tf_" + name + "_body", stmts(fn(mt, name))))
    tnp = parse("numpy/pose_body.py")
    out.append(strlist("np_points_perspective_body", stmts(fn(cls(tnp, "NumPyPoseBody"), "points_perspective"))))
    ttf = parse("tensorflow/pose_body.py")
    out.append(strlist("tf_points_perspective_body", stmts(fn(cls(ttf, "TensorflowPoseBody"), "points_perspective"))))
    tb = parse("pose_body.py")
    pd = [n for n in tb.body if isinstance(n, ast.Assign) and ast.unparse(n.targets[0]) == "POINTS_DIMS"]
    if len(pd) != 1:
        fail("POINTS_DIMS not found")
    out.append("Definition points_dims : string := %s.\n" % q(ast.unparse(pd[0].value)))
    return {"Gen_C13.v": "\n".join(out)}


if __name__ == "__main__":
    for k, v in gen().items():
        print(v)
