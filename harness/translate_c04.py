"""Fail-closed translator for C04: the statement sequences (and signatures) of the two legacy body decoders and of
the reader methods they alone use, regenerated from /repo on every run into coq/gen/Gen_C04.v.  The lemmas of
coq/proofs/C04_GenTie.v compare them with the literals model/C04_Legacy.v was transcribed from."""
import ast

import translate_py as tp
from translate_py import body_wo_doc, clist, cls, cstr, fail, fn, parse, read_steps


def steps(f):
    return clist([cstr(x) for x in read_steps(body_wo_doc(f), "")])


def gen():
    lines = [tp.HEADER]
    tb = parse("pose_body.py")
    pb = cls(tb, "PoseBody")
    f01 = fn(pb, "read_v0_1")
    lines.append("Definition read_v0_1_signature : string := %s.\n" % cstr(ast.unparse(f01.args)))
    lines.append("Definition read_v0_1_body : list string :=\n  " + steps(f01) + ".\n")
    lines.append("Definition read_dispatch : list string :=\n  " + steps(fn(pb, "read")) + ".\n")
    tn = parse("numpy/pose_body.py")
    nb = cls(tn, "NumPyPoseBody")
    f00 = fn(nb, "read_v0_0")
    lines.append("Definition read_v0_0_signature : string := %s.\n" % cstr(ast.unparse(f00.args)))
    lines.append("Definition read_v0_0_body : list string :=\n  " + steps(f00) + ".\n")
    tr = parse("utils/reader.py")
    br = cls(tr, "BufferReader")
    sr = cls(tr, "BytesIOReader")
    lines.append("Definition reader_bytes_left : list string :=\n  " + steps(fn(br, "bytes_left")) + ".\n")
    lines.append("Definition reader_bytes_remaining : list string :=\n  " + steps(fn(br, "bytes_remaining")) + ".\n")
    lines.append("Definition stream_reader_bytes_remaining : list string :=\n  " + steps(fn(sr, "bytes_remaining")) + ".\n")
    lines.append("Definition reader_advance : list string :=\n  " + steps(fn(br, "advance")) + ".\n")
    # the stream reader must not override what the decoders rely on beyond these methods
    over = sorted(n.name for n in sr.body if isinstance(n, ast.FunctionDef))
    lines.append("Definition stream_reader_methods : list string :=\n  " + clist([cstr(x) for x in over]) + ".\n")
    lines.append("")
    return {"Gen_C04.v": "\n".join(lines)}


if __name__ == "__main__":
    for k, v in gen().items():
        print(v)
