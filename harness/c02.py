"""C02 - written files follow the published v0.2 byte layout exactly (both directions)."""
import struct

import numpy as np

import common
import posegen as pg
import translate_py
from c01 import C01, canon_tail


def py_spec_encode(content):
    """Reference encoder written from docs/specs/v0.2.md only (little-endian, u16-length-prefixed UTF-8 strings)."""
    out = bytearray()

    def s(cps):
        b = pg.from_cps(cps).encode("utf-8")
        out.extend(struct.pack("<H", len(b)))
        out.extend(b)
    out += struct.pack("<I", content["version"])          # float, given as its 32-bit word
    out += struct.pack("<HHH", *content["dims"])
    out += struct.pack("<H", len(content["comps"]))
    for c in content["comps"]:
        s(c["name"])
        s(c["format"])
        out += struct.pack("<HHH", len(c["points"]), len(c["limbs"]), len(c["colors"]))
        for p in c["points"]:
            s(p)
        for a, b in c["limbs"]:
            out += struct.pack("<HH", a, b)
        for r, g, bl in c["colors"]:
            out += struct.pack("<HHH", r, g, bl)
    out += struct.pack("<I", content["fps"])
    out += struct.pack("<I", content["shape"][0])
    out += struct.pack("<H", content["shape"][1])
    for w in content["data"]:
        out += struct.pack("<I", w)
    for w in content["conf"]:
        out += struct.pack("<I", w)
    return list(out)


def field_at(content, offset):
    """name of the spec field containing a byte offset (for diagnostics)"""
    pos = 0
    names = [("version", 4), ("width", 2), ("height", 2), ("depth", 2), ("number of components", 2)]
    for i, c in enumerate(content["comps"]):
        names += [("component %d name" % i, 2 + len(pg.from_cps(c["name"]).encode("utf-8", "surrogatepass"))),
                  ("component %d format" % i, 2 + len(pg.from_cps(c["format"]).encode("utf-8", "surrogatepass"))),
                  ("component %d counts" % i, 6)]
        names += [("component %d point %d" % (i, j), 2 + len(pg.from_cps(p).encode("utf-8", "surrogatepass"))) for j, p in enumerate(c["points"])]
        names += [("component %d limbs" % i, 4 * len(c["limbs"])), ("component %d colors" % i, 6 * len(c["colors"]))]
    names += [("fps", 4), ("number of frames", 4), ("number of people", 2), ("data block", 4 * len(content["data"])),
              ("confidence block", 4 * len(content["conf"]))]
    for n, l in names:
        if offset < pos + l:
            return n
        pos += l
    return "past the end"


class C02(common.Prop):
    ID = "C02"
    RUNNER = "c02"
    MODEL_FILES = ["model/C02_SpecV02.v", "model/Codec.v", "model/PoseRead.v"]
    RULE = ("poses of the C01 space; writer direction: Pose.write bytes vs the harness reference encoder (written from docs/specs/v0.2.md) vs "
            "the extracted Coq spec encoder; reader direction: Pose.read of reference-encoded bytes vs the encoded content, then "
            "re-writing reproduces the file; non-trivial = the pose is representable (the writer accepts it); distinct by content hash")
    TRUSTED = ["Coq 8.16.1 kernel", "harness/translate_py.py", "extraction: ExtrOcamlBasic only; runner/driver.ml",
               "harness/c02.py py_spec_encode (independent reference encoder), harness/posegen.py canonicalisers"]
    ASSUMPTIONS = ["docs/specs/v0.2.md `string` and `char[]` mean a 16-bit little-endian byte count followed by UTF-8 bytes (as the property states)",
                   "NaN payloads of double->float32 conversion are hardware-defined: float words are compared with NaN mapped to one word"]

    def translate(self):
        return translate_py.codec_gen()

    def setup(self):
        self.c01 = C01()

    def gen_cases(self, rng, tier):
        n = 300 if tier == "quick" else 5000
        for _ in range(n):
            yield pg.gen_pose_case(rng, edge=0.08)

    def features(self, case):
        return self.c01.features(case)

    def nontrivial(self, case):
        return case["edge"] == "none"

    def run_impl(self, case):
        w = pg.impl_write(case)
        case["_w"] = w
        out = {"write": pg.strip_err(w)}
        if w[0] == "ok":
            content = self.c01.expected(case)
            case["_content"] = content
            ref = py_spec_encode(content)
            case["_ref"] = ref
            pg.set_memo("empty")
            r, _ = pg.impl_read(ref)
            case["_read_ref"] = r
            out["ref_bytes"] = ref
            # re-write what was just read
            rw = None
            if r[0] == "ok":
                from pose_format import Pose
                import io
                pg.set_memo("empty")
                p = Pose.read(bytes(ref))
                buf = io.BytesIO()
                p.write(buf)
                rw = list(buf.getvalue())
            case["_rewrite"] = rw
        return out

    def run_model(self, case, runner):
        t = runner.ask([1, pg.wpose_tree(case)])
        w = pg.result_of_tree(t, lambda x: list(x))
        out = {"write": w}
        if w[0] == "ok" and "_content" in case:
            c = case["_content"]
            comps = [[k["name"], k["format"], k["points"], k["limbs"], k["colors"]] for k in c["comps"]]
            tree = [[c["version"], c["dims"], comps], [c["fps"], c["shape"], c["data"], c["conf"], c["mask"]]]
            sp = runner.ask([7, tree])
            out["ref_bytes"] = list(sp[1]) if sp[0] == 1 else None
        return out

    def compare(self, case, io, mo):
        if io["write"][0] != mo["write"][0]:
            return "write: implementation %s, model %s" % (io["write"][0], mo["write"][0])
        if io["write"][0] == "ok":
            nf = len(case["data"]) + len(case["conf"])
            a, b = canon_tail(io["write"][1], nf), canon_tail(mo["write"][1], nf)
            if a != b:
                return "written bytes differ between implementation and model"
            if mo.get("ref_bytes") is None or canon_tail(mo["ref_bytes"], nf) != canon_tail(io["ref_bytes"], nf):
                return "Coq spec encoder and harness reference encoder differ"
            if canon_tail(mo["ref_bytes"], nf) != a:
                return "spec encoder output differs from the written bytes"
        return None

    def oracle(self, case):
        w = case["_w"]
        if w[0] != "ok":
            return None
        content, ref = case["_content"], case["_ref"]
        nf = len(content["data"]) + len(content["conf"])
        a, b = canon_tail(w[1], nf), canon_tail(ref, nf)
        if a != b:
            if len(a) != len(b):
                return {"what": "written file has %d bytes, the reference encoding %d" % (len(a), len(b)), "kind": "length"}
            i = next(k for k in range(len(a)) if a[k] != b[k])
            return {"what": "written byte %d differs from the reference encoding (field: %s)" % (i, field_at(content, i)),
                    "kind": "bytes", "field": field_at(content, i).split(" ")[0]}
        r = case["_read_ref"]
        if r[0] != "ok":
            return {"what": "reading the reference-encoded file raises %s" % r[1], "kind": "read-raises"}
        if r[1] != content:
            diff = [k for k in content if r[1].get(k) != content[k]]
            return {"what": "reference-encoded file is read to different content: %s" % diff, "kind": "read-differs", "field": diff[0]}
        if case["_rewrite"] is not None and canon_tail(case["_rewrite"], nf) != b:
            return {"what": "re-writing the pose that was just read does not reproduce the file", "kind": "rewrite"}
        return None

    def classify(self, case, f):
        return "layout-%s-%s" % (f.get("kind"), f.get("field", ""))


PROP = C02
