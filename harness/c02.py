"""C02 - written files follow the published v0.2 byte layout exactly (both directions)."""
import struct

import numpy as np

import common
import posegen as pg
import translate_py
from c01 import C01, canon_tail


def py_spec_encode(content):
    """Reference encoder written from docs/specs/v0.2.md only (little-endian, u16-length-prefixed UTF-8 strings)."""
    out = bytearray()

    def s(cps):
        b = pg.from_cps(cps).encode("utf-8")
        out.extend(struct.pack("<H", len(b)))
        out.extend(b)
    out += struct.pack("<I", content["version"])          # float, given as its 32-bit word
    out += struct.pack("<HHH", *content["dims"])
    out += struct.pack("<H", len(content["comps"]))
    for c in content["comps"]:
        s(c["name"])
        s(c["format"])
        out += struct.pack("<HHH", len(c["points"]), len(c["limbs"]), len(c["colors"]))
        for p in c["points"]:
            s(p)
        for a, b in c["limbs"]:
            out += struct.pack("<HH", a, b)
        for r, g, bl in c["colors"]:
            out += struct.pack("<HHH", r, g, bl)
    out += struct.pack("<I", content["fps"])
    out += struct.pack("<I", content["shape"][0])
    out += struct.pack("<H", content["shape"][1])
    for w in content["data"]:
        out += struct.pack("<I", w)
    for w in content["conf"]:
        out += struct.pack("<I", w)
    return list(out)


def field_at(content, offset):
    """name of the spec field containing a byte offset (for diagnostics)"""
    pos = 0
    names = [("version", 4), ("width", 2), ("height", 2), ("depth", 2), ("number of components", 2)]
    for i, c in enumerate(content["comps"]):
        names += [("component %d name" % i, 2 + len(pg.from_cps(c["name"]).encode("utf-8", "surrogatepass"))),
                  ("component %d format" % i, 2 + len(pg.from_cps(c["format"]).encode("utf-8", "surrogatepass"))),
                  ("component %d counts" % i, 6)]
        names += [("component %d point %d" % (i, j), 2 + len(pg.from_cps(p).encode("utf-8", "surrogatepass"))) for j, p in enumerate(c["points"])]
        names += [("component %d limbs" % i, 4 * len(c["limbs"])), ("component %d colors" % i, 6 * len(c["colors"]))]
    names += [("fps", 4), ("number of frames", 4), ("number of people", 2), ("data block", 4 * len(content["data"])),
              ("confidence block", 4 * len(content["conf"]))]
    for n, l in names:
        if offset < pos + l:
            return n
        pos += l
    return "past the end"


VERSION_02 = 0x3E4CCCCD
# float32 words that Python's round(x, 3) maps to 0.2 like the writer's own literal (pose_body.py:62-69)
FOREIGN_VERSIONS = [0x3E4CCCCD, 0x3E4CCCCC, 0x3E4CCCCE, 0x3E4CCCD4, 0x3E4CCCC4]


def foreign_word(r, conf=False):
    """an arbitrary 32-bit float word: every class, including the ones no Pose.write of a float64/float32 array of
    ordinary numbers produces (NaN payloads, signalling NaNs)"""
    k = r.randrange(10)
    if k == 0:
        return r.choice([0, 0x80000000])
    if k == 1:
        return r.choice([0x7F800000, 0xFF800000])
    if k == 2:
        return r.choice([0x7FC00000, 0x7FC00001, 0xFFC00000, 0x7F800001, 0x7FBFFFFF, 0xFFFFFFFF, 0x7FC12345])
    if k == 3:
        return r.choice([1, 0x007FFFFF, 0x80000001, 0x00800000, 0x7F7FFFFF, 0xFF7FFFFF, r.randrange(1, 0x00800000)])
    if k == 4 and conf:
        return r.choice([0x3F800000, 0x3F000000, 0])
    return r.getrandbits(32)


def foreign_content(content, spec):
    """a coherent content over the same header and shape whose version / fps / float words are arbitrary: not the image
    of any written pose"""
    import random
    r = random.Random(spec["seed"])
    c = dict(content)
    c["version"] = spec["version"]
    c["fps"] = spec["fps"]
    c["data"] = [foreign_word(r) for _ in content["data"]]
    c["conf"] = [foreign_word(r, conf=True) for _ in content["conf"]]
    c["mask"] = [int((w & 0x7FFFFFFF) == 0) for w in c["conf"]]
    return c


def canon_content(c):
    """a content as dump_pose shows it: NaN words mapped to one word"""
    d = dict(c)
    d["fps"] = pg.canon32(c["fps"])
    d["data"] = [pg.canon32(w) for w in c["data"]]
    d["conf"] = [pg.canon32(w) for w in c["conf"]]
    return d


def canon_file(bs, nwords):
    """NaN words of the two blocks and of the fps field (10 bytes before the blocks) mapped to one word"""
    bs = canon_tail(bs, nwords)
    o = len(bs) - 4 * nwords - 10
    if o >= 0:
        w = bs[o] | bs[o + 1] << 8 | bs[o + 2] << 16 | bs[o + 3] << 24
        if (w & 0x7FFFFFFF) > 0x7F800000:
            bs[o:o + 4] = [0, 0, 0xC0, 0x7F]
    return bs


class C02(common.Prop):
    ID = "C02"
    RUNNER = "c02"
    MODEL_FILES = ["model/C02_SpecV02.v", "model/C02_Content.v", "model/C02_Run.v", "model/Codec.v", "model/PoseRead.v"]
    RULE = ("poses of the C01 space; writer direction: Pose.write bytes vs the harness reference encoder (written from docs/specs/v0.2.md) vs "
            "the extracted Coq spec encoder; reader direction: Pose.read of reference-encoded bytes vs the encoded content, then "
            "re-writing reproduces the file; the same reader direction on a FOREIGN content over the same header and shape (arbitrary "
            "32-bit float words incl. NaN payloads / signalling NaNs / infinities, arbitrary fps word, a version word next to 0.2): "
            "Pose.read vs the content vs the Coq reader model, re-write vs the reference encoding with version 0.2 (NaN words mapped to "
            "one word); non-trivial = the pose is representable (the writer accepts it); distinct by content hash")
    TRUSTED = ["Coq 8.16.1 kernel", "harness/translate_py.py", "extraction: ExtrOcamlBasic only; runner/driver.ml",
               "harness/c02.py py_spec_encode (independent reference encoder), harness/posegen.py canonicalisers"]
    ASSUMPTIONS = ["docs/specs/v0.2.md `string` and `char[]` mean a 16-bit little-endian byte count followed by UTF-8 bytes (as the property states)",
                   "NaN payloads of double->float32 conversion are hardware-defined: float words are compared with NaN mapped to one word"]

    def translate(self):
        return translate_py.codec_gen()

    def setup(self):
        self.c01 = C01()

    def gen_cases(self, rng, tier):
        n = 300 if tier == "quick" else 5000
        for _ in range(n):
            case = pg.gen_pose_case(rng, edge=0.08)
            case["foreign"] = {"version": rng.choice(FOREIGN_VERSIONS), "fps": foreign_word(rng), "seed": rng.getrandbits(32)}
            yield case

    def features(self, case):
        return self.c01.features(case)

    def nontrivial(self, case):
        return case["edge"] == "none"

    def run_impl(self, case):
        w = pg.impl_write(case)
        case["_w"] = w
        out = {"write": pg.strip_err(w)}
        if w[0] == "ok":
            content = self.c01.expected(case)
            case["_content"] = content
            ref = py_spec_encode(content)
            case["_ref"] = ref
            pg.set_memo("empty")
            r, _ = pg.impl_read(ref)
            case["_read_ref"] = r
            out["ref_bytes"] = ref
            # re-write what was just read
            rw = None
            if r[0] == "ok":
                from pose_format import Pose
                import io
                # "just read": in a fresh process, or after the same file was read before and that first pose was edited by
                # its owner (header dimensions reassigned, a point renamed, a colour changed) - a function of the case only
                pg.set_memo("same" if len(ref) % 2 else "empty", same_bytes=ref)
                try:
                    p = Pose.read(bytes(ref))
                    buf = io.BytesIO()
                    p.write(buf)
                    rw = list(buf.getvalue())
                except Exception as e:          # the oracle reports it: a pose that was just read must be writable
                    case["_rewrite_err"] = type(e).__name__
            case["_rewrite"] = rw
            # the reader direction on a content that is not the image of a written pose
            if case.get("foreign") and content["shape"][3] >= 1:
                fc = foreign_content(content, case["foreign"])
                case["_fcontent"] = fc
                fref = py_spec_encode(fc)
                case["_fref"] = fref
                pg.set_memo("empty")
                fr, _ = pg.impl_read(fref)
                case["_fread"] = fr
                frw = None
                if fr[0] == "ok":
                    from pose_format import Pose
                    import io
                    pg.set_memo("empty")
                    try:
                        buf = io.BytesIO()
                        Pose.read(bytes(fref)).write(buf)
                        frw = ["ok", list(buf.getvalue())]
                    except Exception as e:
                        frw = ["err", type(e).__name__]
                case["_frewrite"] = frw
                out["foreign_read"] = pg.strip_err(fr)
                out["foreign_rewrite"] = pg.strip_err(frw) if frw is not None else None
        return out

    def run_model(self, case, runner):
        t = runner.ask([1, pg.wpose_tree(case)])
        w = pg.result_of_tree(t, lambda x: list(x))
        out = {"write": w}
        if w[0] == "ok" and "_content" in case:
            c = case["_content"]
            comps = [[k["name"], k["format"], k["points"], k["limbs"], k["colors"]] for k in c["comps"]]
            tree = [[c["version"], c["dims"], comps], [c["fps"], c["shape"], c["data"], c["conf"], c["mask"]]]
            sp = runner.ask([7, tree])
            out["ref_bytes"] = list(sp[1]) if sp[0] == 1 else None
            if "_fcontent" in case:
                c = case["_fcontent"]
                tree = [[c["version"], c["dims"], comps], [c["fps"], c["shape"], c["data"], c["conf"], []]]   # no mask given
                t = runner.ask([8, tree])
                if t[0] == 1:
                    out["foreign_coherent"] = t[1]
                    out["foreign_ref"] = list(t[2])
                    out["foreign_read"] = pg.result_of_tree(t[3], pg.pose_of_tree)
                    out["foreign_rewrite"] = pg.result_of_tree(t[4], lambda x: list(x))
                else:
                    out["foreign_ref"] = None
        return out

    def compare(self, case, io, mo):
        if io["write"][0] != mo["write"][0]:
            return "write: implementation %s, model %s" % (io["write"][0], mo["write"][0])
        if io["write"][0] == "ok":
            nf = len(case["data"]) + len(case["conf"])
            a, b = canon_tail(io["write"][1], nf), canon_tail(mo["write"][1], nf)
            if a != b:
                return "written bytes differ between implementation and model"
            if mo.get("ref_bytes") is None or canon_tail(mo["ref_bytes"], nf) != canon_tail(io["ref_bytes"], nf):
                return "Coq spec encoder and harness reference encoder differ"
            if canon_tail(mo["ref_bytes"], nf) != a:
                return "spec encoder output differs from the written bytes"
            if "_fcontent" in case:
                if mo.get("foreign_ref") is None or mo["foreign_ref"] != case["_fref"]:
                    return "foreign content: Coq spec encoder and harness reference encoder differ"
                if mo.get("foreign_coherent") != 1:
                    return "foreign content over a written pose's header and shape is not coherent in the model"
                if io["foreign_read"] != mo["foreign_read"]:
                    return "foreign content: Pose.read of the reference bytes, implementation %s, model %s" % (io["foreign_read"][0], mo["foreign_read"][0])
                ir, mr = io["foreign_rewrite"], mo["foreign_rewrite"]
                if ir is not None and (ir[0] != mr[0] or (ir[0] == "ok" and canon_file(ir[1], nf) != canon_file(mr[1], nf))):
                    return "foreign content: re-written bytes differ between implementation and model"
        return None

    def oracle(self, case):
        w = case["_w"]
        if w[0] != "ok":
            return None
        content, ref = case["_content"], case["_ref"]
        nf = len(content["data"]) + len(content["conf"])
        a, b = canon_tail(w[1], nf), canon_tail(ref, nf)
        if a != b:
            if len(a) != len(b):
                return {"what": "written file has %d bytes, the reference encoding %d" % (len(a), len(b)), "kind": "length"}
            i = next(k for k in range(len(a)) if a[k] != b[k])
            return {"what": "written byte %d differs from the reference encoding (field: %s)" % (i, field_at(content, i)),
                    "kind": "bytes", "field": field_at(content, i).split(" ")[0]}
        r = case["_read_ref"]
        if r[0] != "ok":
            return {"what": "reading the reference-encoded file raises %s" % r[1], "kind": "read-raises"}
        if r[1] != content:
            diff = [k for k in content if r[1].get(k) != content[k]]
            return {"what": "reference-encoded file is read to different content: %s" % diff, "kind": "read-differs", "field": diff[0]}
        msg = pg.rewrite_after_edit(case)
        if msg:
            return {"what": msg, "kind": "rewrite-after-edit"}
        if case.get("_rewrite_err"):
            return {"what": "re-writing the pose that was just read raises %s" % case["_rewrite_err"], "kind": "rewrite-raises"}
        if case["_rewrite"] is not None and canon_tail(case["_rewrite"], nf) != b:
            return {"what": "re-writing the pose that was just read does not reproduce the file", "kind": "rewrite"}
        if "_fcontent" in case:
            fc, fr, frw = case["_fcontent"], case["_fread"], case["_frewrite"]
            if fr[0] != "ok":
                return {"what": "reading the reference encoding of a foreign content raises %s" % fr[1], "kind": "foreign-read-raises"}
            exp = canon_content(fc)
            if fr[1] != exp:
                diff = [k for k in exp if fr[1].get(k) != exp[k]] + [k for k in fr[1] if k not in exp]
                return {"what": "reference encoding of a foreign content is read to different content: %s" % diff,
                        "kind": "foreign-read-differs", "field": diff[0]}
            if frw is None or frw[0] != "ok":
                return {"what": "re-writing the foreign pose that was just read raises %s" % (frw[1] if frw else "?"), "kind": "foreign-rewrite-raises"}
            want = dict(fc)
            want["version"] = VERSION_02
            if canon_file(frw[1], nf) != canon_file(py_spec_encode(want), nf):
                return {"what": "re-writing the foreign pose that was just read does not give its reference encoding with version 0.2",
                        "kind": "foreign-rewrite"}
            if fc["version"] == VERSION_02 and canon_file(frw[1], nf) != canon_file(case["_fref"], nf):
                return {"what": "re-writing the foreign pose that was just read does not reproduce the file", "kind": "foreign-rewrite"}
        return None

    def classify(self, case, f):
        return "layout-%s-%s" % (f.get("kind"), f.get("field", ""))


PROP = C02
