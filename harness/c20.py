"""C20 - batch collation pads without altering or unmasking anything.

case = {"entry": "zpc"|"ct"|"pt", "pad": int, "batch": [value ...], "malformed": str}
value = {"k": "M"|"P", "dt": 0..5, "shape": [...], "data": [ints], "mask": [0/1]}      masked / plain tensor
      | {"k": "I", "v": int, "py": "int"|"np.int32"|"bool"} | {"k": "S", "v": [code points]}
      | {"k": "D", "items": [[key code points, value] ...]} | {"k": "T", "items": [value ...]}
      | {"k": "O", "what": "float"|"none"|"np.int64"|"list", "v": int}
entries: zpc = zero_pad_collator(batch); ct = collate_tensors(batch, pad_value=pad); pt = pad_tensors(batch, pad_value=pad)
"""
import itertools

import common
import translate_c20

DT_NAMES = ["bool", "u8", "i32", "i64", "f32", "f64"]
OTHER = {"float": 0, "none": 1, "np.int64": 2, "list": 3}
ENTRY = {"zpc": 0, "ct": 1, "pt": 2}
I64 = (-2 ** 63, 2 ** 63)


class OutOfDomain(Exception):
    pass


# ------------------------------------------------------------------------------------------------
# case values -> trees for the model
def value_tree(v):
    k = v["k"]
    if k == "M":
        return [0, v["dt"], list(v["shape"]), list(v["data"]), list(v["shape"]), list(v["mask"])]
    if k == "P":
        return [1, v["dt"], list(v["shape"]), list(v["data"])]
    if k == "I":
        return [2, int(v["v"])]
    if k == "S":
        return [3, list(v["v"])]
    if k == "D":
        return [4, [[list(key), value_tree(x)] for key, x in v["items"]]]
    if k == "T":
        return [5, [value_tree(x) for x in v["items"]]]
    return [6, OTHER[v["what"]], int(v["v"])]


def prod(s):
    p = 1
    for d in s:
        p *= d
    return p


def tensor_fields(v, path=()):
    """all (path, value) of tensor leaves reachable through dicts / tuples"""
    if v["k"] in "MP":
        yield path, v
    elif v["k"] == "D":
        for key, x in v["items"]:
            yield from tensor_fields(x, path + (tuple(key),))
    elif v["k"] == "T":
        for i, x in enumerate(v["items"]):
            yield from tensor_fields(x, path + (i,))


def length_classes(case):
    """per tensor field of the first example: the lengths of that field across the batch (None where absent)"""
    out = []
    b = case["batch"]
    if not b:
        return out
    for path, _ in tensor_fields(b[0]):
        lens = []
        for ex in b:
            cur = ex
            try:
                for p in path:
                    if cur["k"] == "D" and not isinstance(p, int):
                        cur = dict((tuple(k), x) for k, x in cur["items"])[p]
                    elif cur["k"] == "T" and isinstance(p, int):
                        cur = cur["items"][p]
                    else:
                        raise KeyError
                lens.append(cur["shape"][0] if cur["k"] in "MP" and cur["shape"] else None)
            except (KeyError, IndexError):
                lens.append(None)
        out.append(lens)
    return out


class C20(common.Prop):
    ID = "C20"
    RUNNER = "c20"
    MODEL_FILES = ["base/Tensor.v", "model/C20_Collate.v", "model/C20_Run.v"]
    RULE = ("structured batches: size 1..5 (plus the empty batch in the malformed stream), examples = dict / tuple / masked tensor / str, "
            "fields = masked or plain tensors (6 dtypes, rank 1..3, trailing extents 0..3, lengths 0..6 drawn from the classes all-equal / "
            "all-1 / {0,1} mix / all-0 / random), ints (int, np.int32, bool), strings, dicts nested to depth 3; values exact small integers; "
            "entries zero_pad_collator, collate_tensors(pad), pad_tensors(pad) with pad in a small set; ~20% malformed (mixed masked/plain, "
            "trailing-shape / rank mismatch, missing or extra key, short tuple, int with str, 2**63, 0-d tensor, empty batch, top-level plain "
            "tensor or int, float/None/np.int64/list, tuple inside dict, pad that does not fit the dtype); plus every length tuple over "
            "{0,1,2} for batch sizes 1..3 (quick) / 1..4 (thorough) x masked/plain x two trailing shapes; non-trivial = batch size >= 2 with a "
            "tensor field, or malformed; distinct by content hash " "Dict examples with permuted key order; floating-point tensor batches are also padded with non-integral pad values (0.1, -2/3) and the padded cells compared with the value in the field's dtype.")
    TRUSTED = ["Coq 8.16.1 kernel", "harness/translate_c20.py (fail-closed ast translator)",
               "extraction: ExtrOcamlBasic only; runner/driver.ml",
               "harness/c20.py canonicalisers (exceptions -> one class; tensors -> dtype code, shape, exact integer values)"]
    ASSUMPTIONS = [
        "torch.cat / torch.stack / torch.full / torch.tensor(dtype=long) behave as modelled (row-major concatenation; promotion = max on the chain "
        "bool<uint8<int32<int64<float32<float64; torch.full converts the pad value to the tensor's dtype) - sampled by the correspondence",
        "tensor values are integers that every dtype in play represents exactly (|v| < 2**24); floating-point rounding is not involved in collation",
        "'integers' are what the dispatch enumerates: Python int (incl. bool) and np.int32; np.int64 scalars fall through to `return batch` "
        "(modelled as VOther, reported to the lead as an observation, not alarmed)",
        "fields are homogeneous across the batch (same kind, same trailing shape, same keys): heterogeneous batches are only compared "
        "model-vs-implementation, the property does not speak about them",
    ]

    def translate(self):
        return translate_c20.c20_gen()

    def translate_outputs(self):
        return ["gen/Gen_C20.v"]

    # ---------------------------------------------------------------------------------- implementation
    def setup(self):
        import numpy as np
        import torch
        from pose_format.torch.masked import MaskedTensor
        from pose_format.torch.masked import collator
        self.np, self.torch, self.MaskedTensor, self.collator = np, torch, MaskedTensor, collator
        self.dts = [torch.bool, torch.uint8, torch.int32, torch.int64, torch.float32, torch.float64]

    def build(self, v):
        torch, np = self.torch, self.np
        k = v["k"]
        if k in "MP":
            t = torch.tensor(list(v["data"]), dtype=torch.int64).to(self.dts[v["dt"]]).reshape(list(v["shape"]))
            # memory layout of what the caller hands over (a function of the example only): as built, permuted storage (dense but
            # not contiguous - what points_perspective() / get_points() return), a strided view of a longer tensor
            lay = len(v["data"]) + sum(v["shape"]) + (v["data"][0] if v["data"] else 0)
            t = common.vary_torch(t, lay)
            if k == "P":
                return t
            m = torch.tensor(list(v["mask"]), dtype=torch.int64).to(torch.bool).reshape(list(v["shape"]))
            return self.MaskedTensor(tensor=t, mask=common.vary_torch(m, lay // 3))
        if k == "I":
            return {"int": int, "np.int32": np.int32, "bool": bool}[v["py"]](v["v"])
        if k == "S":
            return "".join(chr(c) for c in v["v"])
        if k == "D":
            return {"".join(chr(c) for c in key): self.build(x) for key, x in v["items"]}
        if k == "T":
            return tuple(self.build(x) for x in v["items"])
        w = v["what"]
        return {"float": lambda: v["v"] / 2.0, "none": lambda: None, "np.int64": lambda: np.int64(v["v"]), "list": lambda: [v["v"]]}[w]()

    def ints(self, t):
        xs = t.reshape(-1).tolist()
        out = []
        for x in xs:
            if isinstance(x, bool):
                out.append(int(x))
            elif isinstance(x, int):
                out.append(x)
            elif x == int(x):
                out.append(int(x))
            else:
                out.append(["non-integer", repr(x)])
        return out

    def dt_code(self, t):
        return self.dts.index(t.dtype) if t.dtype in self.dts else 99

    def canon_value(self, x):
        torch, np = self.torch, self.np
        if isinstance(x, self.MaskedTensor):
            return [0, self.dt_code(x.tensor), list(x.tensor.shape), self.ints(x.tensor), list(x.mask.shape), self.ints(x.mask)]
        if isinstance(x, torch.Tensor):
            return [1, self.dt_code(x), list(x.shape), self.ints(x)]
        if isinstance(x, (bool, int, np.int32)):
            return [2, int(x)]
        if isinstance(x, str):
            return [3, [ord(c) for c in x]]
        if isinstance(x, dict):
            return [4, [[[ord(c) for c in k], self.canon_value(y)] for k, y in x.items()]]
        if isinstance(x, tuple):
            return [5, [self.canon_value(y) for y in x]]
        if isinstance(x, float):
            return [6, 0, int(x * 2)]
        if x is None:
            return [6, 1, 0]
        if isinstance(x, np.int64):
            return [6, 2, int(x)]
        if isinstance(x, list) and len(x) == 1:
            return [6, 3, int(x[0])]
        return [6, 98, 0]

    def canon_out(self, x):
        torch = self.torch
        if isinstance(x, self.MaskedTensor):
            return [0, self.dt_code(x.tensor), list(x.tensor.shape), self.ints(x.tensor), list(x.mask.shape), self.ints(x.mask)]
        if isinstance(x, torch.Tensor):
            return [1, self.dt_code(x), list(x.shape), self.ints(x)]
        if isinstance(x, list):
            return [2, [self.canon_value(y) for y in x]]
        if isinstance(x, dict):
            return [3, [[[ord(c) for c in k], self.canon_out(y)] for k, y in x.items()]]
        if isinstance(x, tuple):
            return [4, [self.canon_out(y) for y in x]]
        return [98, repr(type(x))]

    def call(self, case):
        batch = [self.build(v) for v in case["batch"]]
        e = case["entry"]
        if e == "zpc":
            return self.collator.zero_pad_collator(batch)
        if e == "ct":
            return self.collator.collate_tensors(batch, pad_value=case["pad"])
        return self.collator.pad_tensors(batch, pad_value=case["pad"])

    @staticmethod
    def longest_len(v):
        """largest first extent among the tensors of one example (0 when it has none)"""
        if v["k"] in "MP":
            return v["shape"][0] if v["shape"] else 0
        if v["k"] in "DT":
            return max([C20.longest_len(x[1] if v["k"] == "D" else x) for x in v["items"]] or [0])
        return 0

    def collate(self, batch, case):
        e = case["entry"]
        if e == "zpc":
            return self.collator.zero_pad_collator(batch)
        if e == "ct":
            return self.collator.collate_tensors(batch, pad_value=case["pad"])
        return self.collator.pad_tensors(batch, pad_value=case["pad"])

    def float_pad_probe(self, case):
        """a batch of floating-point tensors padded with a pad value that is not a whole number: every padded position holds the
        pad value AS THE FIELD'S DTYPE HOLDS IT (0.1 in a float64 field is the double 0.1, not the float32 nearest to it)"""
        torch = self.torch
        if case["entry"] == "zpc" or case.get("malformed", "none") != "none" or len(case["batch"]) < 2:
            return
        if not all(v["k"] in "MP" and v["dt"] in (4, 5) and v["shape"] for v in case["batch"]):
            return
        if len({(v["k"], v["dt"], tuple(v["shape"][1:])) for v in case["batch"]}) != 1:
            return
        lens = [v["shape"][0] for v in case["batch"]]
        if len(set(lens)) < 2:
            return
        for padf in (0.1, -2.0 / 3.0):
            try:
                batch = [self.build(v) for v in case["batch"]]
                r = self.collator.collate_tensors(batch, pad_value=padf) if case["entry"] == "ct" else self.collator.pad_tensors(batch, pad_value=padf)
                if isinstance(r, list):
                    r = r  # pad_tensors returns the padded examples
                rows = list(r) if isinstance(r, list) else [r[i] for i in range(len(lens))]
                want = torch.tensor(padf, dtype=self.dts[case["batch"][0]["dt"]])
                for i, row in enumerate(rows):
                    t = row.tensor if hasattr(row, "tensor") and hasattr(row, "mask") else row
                    tail = t[lens[i]:]
                    if tail.numel() and not bool((tail == want).all()):
                        case["_padf"] = "row %d: a padded position holds %r, the pad value %r in dtype %s is %r" % (
                            i, float(tail.reshape(-1)[0]), padf, str(t.dtype), float(want))
                        return
            except Exception as e:
                case["_padf"] = "pad value %r raises %s" % (padf, type(e).__name__)
                return

    def build_batch(self, case):
        if not case.get("views") or case.get("malformed", "none") != "none":
            return [self.build(v) for v in case["batch"]]
        torch = self.torch
        tens = [(v["items"][0][1] if v["k"] == "D" else v) for v in case["batch"]]
        L = tens[0]["shape"][0]
        tail = list(tens[0]["shape"][1:])
        w = prod(tail) if tail else 1
        def base_of(key, to):
            rows = [[0] * w for _ in range(2 * L)]
            for i in range(L):
                rows[2 * i] = list(tens[1][key][i * w:(i + 1) * w])
            for i in range(L):
                rows[i] = list(tens[0][key][i * w:(i + 1) * w])
            return torch.tensor([x for r in rows for x in r], dtype=torch.int64).to(to).reshape([2 * L] + tail)
        bt, bm = base_of("data", self.dts[tens[0]["dt"]]), base_of("mask", torch.bool)
        objs = [self.MaskedTensor(tensor=bt[:L], mask=bm[:L]), self.MaskedTensor(tensor=bt[::2], mask=bm[::2])]
        return [({"a": o} if v["k"] == "D" else o) for v, o in zip(case["batch"], objs)]

    def run_impl(self, case):
        case.pop("_reuse", None)
        try:
            batch = self.build_batch(case)
            r = self.collate(batch, case)
        except Exception as e:  # every rejection is one class
            case["_impl_exc"] = "%s: %s" % (type(e).__name__, str(e)[:160])
            case["_impl"] = "err"
            return "err"
        case["_impl"] = self.canon_out(r)
        case.pop("_padf", None)
        self.float_pad_probe(case)
        # the SAME example objects collated once more without the longest example: collation must not have changed its inputs,
        # so the result equals the collation of freshly built copies
        if len(batch) >= 2:
            lens = [self.longest_len(v) for v in case["batch"]]
            keep = [i for i in range(len(batch)) if i != lens.index(max(lens))]
            try:
                again = self.canon_out(self.collate([batch[i] for i in keep], case))
            except Exception as e:
                again = "err"
            try:
                fresh = self.canon_out(self.collate([self.build(case["batch"][i]) for i in keep], case))
            except Exception as e:
                fresh = "err"
            if again != fresh:
                case["_reuse"] = {"kept": keep, "again": common.small(again, 300), "fresh": common.small(fresh, 300)}
        return case["_impl"]

    # ---------------------------------------------------------------------------------- model
    def model_request(self, case):
        return [ENTRY[case["entry"]], int(case["pad"]), [value_tree(v) for v in case["batch"]]]

    def model_output(self, case, reply):
        return reply[1] if reply[0] == 1 else "err"

    def compare(self, case, impl_out, model_out):
        if impl_out == model_out:
            return None
        if impl_out == "err" or model_out == "err":
            return "implementation %s, model %s" % ("raises (%s)" % case.get("_impl_exc") if impl_out == "err" else "returns", "rejects" if model_out == "err" else "returns")
        return "collated batches differ"

    # ---------------------------------------------------------------------------------- oracle
    # The property statement evaluated on the implementation's output with plain Python lists (no Coq model).
    # expected_field: what the statement says about one field of a homogeneous batch; None = the statement is silent.
    @staticmethod
    def pad_value_in(dt, pad):
        if dt == 0:
            return int(pad != 0)
        if dt == 1:
            if not (-256 < pad <= 255):
                raise OutOfDomain("pad does not fit uint8")
            return pad % 256
        if dt == 2 and not (-2 ** 31 <= pad < 2 ** 31):
            raise OutOfDomain("pad does not fit int32")
        return pad

    def expected_field(self, vals, pad):
        k0 = vals[0]["k"]
        if any(v["k"] != k0 for v in vals):
            raise OutOfDomain("heterogeneous field")
        if k0 in "MP":
            if any(len(v["shape"]) == 0 for v in vals):
                raise OutOfDomain("0-d tensor")
            tail = vals[0]["shape"][1:]
            if any(v["shape"][1:] != tail for v in vals):
                raise OutOfDomain("trailing shapes differ")
            L = max(v["shape"][0] for v in vals)
            if any(v["shape"][0] < L for v in vals):
                for v in vals:
                    if v["shape"][0] < L:
                        self.pad_value_in(v["dt"], pad)
            return {"kind": "tensor", "masked": k0 == "M", "B": len(vals), "L": L, "tail": tail, "P": prod(tail), "vals": vals, "pad": pad}
        if k0 == "I":
            if any(not (I64[0] <= v["v"] < I64[1]) for v in vals):
                raise OutOfDomain("integer outside 64 bits")
            return {"kind": "ints", "ints": [int(v["v"]) for v in vals]}
        if k0 == "S":
            return {"kind": "strs", "strs": [list(v["v"]) for v in vals]}
        if k0 == "D":
            return self.expected_dict(vals)
        return None

    def expected_dict(self, vals):
        keys = [tuple(k) for k, _ in vals[0]["items"]]
        for v in vals:
            if sorted(tuple(k) for k, _ in v["items"]) != sorted(keys):
                raise OutOfDomain("examples have different keys")
        fields = []
        for key in keys:
            col = [dict((tuple(k), x) for k, x in v["items"])[key] for v in vals]
            fields.append((list(key), self.expected_field(col, 0)))
        return {"kind": "dict", "fields": fields}

    def expected(self, case):
        b = case["batch"]
        if not b:
            raise OutOfDomain("empty batch")
        e = case["entry"]
        if e == "zpc":
            k0 = b[0]["k"]
            if any(v["k"] != k0 for v in b):
                raise OutOfDomain("heterogeneous batch")
            if k0 == "D":
                return self.expected_dict(b)
            if k0 == "T":
                n = len(b[0]["items"])
                if any(len(v["items"]) != n for v in b):
                    raise OutOfDomain("tuples of different sizes")
                return {"kind": "tuple", "fields": [self.expected_field([v["items"][i] for v in b], 0) for i in range(n)]}
            if k0 in ("M", "S"):
                return self.expected_field(b, 0)
            raise OutOfDomain("top-level example is not a dict / tuple / masked tensor / str")
        if e == "ct":
            return self.expected_field(b, case["pad"])
        if any(v["k"] not in "MP" for v in b):
            raise OutOfDomain("pad_tensors of non-tensors")
        return self.expected_field(b, case["pad"])

    def check_field(self, got, exp, where):
        """got: canonical output of the implementation.  -> None or failure dict"""
        if exp is None:
            return None
        kind = exp["kind"]
        if kind == "tensor":
            tag = 0 if exp["masked"] else 1
            if not isinstance(got, list) or got[0] != tag:
                return {"clause": "kind", "what": "%s: expected one %s batch tensor" % (where, "masked" if exp["masked"] else "plain")}
            B, L, tail, P = exp["B"], exp["L"], exp["tail"], exp["P"]
            shp = [B, L] + list(tail)
            if got[2] != shp or (exp["masked"] and got[4] != shp):
                return {"clause": "batch_axes", "what": "%s: shape %s (mask %s), expected [examples, longest] + trailing = %s"
                        % (where, got[2], got[4] if exp["masked"] else None, shp)}
            data, mask = got[3], (got[5] if exp["masked"] else None)
            if len(data) != B * L * P or (mask is not None and len(mask) != B * L * P):
                return {"clause": "batch_axes", "what": "%s: number of cells does not match the shape" % where}
            for i, v in enumerate(exp["vals"]):
                n = v["shape"][0]
                row = data[i * L * P:(i + 1) * L * P]
                if row[:n * P] != [int(x) for x in v["data"]]:
                    return {"clause": "collate_rows", "what": "%s: row %d does not start with example %d's values" % (where, i, i)}
                if mask is not None and mask[i * L * P:i * L * P + n * P] != [int(x) for x in v["mask"]]:
                    return {"clause": "collate_rows", "what": "%s: row %d does not start with example %d's validity" % (where, i, i)}
                if n < L:
                    pv = self.pad_value_in(v["dt"], exp["pad"])
                    if any(x != pv for x in row[n * P:]):
                        return {"clause": "padding", "what": "%s: a padded position of row %d does not hold the pad value %d" % (where, i, pv)}
                    if mask is not None and any(x != 0 for x in mask[i * L * P + n * P:(i + 1) * L * P]):
                        return {"clause": "padding", "what": "%s: a padded position of row %d is marked valid" % (where, i)}
            return None
        if kind == "ints":
            if not isinstance(got, list) or got[0] != 1 or got[1] != 3 or got[2] != [len(exp["ints"])] or got[3] != exp["ints"]:
                return {"clause": "ints", "what": "%s: integers did not become one int64 tensor with the values in order" % where}
            return None
        if kind == "strs":
            if not isinstance(got, list) or got[0] != 2 or got[1] != [[3, s] for s in exp["strs"]]:
                return {"clause": "strings", "what": "%s: strings were not passed through in order" % where}
            return None
        if kind == "dict":
            if not isinstance(got, list) or got[0] != 3 or [k for k, _ in got[1]] != [k for k, _ in exp["fields"]]:
                return {"clause": "dict", "what": "%s: result is not a dict with the example's keys" % where}
            for (k, g), (_, e) in zip(got[1], exp["fields"]):
                f = self.check_field(g, e, where + "/" + "".join(chr(c) for c in k))
                if f is not None:
                    return f
            return None
        if kind == "tuple":
            if not isinstance(got, list) or got[0] != 4 or len(got[1]) != len(exp["fields"]):
                return {"clause": "tuple", "what": "%s: result is not a tuple of the example's size" % where}
            for i, (g, e) in enumerate(zip(got[1], exp["fields"])):
                f = self.check_field(g, e, where + "/%d" % i)
                if f is not None:
                    return f
            return None
        return None

    def oracle(self, case):
        try:
            exp = self.expected(case)
        except OutOfDomain:
            return None
        got = case.get("_impl")
        if got is None:
            got = self.run_impl(case)
        if case.get("_reuse"):
            return {"clause": "inputs-changed", "what": "collating the same example objects again (examples %s) differs from collating fresh "
                    "copies of them: the first collation changed its inputs" % case["_reuse"]["kept"], "detail": case["_reuse"]}
        if got == "err":
            return {"clause": "raises", "what": "collating a well-formed homogeneous batch raises %s" % case.get("_impl_exc")}
        if case.get("_padf"):
            return {"clause": "padding", "what": "non-integral pad value: " + case["_padf"]}
        return self.check_field(got, exp, "batch")

    def classify(self, case, failure):
        clause = failure.get("clause", "oracle-crash")
        if clause == "raises":
            for lens in length_classes(case):
                ls = [x for x in lens if x is not None]
                if ls and max(ls) == 1 and min(ls) == 0:
                    return "maxlen1-shortcut-with-length0-example"
        return "collate-" + clause

    # ---------------------------------------------------------------------------------- generator
    def features(self, case):
        b = case["batch"]
        cls = set()
        for lens in length_classes(case):
            ls = [x for x in lens if x is not None]
            if not ls:
                continue
            if len(set(ls)) == 1:
                cls.add("eq%d" % min(ls[0], 2))
            elif max(ls) == 1:
                cls.add("mix01")
            elif min(ls) == 0:
                cls.add("with0")
            else:
                cls.add("varied")
        kinds = set()
        for v in b[:1]:
            for _, t in tensor_fields(v):
                kinds.add(t["k"])
        try:
            self.expected(case)
            dom = "in-domain"
        except OutOfDomain:
            dom = "outside"
        return (case["entry"], b[0]["k"] if b else "-", len(b), "+".join(sorted(cls)) or "-", "".join(sorted(kinds)) or "-", case.get("malformed", "none"), dom)

    def nontrivial(self, case):
        if case.get("malformed", "none") != "none":
            return True
        b = case["batch"]
        return len(b) >= 2 and any(True for _ in tensor_fields(b[0]))

    def gen_tensor_spec(self, rng):
        rank_tail = rng.choice([0, 0, 1, 1, 1, 2])
        tail = [rng.choice([1, 2, 2, 3, 0]) if rng.random() < 0.9 else 0 for _ in range(rank_tail)]
        return {"masked": rng.random() < 0.6, "dt": rng.choice([4, 4, 4, 5, 3, 2, 1, 0]), "mixdt": rng.random() < 0.1, "tail": tail,
                "lencls": rng.choice(["equal", "ones", "mix01", "zeros", "random", "random", "with0", "mix01"])}

    def gen_lengths(self, rng, cls, B):
        if cls == "equal":
            n = rng.randint(0, 6)
            return [n] * B
        if cls == "ones":
            return [1] * B
        if cls == "zeros":
            return [0] * B
        if cls == "mix01":
            ls = [rng.randint(0, 1) for _ in range(B)]
            if B >= 2:
                i, j = rng.sample(range(B), 2)
                ls[i], ls[j] = 0, 1
            return ls
        ls = [rng.randint(0, 6) for _ in range(B)]
        if cls == "with0":
            ls[rng.randrange(B)] = 0
        return ls

    def gen_tensor(self, rng, spec, n, dt=None):
        dt = spec["dt"] if dt is None else dt
        shape = [n] + list(spec["tail"])
        cnt = prod(shape)
        if dt == 0:
            data = [rng.randint(0, 1) for _ in range(cnt)]
        elif dt == 1:
            data = [rng.randint(0, 255) for _ in range(cnt)]
        else:
            data = [rng.randint(-50, 50) for _ in range(cnt)]
        v = {"k": "M" if spec["masked"] else "P", "dt": dt, "shape": shape, "data": data}
        if spec["masked"]:
            v["mask"] = [rng.randint(0, 1) for _ in range(cnt)]
        return v

    def gen_field(self, rng, B, depth, allow_dict=True):
        """-> list of B values (one per example) for one field"""
        r = rng.random()
        if r < 0.55:
            spec = self.gen_tensor_spec(rng)
            ls = self.gen_lengths(rng, spec["lencls"], B)
            out = []
            for n in ls:
                dt = rng.choice([0, 1, 2, 3, 4, 5]) if spec["mixdt"] else None
                out.append(self.gen_tensor(rng, spec, n, dt))
            return out
        if r < 0.70:
            py = rng.choice(["int", "int", "np.int32", "bool"])
            if py == "bool":
                return [{"k": "I", "v": rng.randint(0, 1), "py": "bool"} for _ in range(B)]
            return [{"k": "I", "v": rng.choice([0, 1, -1, rng.randint(-1000, 1000), 2 ** 31 - 1, -2 ** 31]), "py": py} for _ in range(B)]
        if r < 0.82:
            return [{"k": "S", "v": [rng.choice([97, 98, 122, 233, 8364, 0x1F600]) for _ in range(rng.randint(0, 3))]} for _ in range(B)]
        if allow_dict and depth < 3:
            return self.gen_dicts(rng, B, depth + 1)
        return [{"k": "I", "v": i, "py": "int"} for i in range(B)]

    def gen_dicts(self, rng, B, depth):
        nk = rng.randint(0 if depth > 0 else 1, 3)
        keys = rng.sample([[97], [98], [100, 97, 116, 97], [109], [233, 120]], nk)
        cols = [self.gen_field(rng, B, depth) for _ in keys]
        out = [{"k": "D", "items": [[list(k), cols[j][i]] for j, k in enumerate(keys)]} for i in range(B)]
        if B > 1 and nk > 1 and rng.random() < 0.35:
            # same keys, another insertion order in some later example: fields are gathered by KEY
            for ex in out[1:]:
                if rng.random() < 0.6:
                    rng.shuffle(ex["items"])
        return out

    def gen_views(self, rng):
        """two masked examples of equal length that are different strided VIEWS of one recording, starting at the same address
        (rec[:L] and rec[::2]): they hold different values and must be collated as the two examples they are"""
        L = rng.randint(2, 4)
        tail = [rng.choice([1, 2, 3])] if rng.random() < 0.7 else []
        w = prod(tail) if tail else 1
        dt = rng.choice([4, 5, 3])
        rows = [[rng.randint(-50, 50) for _ in range(w)] for _ in range(2 * L)]
        mrows = [[rng.randint(0, 1) for _ in range(w)] for _ in range(2 * L)]
        def ex(idx):
            return {"k": "M", "dt": dt, "shape": [L] + tail, "data": [x for i in idx for x in rows[i]], "mask": [x for i in idx for x in mrows[i]]}
        exs = [ex(range(L)), ex(range(0, 2 * L, 2))]
        batch = [{"k": "D", "items": [[[97], e]]} for e in exs] if rng.random() < 0.6 else exs
        return {"entry": "zpc", "pad": 0, "batch": batch, "malformed": "none", "views": True}

    def gen_structured(self, rng):
        if rng.random() < 0.03:
            return self.gen_views(rng)
        B = rng.choice([1, 2, 2, 3, 3, 4, 5])
        r = rng.random()
        pad = 0
        if r < 0.72:
            entry = "zpc"
            t = rng.random()
            if t < 0.65:
                batch = self.gen_dicts(rng, B, 0)
            elif t < 0.85:
                n = rng.randint(0, 3)
                cols = [self.gen_field(rng, B, 0) for _ in range(n)]
                batch = [{"k": "T", "items": [cols[j][i] for j in range(n)]} for i in range(B)]
            elif t < 0.95:
                spec = self.gen_tensor_spec(rng)
                spec["masked"] = True
                batch = [self.gen_tensor(rng, spec, n) for n in self.gen_lengths(rng, spec["lencls"], B)]
            else:
                batch = [{"k": "S", "v": [rng.choice([97, 98, 8364]) for _ in range(rng.randint(0, 3))]} for _ in range(B)]
        else:
            entry = "ct" if r < 0.88 else "pt"
            pad = rng.choice([0, 0, 1, 7, -1, 100, 255, -255])
            if entry == "pt" or rng.random() < 0.8:
                spec = self.gen_tensor_spec(rng)
                batch = []
                for n in self.gen_lengths(rng, spec["lencls"], B):
                    batch.append(self.gen_tensor(rng, spec, n, rng.choice([0, 1, 2, 3, 4, 5]) if spec["mixdt"] else None))
            else:
                batch = self.gen_field(rng, B, 0)
        return {"entry": entry, "pad": pad, "batch": batch, "malformed": "none"}

    def first_tensor_column(self, case):
        """examples' tensor values of the first tensor field, as mutable dict references (same path in every example)"""
        b = case["batch"]
        if not b:
            return None
        paths = [p for p, _ in tensor_fields(b[0])]
        if not paths:
            return None
        path = paths[0]
        col = []
        for ex in b:
            cur = ex
            try:
                for p in path:
                    if cur["k"] == "D":
                        cur = [x for k, x in cur["items"] if tuple(k) == p][0]
                    else:
                        cur = cur["items"][p]
            except (IndexError, KeyError, TypeError):
                return None
            if cur["k"] not in "MP":
                return None
            col.append(cur)
        return col

    def gen_malformed(self, rng):
        case = self.gen_structured(rng)
        b = case["batch"]
        kind = rng.choice(["mixed_kind", "mixed_kind", "tail", "rank", "missing_key", "extra_key", "short_tuple", "long_tuple", "int_str",
                           "bigint", "scalar", "empty", "top_plain", "top_int", "other", "other", "tuple_in_dict", "pad_overflow", "hetero_top"])
        col = self.first_tensor_column(case)
        ok = False
        if kind == "mixed_kind" and col and len(col) >= 2:
            idx = rng.sample(range(len(col)), rng.randint(1, len(col) - 1))
            for i in idx:
                v = col[i]
                if v["k"] == "M":
                    v["k"] = "P"
                    v.pop("mask")
                else:
                    v["k"] = "M"
                    v["mask"] = [rng.randint(0, 1) for _ in v["data"]]
            ok = True
        elif kind == "tail" and col and len(col) >= 2:
            v = rng.choice(col[1:] if rng.random() < 0.7 else col)
            v["shape"] = list(v["shape"]) + [2] if len(v["shape"]) < 2 else v["shape"][:-1] + [v["shape"][-1] + 1]
            n = prod(v["shape"])
            v["data"] = [rng.randint(0, 1) for _ in range(n)]
            if v["k"] == "M":
                v["mask"] = [rng.randint(0, 1) for _ in range(n)]
            ok = True
        elif kind == "rank" and col and len(col) >= 2:
            v = rng.choice(col)
            v["shape"] = [v["shape"][0], 1] + list(v["shape"][1:])
            ok = True
        elif kind == "scalar" and col:
            v = rng.choice(col)
            v["shape"], v["data"] = [], [rng.randint(0, 1)]
            if v["k"] == "M":
                v["mask"] = [1]
            ok = True
        elif kind in ("missing_key", "extra_key") and b and b[0]["k"] == "D" and len(b) >= 2 and b[0]["items"]:
            i = rng.randrange(1, len(b))
            if kind == "missing_key":
                b[i]["items"].pop(rng.randrange(len(b[i]["items"])))
            else:
                b[i]["items"].append([[120, 120], {"k": "I", "v": 3, "py": "int"}])
            ok = True
        elif kind in ("short_tuple", "long_tuple") and b and b[0]["k"] == "T" and len(b) >= 2 and b[0]["items"]:
            i = rng.randrange(1, len(b))
            if kind == "short_tuple":
                b[i]["items"].pop()
            else:
                b[i]["items"].append({"k": "I", "v": 3, "py": "int"})
            ok = True
        if not ok:
            B = rng.randint(1, 4)
            if kind == "int_str":
                vals = [{"k": "I", "v": 1, "py": "int"}] + [({"k": "S", "v": [97]} if rng.random() < 0.5 else {"k": "I", "v": 2, "py": "int"})
                                                            for _ in range(B - 1)] + [{"k": "S", "v": [97]}]
                if rng.random() < 0.3:
                    vals.reverse()
                case = {"entry": "ct", "pad": 0, "batch": vals}
            elif kind == "bigint":
                vals = [{"k": "I", "v": rng.choice([2 ** 63, -2 ** 63 - 1, 2 ** 63 - 1, -2 ** 63, 2 ** 70]), "py": "int"} for _ in range(B)]
                case = {"entry": "zpc", "pad": 0, "batch": [{"k": "D", "items": [[[97], v]]} for v in vals]}
            elif kind == "empty":
                case = {"entry": rng.choice(["zpc", "ct", "pt"]), "pad": 0, "batch": []}
            elif kind == "top_plain":
                spec = self.gen_tensor_spec(rng)
                spec["masked"] = False
                case = {"entry": "zpc", "pad": 0, "batch": [self.gen_tensor(rng, spec, rng.randint(0, 3)) for _ in range(B)]}
            elif kind == "top_int":
                case = {"entry": "zpc", "pad": 0, "batch": [{"k": "I", "v": i, "py": "int"} for i in range(B)]}
            elif kind == "tuple_in_dict":
                case = {"entry": "zpc", "pad": 0, "batch": [{"k": "D", "items": [[[97], {"k": "T", "items": [{"k": "I", "v": i, "py": "int"}]}]]} for i in range(B)]}
            elif kind == "pad_overflow":
                spec = self.gen_tensor_spec(rng)
                spec["dt"], spec["mixdt"] = rng.choice([1, 2]), False
                pad = rng.choice([256, 300, 2 ** 31, 2 ** 40]) if spec["dt"] == 1 else rng.choice([2 ** 31, 2 ** 40, -2 ** 31 - 1])
                case = {"entry": rng.choice(["ct", "pt"]), "pad": pad,
                        "batch": [self.gen_tensor(rng, spec, n) for n in self.gen_lengths(rng, rng.choice(["random", "equal", "mix01"]), max(B, 2))]}
            elif kind == "hetero_top":
                a = self.gen_dicts(rng, 1, 2)[0]
                t = {"k": "T", "items": [{"k": "I", "v": 1, "py": "int"}]}
                i = {"k": "I", "v": 1, "py": "int"}
                case = {"entry": "zpc", "pad": 0, "batch": rng.choice([[a, t], [t, a], [a, i], [t, i], [a, {"k": "O", "what": "none", "v": 0}]])}
            else:
                kind = "other"
                what = rng.choice(["float", "none", "np.int64", "list"])
                vals = [{"k": "O", "what": what, "v": 0 if what == "none" else rng.randint(-5, 5)} for _ in range(B)]
                if rng.random() < 0.5:
                    case = {"entry": "zpc", "pad": 0, "batch": [{"k": "D", "items": [[[97], v], [[98], {"k": "I", "v": 1, "py": "int"}]]} for v in vals]}
                else:
                    case = {"entry": "ct", "pad": 0, "batch": vals}
        case["malformed"] = kind
        return case

    def enum_lengths(self, tier):
        maxB = 3 if tier == "quick" else 4
        for B in range(1, maxB + 1):
            for ls in itertools.product([0, 1, 2], repeat=B):
                for masked in (True, False):
                    for tail in ([], [2]):
                        batch = []
                        c = 1
                        for n in ls:
                            cnt = n * prod(tail)
                            v = {"k": "M" if masked else "P", "dt": 4, "shape": [n] + tail, "data": list(range(c, c + cnt))}
                            if masked:
                                v["mask"] = [(x % 3 != 0) * 1 for x in range(c, c + cnt)]
                            c += cnt
                            batch.append(v)
                        yield {"entry": "zpc", "pad": 0, "malformed": "none",
                               "batch": [{"k": "D", "items": [[[100], x]]} for x in batch]}

    def gen_cases(self, rng, tier):
        yield from self.enum_lengths(tier)
        n = 4000 if tier == "quick" else 120000
        for _ in range(n):
            if rng.random() < 0.2:
                yield self.gen_malformed(rng)
            else:
                yield self.gen_structured(rng)


PROP = C20
