"""C15 - spatial transforms obey their algebra and extents are tight (NumPy body: flip, matmul, augment2d, focus, bbox)."""
import math
import struct
import warnings
from fractions import Fraction

import numpy as np
import numpy.ma as ma

import common
import translate_c15

warnings.simplefilter("ignore")

NANW = 0x7FF8000000000000
EPS32 = 2.0 ** -20      # tolerance unit when binary32 arithmetic / the float32 cast is involved
EPS64 = 2.0 ** -46      # tolerance unit for pure binary64 dot products


# ------------------------------------------------------------------------------------------------
# words <-> floats
def w64(x):
    x = float(x)
    if x != x:
        return NANW
    if x == 0.0:
        return 0            # the sign of a zero is not compared (min/max ties, dot products)
    return struct.unpack("<Q", struct.pack("<d", x))[0]


def f64(w):
    return struct.unpack("<d", struct.pack("<Q", w))[0]


def words(a):
    return [w64(x) for x in np.asarray(a, dtype=np.float64).reshape(-1)]


def floats(ws):
    return np.array([f64(w) for w in ws], dtype=np.float64)


NPD = {"f32": np.float32, "f64": np.float64}


# ------------------------------------------------------------------------------------------------
# building the pose of a case, dumping a body
def build_pose(case):
    from pose_format import Pose
    from pose_format.numpy import NumPyPoseBody
    from pose_format.pose_header import PoseHeader, PoseHeaderComponent, PoseHeaderDimensions
    F, P, N, D = case["shape"]
    dt = NPD[case["dtype"]]
    data = floats(case["data"]).astype(dt).reshape(F, P, N, D)
    conf = floats(case["conf"]).astype(np.float32).reshape(F, P, N)
    # memory layout of the arrays handed over (a function of the case only): C order, Fortran order, strided views
    lay = (len(case["data"]) + sum(case["comps"]) + F) % 4
    data = common.vary_layout(data, lay)
    conf = common.vary_layout(conf, lay + 1)
    if case.get("mask") is not None:
        data = ma.masked_array(data, mask=common.vary_layout(np.array(case["mask"], dtype=bool).reshape(F, P, N, D), lay + 2))
    fmt = "XYZWVU"[:D] + "C"
    comps = [PoseHeaderComponent("c%d" % i, ["p%d_%d" % (i, j) for j in range(n)], [(0, 0)] if n else [], [(1, 2, 3)] if n else [], fmt)
             for i, n in enumerate(case["comps"])]
    # "bbox_header": the input is itself a pose of boxes (two points per component, header flagged is_bbox) whose corner
    # points are in no particular order - what bbox() returns after a flip / rotation; its boxes must be recomputed too
    header = PoseHeader(0.2, PoseHeaderDimensions(7, 8, 9), comps, is_bbox=bool(case.get("bbox_header")))
    return Pose(header, NumPyPoseBody(30.0, data, conf))


def dump_body(body):
    data = body.data
    return {"shape": [int(x) for x in data.shape], "dtype": str(data.dtype),
            "vals": words(np.asarray(ma.getdata(data))), "mask": [int(x) for x in np.asarray(ma.getmaskarray(data)).reshape(-1)],
            "conf": words(body.confidence), "conf_shape": [int(x) for x in np.asarray(body.confidence).shape]}


def dump_header(h):
    return {"dims": [h.dimensions.width, h.dimensions.height, h.dimensions.depth],
            "comps": [{"name": c.name, "format": c.format, "points": list(c.points), "limbs": [[int(a), int(b)] for a, b in c.limbs],
                       "colors": [[int(x) for x in k] for k in c.colors]} for c in h.components],
            "is_bbox": bool(getattr(h, "is_bbox", False))}


def matrix_of(case):
    R, K = case["matrix"]["shape"]
    return floats(case["matrix"]["vals"]).astype(NPD[case["matrix"]["dtype"]]).reshape(R, K)


class NormalSpy:
    """reads the normal draws of augment2d back (DESIGN section 4: randomness is an explicit argument of the model)"""

    def __init__(self, seed):
        self.seed = seed
        self.draws = []

    def __enter__(self):
        self.orig = np.random.normal
        np.random.seed(self.seed)

        def spy(loc=0.0, scale=1.0, size=None):
            r = self.orig(loc=loc, scale=scale, size=size)
            self.draws.append(float(np.asarray(r).reshape(-1)[0]))
            return r
        np.random.normal = spy
        return self

    def __exit__(self, *a):
        np.random.normal = self.orig


def run_op(case, pose=None):
    """drive the public API; -> (status, payload)"""
    pose = pose or build_pose(case)
    op = case["op"]
    extra = {}
    if (len(case["data"]) + case["shape"][0]) % 3 == 1:
        # caller-side variety: the pose operated on is a deep copy of a pose that was used before (a discarded flip), and the
        # original was overwritten afterwards - the operation must act on the object it is called on
        import copy as _copy
        try:
            pose.flip(0)
        except Exception:
            pass
        used, pose = pose, _copy.deepcopy(pose)
        try:
            used.body.data[...] = 777.0
            used.body.confidence[...] = 0.25
        except Exception:
            pass
    try:
        if op == "flip":
            out = pose.flip(case["axis"])
            body, header = out.body, out.header
        elif op == "matmul":
            body, header = pose.body.matmul(matrix_of(case)), pose.header
        elif op == "augment2d":
            rot, shear, scale = [f64(w) for w in case["stds"]]
            spy = NormalSpy(case["seed"])
            extra["draws"] = spy.draws
            with spy:
                out = pose.augment2d(rotation_std=rot, shear_std=shear, scale_std=scale)
            body, header = out.body, out.header
        elif op == "focus":
            r = pose.focus()
            extra["returned"] = repr(r)
            body, header = pose.body, pose.header
        elif op == "bbox":
            out = pose.bbox()
            body, header = out.body, out.header
        else:
            raise AssertionError(op)
    except Exception as e:  # every rejection is one class (DESIGN section 4)
        return ["err", type(e).__name__, extra]
    return ["ok", dump_body(body), dump_header(header), extra]


def draws_of(case, recorded):
    """assign the recorded draws to (shear, rotation, scale) in the order of the source (tied by augment2d_steps_tie)"""
    rot, shear, scale = [f64(w) for w in case["stds"]]
    it = iter(recorded)
    g_shear = next(it) if shear > 0 else 0.0
    angle = next(it) if rot > 0 else 0.0
    g_scale = next(it) if scale > 0 else 0.0
    return g_shear, angle, g_scale


# ------------------------------------------------------------------------------------------------
# generator
VALS = [0.0, 1.0, -1.0, 0.5, 2.0, 3.0, -2.5, 10.0, 100.25, -7.75, 640.0, 0.1, 1e-3, 12345.678, -0.0, 1e6, 3.14159]


def gen_value(rng, dt, style):
    r = rng.random()
    if style == "ints":
        x = float(rng.randrange(-5, 6))
    elif style == "nonneg0":
        x = float(rng.randrange(0, 4))
    elif r < 0.25:
        x = rng.choice(VALS)
    elif r < 0.85:
        x = rng.uniform(-100, 100)
    elif r < 0.95:
        x = rng.uniform(-1, 1) * 10 ** rng.randrange(-6, 7)
    else:
        x = float(rng.randrange(-3, 4))
    return float(np.float32(x)) if dt == "f32" else x


def gen_case(rng, op=None):
    op = op or rng.choice(["flip", "matmul", "matmul", "augment2d", "augment2d", "focus", "focus", "bbox", "bbox", "bbox"])
    D = rng.choice([1, 2, 2, 2, 3, 3, 3, 4])
    F = rng.choice([0, 1, 1, 2, 2, 3])
    P = rng.choice([0, 1, 1, 1, 2])
    if op in ("focus", "augment2d") and rng.random() < 0.8:
        D = rng.choice([2, 2, 3, 3, 3, 4])
    if op == "focus" and rng.random() < 0.8:
        F, P = max(F, 1), max(P, 1)
    ncomp = rng.choice([1, 2, 2, 3, 4])
    comps = [rng.choice([0, 1, 1, 2, 2, 3, 4]) if rng.random() < 0.25 else rng.randrange(1, 5) for _ in range(ncomp)]
    bbox_header = (op == "bbox" and rng.random() < 0.25)
    if bbox_header:
        comps = [2] * ncomp
    N = sum(comps)
    dt = rng.choice(["f32", "f32", "f64"])
    style = rng.choice(["any", "any", "any", "ints", "nonneg0"])
    data = [gen_value(rng, dt, style) for _ in range(F * P * N * D)]
    # missing pattern: per point, with whole components missing in some / all (frame, person) cells
    pat = rng.choice(["none", "random", "random", "comp_cell", "comp_all", "all", "one_left"])
    if op == "focus" and pat == "all" and rng.random() < 0.7:
        pat = "random"
    conf = []
    dead_comp = rng.randrange(ncomp)
    for f in range(F):
        for p in range(P):
            cell_dead = rng.random() < 0.5
            for ci, n in enumerate(comps):
                for _ in range(n):
                    if pat == "none":
                        c = 1.0
                    elif pat == "random":
                        c = 0.0 if rng.random() < 0.4 else rng.choice([1.0, 0.5, 0.25])
                    elif pat == "comp_cell":
                        c = 0.0 if (ci == dead_comp and cell_dead) or rng.random() < 0.15 else 1.0
                    elif pat == "comp_all":
                        c = 0.0 if ci == dead_comp or rng.random() < 0.1 else 1.0
                    elif pat == "all":
                        c = 0.0
                    else:
                        c = 0.0
                    conf.append(c)
    if pat == "one_left" and conf:
        conf[rng.randrange(len(conf))] = 1.0
    if rng.random() < 0.05 and conf:
        conf[rng.randrange(len(conf))] = -0.0
    case = {"op": op, "dtype": dt, "shape": [F, P, N, D], "comps": comps, "data": words(data), "conf": words(conf),
            "mask": None, "pat": pat, "kind": "plain"}
    if bbox_header:
        case["bbox_header"] = True
    # negative zero / NaN confidences are distinguished by the words
    case["conf"] = [struct.unpack("<Q", struct.pack("<d", c))[0] for c in conf]
    if rng.random() < 0.08 and F * P * N * D > 0:
        # a body built from a MaskedArray whose mask is per element (not reachable from files)
        case["mask"] = [int(rng.random() < 0.3) for _ in range(F * P * N * D)]
        case["kind"] = "elementmask"
    if op == "flip":
        case["axis"] = rng.randrange(-D - 1, D + 1) if rng.random() < 0.3 else rng.randrange(0, D)
    elif op == "matmul":
        mk = rng.choice(["identity", "signperm", "random", "random", "random32", "nonsquare", "badrows", "zero"])
        R, K = D, D
        mdt = "f64"
        if mk == "identity":
            M = np.eye(D)
            mdt = rng.choice(["f64", "f32"])
        elif mk == "signperm":
            perm = list(range(D))
            rng.shuffle(perm)
            M = np.zeros((D, D))
            for i, j in enumerate(perm):
                M[i, j] = rng.choice([1.0, -1.0])
        elif mk == "zero":
            M = np.zeros((D, D))
        elif mk in ("random", "random32"):
            M = np.array([[rng.uniform(-2, 2) if rng.random() < 0.8 else float(rng.randrange(-2, 3)) for _ in range(D)] for _ in range(D)]).reshape(D, D)
            mdt = "f32" if mk == "random32" else "f64"
        elif mk == "nonsquare":
            K = rng.choice([k for k in (1, 2, 3, 4) if k != D])
            M = np.array([[rng.uniform(-2, 2) for _ in range(K)] for _ in range(D)]).reshape(D, K)
            mdt = rng.choice(["f64", "f32"])
        else:
            R = rng.choice([r for r in (1, 2, 3, 4, 5) if r != D])
            M = np.array([[rng.uniform(-2, 2) for _ in range(D)] for _ in range(R)]).reshape(R, D)
            K = D
        M = M.astype(NPD[mdt])
        case["matrix"] = {"shape": [R, K], "dtype": mdt, "vals": words(M), "kind": mk}
        # second body (same missing pattern) and scalars for the linearity clause
        case["data2"] = words([gen_value(rng, dt, style) for _ in range(F * P * N * D)])
        case["ab"] = words([rng.choice([1.0, -1.0, 2.0, 0.5, 0.0, 3.0]), rng.choice([1.0, -2.0, 0.25, 0.0])])
    elif op == "augment2d":
        zs = rng.random() < 0.2
        stds = [0.0, 0.0, 0.0] if zs else [rng.choice([0.0, 0.2, 0.2, 0.5, -0.1, 1e-3, 1.0]) for _ in range(3)]
        case["stds"] = [struct.unpack("<Q", struct.pack("<d", s))[0] for s in stds]
        case["seed"] = rng.randrange(0, 2 ** 31)
    elif op == "bbox":
        if rng.random() < 0.04:
            case["comps"] = comps + [rng.randrange(1, 3)]       # header names more points than the body has
            case["kind"] = "header_mismatch"
        elif rng.random() < 0.04 and comps[-1] > 0:
            case["comps"] = comps[:-1] + [comps[-1] - 1]        # header names fewer points: the rest is ignored
            case["kind"] = "header_short"
    return case


# ------------------------------------------------------------------------------------------------
def body_tree(case, data_words=None):
    F, P, N, D = case["shape"]
    mask = case["mask"] if case.get("mask") is not None else [0] * (F * P * N * D)
    return [[F, P, N, D], list(data_words if data_words is not None else case["data"]), list(mask), list(case["conf"])]


def body_of_tree(t):
    return {"shape": list(t[0]), "vals": [w64(f64(w)) for w in t[1]], "mask": list(t[2]), "conf": [w64(f64(w)) for w in t[3]]}


class C15(common.Prop):
    ID = "C15"
    RUNNER = "c15"
    RUNNER_FLOATS = True
    ALLOWED_AXIOMS = set(common.REALS_AXIOMS)
    MODEL_FILES = ["base/Num.v", "base/F32.v", "model/C15_Spatial.v", "model/C15_Run.v"]
    RULE = ("NumPy poses with D 1..4 (2-D and 3-D weighted), F 0..3, P 0..2, 1..4 components of 0..4 points, float32 / float64 data, "
            "missing patterns none / random / a whole component missing in some or all (frame, person) cells / everything / all but one, "
            "8% with a per-element mask; one of flip (axes incl. negative and out of range), matmul (identity, signed permutation, zero, "
            "random f64 / f32, non-square, wrong row count), augment2d (stds incl. 0 and negative, draws read back), focus, bbox "
            "(incl. header/body point-count mismatches). Compared exactly (binary64 words, sign of zero and data under the mask ignored): "
            "flip, focus, bbox, matmul by 0/+-1 matrices, augment2d with no positive std; within |err| <= 2^-20 (float32 involved) or "
            "2^-46 (binary64) times sum_k |x_k|(|m_kj| + max|m|) for general matrices. non-trivial = at least one observed point; "
            "distinct by content hash")
    TRUSTED = ["Coq 8.16.1 kernel; Reals axioms of the standard library only", "harness/translate_c15.py (fail-closed ast translator)",
               "extraction: ExtrOcamlBasic, ExtrOCamlFloats, ExtrOCamlInt63; runner/driver.ml",
               "harness/c15.py canonicalisers (sign of zero, NaN -> one word, errors -> one class) and tolerance constants"]
    ASSUMPTIONS = ["theorems are over exact reals: rounding (incl. the float32 cast of the augmentation matrix and ceil of a rounded extent), "
                   "overflow, NaN / infinite coordinates are not modelled",
                   "numpy.ma semantics of multiply / subtract / dot / min / max / stack / concatenate as transcribed in model/C15_Spatial.v "
                   "(sampled by the correspondence)",
                   "theorems about missing points are stated for bodies whose mask is per point (every body built from arrays or read from a file); "
                   "per-element masks are modelled and exercised by the correspondence only",
                   "PyTorch / TensorFlow bodies are not modelled here (they offer matmul only; backend agreement is C08)"]

    def translate(self):
        return translate_c15.c15_gen()

    def translate_outputs(self):
        return ["Gen_C15.v"]

    def setup(self):
        import pose_format  # noqa: F401  (fail early if the implementation cannot be imported)

    def gen_cases(self, rng, tier):
        n = 600 if tier == "quick" else 100000
        for _ in range(n):
            yield gen_case(rng)

    def features(self, case):
        F, P, N, D = case["shape"]
        sub = ""
        if case["op"] == "matmul":
            sub = case["matrix"]["kind"]
        elif case["op"] == "augment2d":
            sub = "".join("+" if f64(w) > 0 else "0" for w in case["stds"])
        elif case["op"] == "bbox":
            sub = "boxes-in" if case.get("bbox_header") else ""
        elif case["op"] == "flip":
            sub = "inrange" if -D <= case["axis"] < D else "out"
        return (case["op"], sub, D, case["dtype"], case.get("pat"), case.get("kind"), "empty" if F * P * N == 0 else "data",
                "emptycomp" if 0 in case["comps"] else "")

    def nontrivial(self, case):
        return any(f64(w) != 0 for w in case["conf"])

    # ---- implementation
    def run_impl(self, case):
        r = run_op(case)
        case["_impl"] = r
        return r

    # ---- model
    def model_request(self, case):
        op = case["op"]
        dt = 1 if case["dtype"] == "f32" else 0
        b = body_tree(case)
        if op == "flip":
            return [1, dt, b, case["axis"]]
        if op == "matmul":
            # binary32 arithmetic only when both operands are float32 (NumPy promotes otherwise)
            dtm = 1 if (case["dtype"] == "f32" and case["matrix"]["dtype"] == "f32") else 0
            R, K = case["matrix"]["shape"]
            return [2, dtm, b, R, K, list(case["matrix"]["vals"])]
        if op == "augment2d":
            imp = case.get("_impl")
            rec = imp[-1].get("draws", []) if imp else []
            g_shear, angle, g_scale = draws_of(case, rec)
            # the matrix is composed in binary64 and cast to float32; the product is binary32 only for float32 data
            return [3, dt, b, list(case["stds"]), words([g_shear, np.cos(angle), np.sin(angle), g_scale])]
        if op == "focus":
            return [4, dt, b]
        if op == "bbox":
            return [5, dt, b, list(case["comps"])]
        return None

    def model_output(self, case, reply):
        if reply[0] != 1:
            return ["err", reply[1]]
        if case["op"] == "focus":
            return ["ok", body_of_tree(reply[1][0]), {"dims": list(reply[1][1])}]
        return ["ok", body_of_tree(reply[1])]

    def run_model(self, case, runner):
        out = self.model_output(case, runner.ask(self.model_request(case)))
        if case["op"] == "bbox" and out[0] == "ok":
            hdr = runner.ask([6, [[[ord(c) for c in "c%d" % i], [ord(c) for c in "XYZWVU"[:case["shape"][3]] + "C"]] for i, _ in enumerate(case["comps"])]])
            out.append({"comps": [{"name": "".join(map(chr, c[0])), "format": "".join(map(chr, c[1])), "points": ["".join(map(chr, p)) for p in c[2]],
                                   "limbs": [list(l) for l in c[3]], "colors": [list(k) for k in c[4]]} for c in hdr[1]]})
        return out

    # ---- comparison
    def exact(self, case):
        op = case["op"]
        if op in ("flip", "focus", "bbox"):
            return True
        if op == "matmul":
            return case["matrix"]["kind"] in ("identity", "signperm", "zero")
        return all(f64(w) <= 0 for w in case["stds"])

    def tolerances(self, case, K):
        """per output cell: bound on |implementation - model| for general matrices"""
        F, P, N, D = case["shape"]
        x = np.abs(floats(case["data"]).reshape(F * P * N, D))
        if case.get("mask") is not None:
            x = np.where(np.array(case["mask"], dtype=bool).reshape(F * P * N, D), 0.0, x)
        if case["op"] == "matmul":
            M = np.abs(matrix_of(case).astype(np.float64))
            eps = EPS32 if (case["dtype"] == "f32" and case["matrix"]["dtype"] == "f32") else EPS64
        else:
            g_shear, angle, g_scale = draws_of(case, case["_impl"][-1].get("draws", []))
            big = (1 + abs(g_shear)) * (1 + abs(g_scale)) * 2
            M = np.eye(D)
            M[0:2, 0:2] = big
            eps = EPS32
        slack = M.max() if M.size else 0.0
        return (x @ (M + slack)) * eps + 1e-300

    def compare(self, case, impl_out, model_out):
        if impl_out[0] != model_out[0]:
            return "implementation %s, model %s" % (impl_out[:2] if impl_out[0] == "err" else "ok", model_out[:2] if model_out[0] == "err" else "ok")
        if impl_out[0] == "err":
            return None
        a, b = impl_out[1], model_out[1]
        if a["shape"] != b["shape"] or a["conf_shape"] != a["shape"][:3]:
            return "shapes differ: %s (confidence %s) / %s" % (a["shape"], a["conf_shape"], b["shape"])
        if a["mask"] != b["mask"]:
            return "masks differ"
        if a["conf"] != b["conf"]:
            return "confidences differ"
        if self.exact(case):
            bad = [i for i, m in enumerate(a["mask"]) if not m and a["vals"][i] != b["vals"][i]]
            if bad:
                return "observed values differ (exact comparison) at flat index %d: %r / %r" % (bad[0], f64(a["vals"][bad[0]]), f64(b["vals"][bad[0]]))
        else:
            K = a["shape"][3]
            tol = self.tolerances(case, K).reshape(-1)
            va, vb = floats(a["vals"]), floats(b["vals"])
            for i, m in enumerate(a["mask"]):
                if not m and not (abs(va[i] - vb[i]) <= tol[i]):
                    return "observed values differ beyond the tolerance at flat index %d: %r / %r (tol %g)" % (i, va[i], vb[i], tol[i])
        if case["op"] == "focus" and impl_out[2]["dims"] != model_out[2]["dims"]:
            return "header dimensions differ: %s / %s" % (impl_out[2]["dims"], model_out[2]["dims"])
        if case["op"] == "bbox":
            if impl_out[2]["comps"] != model_out[2]["comps"]:
                return "bbox header components differ"
        return None

    # ---- direct oracle: the statement of C15 on the implementation alone (independent NumPy / Fraction reference)
    def should_raise(self, case):
        F, P, N, D = case["shape"]
        op = case["op"]
        if op == "flip":
            return not (-D <= case["axis"] < D)
        if op == "matmul":
            return case["matrix"]["shape"][0] != D
        if op == "augment2d":
            return D < 2
        obs = self.observed(case)
        if op == "focus":
            # PoseHeaderDimensions needs width and height; no extent without an observed value on an axis it measures
            return D < 2 or not all(obs[:, d].any() for d in range(min(D, 3)))
        if op == "bbox":
            return sum(case["comps"]) > N
        return False

    def observed(self, case):
        """bool (F*P*N, D): which coordinates the input pose observes"""
        F, P, N, D = case["shape"]
        c = floats(case["conf"]).reshape(F * P * N)
        o = np.repeat((c != 0)[:, None], D, axis=1) if D else np.zeros((F * P * N, 0), bool)
        if case.get("mask") is not None:
            o = o & ~np.array(case["mask"], dtype=bool).reshape(F * P * N, D)
        return o

    def oracle(self, case):
        imp = case.get("_impl") or run_op(case)
        op = case["op"]
        F, P, N, D = case["shape"]
        want_err = self.should_raise(case)
        if imp[0] == "err":
            if want_err:
                return None
            return {"what": "%s raises %s on a pose it should handle" % (op, imp[1]), "clause": "raises"}
        if want_err:
            return None    # accepting more than required is not a violation of C15
        out, hdr = imp[1], imp[2]
        obs = self.observed(case)
        x = floats(case["data"]).reshape(F * P * N, D)
        dt = NPD[case["dtype"]]
        uniform = case.get("mask") is None
        K = out["shape"][3]
        y = floats(out["vals"]).reshape(-1, K) if K else np.zeros((F * P * N, 0))
        omask = np.array(out["mask"], dtype=bool).reshape(-1, K) if K else np.zeros((F * P * N, 0), bool)

        def fail(clause, what, **kw):
            d = {"what": what, "clause": clause}
            d.update(kw)
            return d

        if op in ("flip", "matmul", "augment2d", "focus"):
            # none of them changes confidences or which points are missing
            if out["conf"] != words(floats(case["conf"]).astype(np.float32)) or out["conf_shape"] != [F, P, N]:
                return fail("confidence", "%s changed the confidences" % op)
            if out["shape"][:3] != [F, P, N]:
                return fail("shape", "%s changed the shape to %s" % (op, out["shape"]))
            pt_missing_in = ~obs.any(axis=1) if D else np.ones(F * P * N, bool)
            pt_missing_out = omask.all(axis=1) if K else np.ones(F * P * N, bool)
            if uniform and K and D and not np.array_equal(omask, np.repeat(pt_missing_in[:, None], K, axis=1)):
                return fail("missing", "%s changed which points are missing" % op)
            if not uniform and K and D and not np.array_equal(pt_missing_in, pt_missing_out):
                return fail("missing", "%s changed which points are wholly missing" % op)
        if op == "flip":
            ax = case["axis"] % D
            exp = x.copy()
            exp[:, ax] = -exp[:, ax]
            if not np.array_equal(np.where(obs, exp, 0), np.where(obs, y, 0)):
                return fail("negates-only-axis", "flip(%d) is not the negation of that coordinate alone" % case["axis"])
            twice = run_op(case, build_pose(case).flip(case["axis"]))
            if twice[0] != "ok":
                return fail("involutive", "flip applied twice raises")
            y2 = floats(twice[1]["vals"]).reshape(-1, D)
            if twice[1]["mask"] != out["mask"] or not np.array_equal(np.where(obs, y2, 0), np.where(obs, x, 0)) or twice[1]["conf"] != out["conf"]:
                return fail("involutive", "flip applied twice is not the identity")
        elif op in ("matmul", "augment2d"):
            xf = np.where(obs, x, 0.0)
            if op == "matmul":
                M = matrix_of(case).astype(np.float64)
                eps = EPS32 if (case["dtype"] == "f32" and case["matrix"]["dtype"] == "f32") else EPS64
                ptobs = obs.any(axis=1)
            else:
                rot, shear, scale = [f64(w) for w in case["stds"]]
                g_shear, angle, g_scale = draws_of(case, imp[-1].get("draws", []))
                n_expected = sum(1 for s in (rot, shear, scale) if s > 0)
                if len(imp[-1].get("draws", [])) != n_expected:
                    return fail("draws", "augment2d made %d normal draws, %d expected" % (len(imp[-1].get("draws", [])), n_expected))
                # closed form of shear . rotation . scale (absent factors are the identity)
                c, s = (math.cos(angle), math.sin(angle)) if rot > 0 else (1.0, 0.0)
                g = g_shear if shear > 0 else 0.0
                k = 1.0 + (g_scale if scale > 0 else 0.0)
                A = np.array([[c + g * s, (-s + g * c) * k], [s, c * k]])
                M = np.eye(D)
                M[0:2, 0:2] = A
                eps = EPS32
                ptobs = obs.any(axis=1)
            ref = xf @ M
            tol = (np.abs(xf) @ (np.abs(M) + (np.abs(M).max() if M.size else 0))) * eps + 1e-300
            sel = np.repeat(ptobs[:, None], K, axis=1) & ~omask
            if np.any(sel & ~(np.abs(y - ref) <= tol)):
                i = int(np.argmax(sel & ~(np.abs(y - ref) <= tol)))
                return fail("linear-map", "%s is not the product with the matrix (cell %d: %r, expected %r)" % (op, i, y.reshape(-1)[i], ref.reshape(-1)[i]))
            if op == "augment2d":
                # coordinates beyond the first two are untouched, exactly
                if D > 2 and not np.array_equal(np.where(sel[:, 2:], y[:, 2:], 0), np.where(sel[:, 2:], xf[:, 2:], 0)):
                    return fail("common-map", "augment2d changed a coordinate beyond the first two")
                if all(s <= 0 for s in (rot, shear, scale)) and not np.array_equal(np.where(sel, y, 0), np.where(sel, xf, 0)):
                    return fail("zero-std-identity", "augment2d with no positive deviation changed the pose")
            else:
                if case["matrix"]["kind"] == "identity" and not np.array_equal(np.where(sel, y, 0), np.where(sel, xf, 0)):
                    return fail("identity", "the identity matrix changed the pose")
                # linearity: (a X + b Y) M = a (X M) + b (Y M), X and Y with the same missing pattern
                a, b = [float(v) for v in floats(case["ab"])]
                x2 = floats(case["data2"]).reshape(F * P * N, D)
                comb = (a * x.astype(np.float64) + b * x2.astype(np.float64))
                c1 = dict(case, data=words(comb), dtype="f64")
                c2 = dict(case, data=case["data2"])
                r1, r2 = run_op(c1), run_op(c2)
                if r1[0] != "ok" or r2[0] != "ok":
                    return fail("linear", "matmul raises on a linear combination")
                lhs = floats(r1[1]["vals"]).reshape(-1, K)
                rhs = a * y + b * floats(r2[1]["vals"]).reshape(-1, K)
                xf2 = np.where(obs, x2, 0.0)
                tol2 = ((abs(a) * np.abs(xf) + abs(b) * np.abs(xf2)) @ (np.abs(M) + (np.abs(M).max() if M.size else 0))) * EPS32 * 4 + 1e-300
                if r1[1]["mask"] != out["mask"] or np.any(sel & ~(np.abs(lhs - rhs) <= tol2)):
                    return fail("linear", "matmul is not linear")
        elif op == "focus":
            if hdr["comps"] != dump_header(build_pose(case).header)["comps"]:
                return fail("header", "focus changed the header components")
            if D >= 1 and np.any(obs):
                ys = np.where(obs, y, np.inf)
                seen = obs.any(axis=0)      # (per-element masks only: an axis beyond the third may have no observed value)
                if np.any(ys.min(axis=0)[seen] != 0):
                    return fail("min-zero", "after focus the smallest observed coordinate is %s, not 0" % ys.min(axis=0).tolist())
                # a pure translation, the same for every point
                if np.any(obs):
                    diff = np.where(obs, x.astype(np.float64) - y, np.nan)
                    mins = np.array([Fraction(float(np.min(x[obs[:, d], d]))) if seen[d] else Fraction(0) for d in range(D)])
                    maxs = np.array([Fraction(float(np.max(x[obs[:, d], d]))) if seen[d] else Fraction(0) for d in range(D)])
                    for d in range(D):
                        if not seen[d]:
                            continue
                        col = diff[obs[:, d], d]
                        tol = 2.0 ** (-22 if case["dtype"] == "f32" else -50) * max(1.0, float(abs(mins[d])), float(abs(maxs[d])))
                        if np.any(np.abs(col - float(mins[d])) > tol):
                            return fail("translate", "focus did not translate axis %d by its smallest observed coordinate" % d)
                    exp_dims = []
                    for d in range(3):
                        if d < D:
                            e = maxs[d] - mins[d]
                            exp_dims.append({math.ceil(e), math.ceil(Fraction(float(dt(float(dt(float(maxs[d]))) - float(dt(float(mins[d])))))))})
                        else:
                            exp_dims.append({0})
                    if not all(hdr["dims"][d] in exp_dims[d] for d in range(3)):
                        return fail("dims", "header dimensions %s are not the observed extent rounded up %s" % (hdr["dims"], [sorted(s) for s in exp_dims]))
        elif op == "bbox":
            ns = case["comps"]
            C = len(ns)
            if out["shape"] != [F, P, 2 * C, D] or out["conf_shape"] != [F, P, 2 * C]:
                return fail("shape", "bbox body has shape %s, expected %s" % (out["shape"], [F, P, 2 * C, D]))
            names = [c["name"] for c in hdr["comps"]]
            if names != ["c%d" % i for i in range(C)] or any(len(c["points"]) != 2 for c in hdr["comps"]) or not hdr["is_bbox"] \
                    or any(c["format"] != "XYZWVU"[:D] + "C" for c in hdr["comps"]) or hdr["dims"] != [7, 8, 9]:
                return fail("header", "bbox header is not one two-point component per input component")
            for c in hdr["comps"]:
                if any(not (0 <= a < 2 and 0 <= b < 2) for a, b in c["limbs"]) or len(c["colors"]) != len(c["limbs"]):
                    return fail("header", "bbox header limbs / colours are inconsistent")
            xs = x.reshape(F, P, N, D)
            os_ = obs.reshape(F, P, N, D)
            yb = y.reshape(F, P, 2 * C, D)
            mb = omask.reshape(F, P, 2 * C, D)
            cb = floats(out["conf"]).reshape(F, P, 2 * C)
            for f in range(F):
                for p in range(P):
                    idx = 0
                    for ci, n in enumerate(ns):
                        sl = slice(idx, idx + n)
                        idx += n
                        for d in range(D):
                            vals = xs[f, p, sl, d][os_[f, p, sl, d]]
                            any_pt = os_[f, p, sl, :].any()
                            for which, red in ((0, np.min), (1, np.max)):
                                miss = bool(mb[f, p, 2 * ci + which, d])
                                if uniform:      # "missing" is a notion of points: only stated for per-point masks
                                    if miss != (not any_pt):
                                        return fail("missing-iff-none", "box of component %d (frame %d, person %d) is %s but the component has %s observed points"
                                                    % (ci, f, p, "missing" if miss else "present", "some" if any_pt else "no"), comp_points=n)
                                if not miss and vals.size == 0:
                                    return fail("tight", "box of component %d (frame %d, person %d, axis %d) is present but nothing is observed there" % (ci, f, p, d))
                                if not miss and float(red(vals)) != float(yb[f, p, 2 * ci + which, d]):
                                    return fail("tight", "box of component %d (frame %d, person %d, axis %d) is %r, the %s of the observed points is %r"
                                                % (ci, f, p, d, float(yb[f, p, 2 * ci + which, d]), red.__name__, float(red(vals))))
                        anyobs = os_[f, p, sl, :].any()
                        for which in (0, 1):
                            if uniform and (cb[f, p, 2 * ci + which] != 0) != bool(anyobs):
                                return fail("missing-iff-none", "confidence of a box does not say whether the component has observed points")
        return None

    def classify(self, case, failure):
        op = case["op"]
        D = case["shape"][3]
        clause = failure.get("clause", "unclassified")
        if op == "bbox" and clause == "raises":
            if 0 in case["comps"]:
                return "bbox-raises-component-without-points"
            if D != 2:
                return "bbox-raises-dims-not-2"
        return "%s-%s" % (op, clause)


PROP = C15
