"""C07 - a truncated file is never mistaken for a valid pose; trailing bytes are ignored."""
import numpy as np

import common
import posegen as pg
import translate_py
from c03 import C03


class C07(common.Prop):
    ID = "C07"
    RUNNER = "codec"
    MODEL_FILES = ["base/Prog.v", "model/Codec.v", "model/PoseRead.v"]
    RULE = ("files of the C01 space (<= 2 KB quick, <= 40 KB thorough); a case is (file, reader kind, memo primed or not, window) and is "
            "evaluated at EVERY proper-prefix length of the file (quick: every cut; for files over 1.5 KB a stride plus all field "
            "boundaries) plus random suffixes of extra bytes; non-trivial = at least one cut inside the header and one inside each body block; "
            "distinct by content hash " "A sample of the cuts of every case is also read into the PyTorch and TensorFlow bodies (unpack_torch / unpack_tensorflow): full reads must raise, windowed reads raise or equal the intact file's.")
    TRUSTED = ["Coq 8.16.1 kernel", "harness/translate_py.py", "extraction: ExtrOcamlBasic only; runner/driver.ml", "harness/posegen.py canonicalisers"]
    ASSUMPTIONS = ["struct.unpack_from / numpy ndarray-from-buffer raise exactly when offset+size exceeds the buffer (Block rule of base/Prog.v)",
                   "io.BytesIO read/seek as in base/Prog.v"]

    def translate(self):
        g = dict(translate_py.codec_gen())
        import translate_c08
        g.update(dict(translate_c08.gen()[0]))         # unpack_torch / unpack_tensorflow (tied in props/C07.v)
        return g

    def setup(self):
        self.c03 = C03()
        self.c03.setup()

    def gen_cases(self, rng, tier):
        nfiles = 10 if tier == "quick" else 60
        for i in range(nfiles):
            if i % 2 == 0:
                pose = pg.gen_pose_case(rng, edge=0.0, max_pts=4, max_frames=3)
            else:
                pose = self.c03.gen_file(rng, big=(tier == "thorough" and i % 4 == 1))
            w = pg.impl_write(pose)
            if w[0] != "ok":
                continue
            data = w[1]
            F = pose["shape"][0]
            n = len(data)
            if n <= 1500:
                cuts = list(range(0, n))
            else:
                step = max(1, n // 700)
                cuts = sorted(set(list(range(0, n, step)) + list(range(0, 200)) + list(range(n - 200, n))))
            variants = [("bytes", {}, False), ("bytes", {}, True), ("stream", {}, False)]
            if F >= 1:
                variants += [("stream", {"start_frame": rng.randrange(0, F), "end_frame": rng.randrange(0, F + 2)}, rng.random() < 0.5),
                             ("stream", {"end_frame": rng.randrange(0, F + 1)}, True),
                             ("stream", {"start_frame": max(0, F - 1)}, False)]
            for kind, args, prime in variants:
                a = {k: v for k, v in args.items()}
                if "start_frame" in a and "end_frame" in a and a["end_frame"] < a["start_frame"]:
                    a["end_frame"] = a["start_frame"]
                yield {"file": data, "cuts": cuts, "src": kind, "args": a, "prime": prime, "F": F,
                       "suffix": [rng.randrange(256) for _ in range(rng.choice([1, 3, 40]))]}
        for c in self.wide_cases(rng, tier):
            yield c
        for c in self.long_cases(rng, tier):
            yield c
        for c in self.empty_cases(rng, tier):
            yield c

    def empty_cases(self, rng, tier):
        """a complete file of a pose WITHOUT frames (people and points declared), followed by one or more frames' worth of bytes:
        the frame count is what the field says - 0 - whatever follows the file"""
        for i in range(1 if tier == "quick" else 4):
            D = rng.choice([1, 2, 3])
            T = rng.choice([1, 2, 3])
            P = rng.choice([1, 1, 2])
            comps = [{"name": pg.cps("c0"), "format": pg.cps("XYZ"[:D] + "C"), "points": [pg.cps("p%d" % k) for k in range(T)], "limbs": [], "colors": []}]
            pose = {"dims": [640, 480, 0], "comps": comps, "fps": pg.b64(25.0), "shape": [0, P, T, D], "cshape": [0, P, T], "dtype": "f32",
                    "edge": "none", "data": [], "conf": []}
            w = pg.impl_write(pose)
            if w[0] != "ok":
                continue
            data = w[1]
            fs = P * T * (D + 1) * 4
            for kind, args in (("bytes", {}), ("stream", {}), ("stream", {"end_frame": 3})):
                yield {"file": data, "cuts": list(range(0, len(data))), "src": kind, "args": dict(args), "prime": rng.random() < 0.5, "F": 0,
                       "suffix": [rng.randrange(256) for _ in range(fs * rng.choice([1, 2, 5]) + rng.choice([0, 0, 3]))]}

    def long_cases(self, rng, tier):
        """files whose frame count sits at the edge of 16 bits (the width of the v0.1 frame field; v0.2's has 32): 65535 frames
        and its neighbours, one person, one point - the count a reader takes from the field is the count it must insist on"""
        for i in range(1 if tier == "quick" else 3):
            F = [65535, 65536, 65534][i]          # quick: the all-ones 16-bit pattern itself
            D = rng.choice([1, 2])
            comps = [{"name": pg.cps("c0"), "format": pg.cps("XY"[:D] + "C"), "points": [pg.cps("p0")], "limbs": [], "colors": []}]
            pose = {"dims": [640, 480, 0], "comps": comps, "fps": pg.b64(25.0), "shape": [F, 1, 1, D], "cshape": [F, 1, 1], "dtype": "f32",
                    "edge": "none", "data": [pg.b64(float(k % 4000)) for k in range(F * D)],
                    "conf": [pg.b64(0.0 if (k % 7 == 3) else float(1 + k % 5)) for k in range(F)]}
            w = pg.impl_write(pose)
            if w[0] != "ok":
                continue
            data = w[1]
            size = len(data)
            ds = size - F * (D + 1) * 4
            cs = ds + F * D * 4
            cuts = sorted(set([ds, ds + 1, ds + 4 * D, cs - 1, cs, cs + 4, size - 4, size - 1] +
                              [rng.randrange(ds, cs) for _ in range(3)] + [rng.randrange(cs, size) for _ in range(3)]))
            lo, hi = rng.randrange(0, 9), F - rng.randrange(0, 3)
            for kind, args, prime in (("bytes", {}, False), ("stream", {"start_frame": lo, "end_frame": hi}, rng.random() < 0.5)):
                yield {"file": data, "cuts": cuts, "src": kind, "args": dict(args), "prime": prime, "F": F, "long": True,
                       "suffix": [rng.randrange(256) for _ in range((D + 1) * 4 * rng.choice([1, 2]))]}

    def wide_cases(self, rng, tier):
        """files whose frame window spans several KB of the confidence block (a reader that treats large tensor reads
        differently from small ones - direct reads, chunked reads - is only exercised by these); cuts concentrate on the
        boundaries and the inside of the window's data and confidence bytes"""
        for i in range(1 if tier == "quick" else 6):
            D = rng.choice([2, 2, 3])
            T = rng.choice([60, 90, 137])
            P = 1
            F = rng.choice([24, 32, 40]) if T == 60 else rng.choice([14, 18])
            comps = [{"name": pg.cps("c0"), "format": pg.cps("XYZW"[:D] + "C"), "points": [pg.cps("p%d" % k) for k in range(T)],
                      "limbs": [[0, 1]], "colors": [[1, 2, 3]]}]
            n = F * P * T * D
            pose = {"dims": [640, 480, 0], "comps": comps, "fps": pg.b64(25.0), "shape": [F, P, T, D], "cshape": [F, P, T], "dtype": "f32",
                    "edge": "none", "data": [pg.b64(float(k % 16000000)) for k in range(n)],
                    "conf": [pg.b64(0.0 if (k % 7 == 3) else float(1 + k % 5)) for k in range(F * P * T)]}
            w = pg.impl_write(pose)
            if w[0] != "ok":
                continue
            data = w[1]
            size = len(data)
            per_d, per_c = P * T * D * 4, P * T * 4
            ds = size - F * (per_d + per_c)
            cs = ds + F * per_d
            lo = rng.randrange(0, 4)
            hi = F - rng.randrange(0, 3)          # (hi - lo) * per_c >= 4096 by construction of F and T
            marks = [ds, cs, ds + lo * per_d, ds + hi * per_d, cs + lo * per_c, cs + hi * per_c, size]
            cuts = set(range(0, size, max(1, size // 120)))
            for m in marks:
                cuts.update(x for x in range(m - 6, m + 7) if 0 <= x < size)
            for (a, b) in ((ds + lo * per_d, ds + hi * per_d), (cs + lo * per_c, cs + hi * per_c)):
                cuts.update(rng.randrange(a, b) for _ in range(90))
            cuts = sorted(cuts)
            for kind, args, prime in (("stream", {"start_frame": lo, "end_frame": hi}, False),
                                      ("stream", {"start_frame": lo, "end_frame": hi}, True),
                                      ("stream", {"start_frame": lo}, rng.random() < 0.5)):
                yield {"file": data, "cuts": cuts, "src": kind, "args": dict(args), "prime": prime, "F": F, "wide": True,
                       "suffix": [rng.randrange(256) for _ in range(rng.choice([1, 3, 40]))]}

    def features(self, case):
        return (case["src"], "window" if case["args"] else "full", "primed" if case["prime"] else "empty",
                "wide-window" if case.get("wide") else "frames~2^16" if case.get("long") else "small" if len(case["file"]) <= 1500 else "large")

    def nontrivial(self, case):
        return len(case["cuts"]) > 20 or bool(case.get("long"))

    def _prime(self, case):
        pg.set_memo("same" if case["prime"] else "empty", same_bytes=case["file"])

    def run_impl(self, case):
        out = []
        kind = "bytes" if case["src"] == "bytes" else "stream"
        for c in case["cuts"]:
            self._prime(case)
            r, _ = pg.impl_read(case["file"][:c], kind, case["args"])
            out.append(r)
        self._prime(case)
        intact, _ = pg.impl_read(case["file"], kind, case["args"])
        self._prime(case)
        trailing, _ = pg.impl_read(case["file"] + case["suffix"], kind, case["args"])
        case["_impl"] = (out, intact, trailing)
        case["_impl_be"] = self._other_backends(case, kind)
        return {"cuts": [pg.strip_err(r) for r in out], "intact": pg.strip_err(intact), "trailing": pg.strip_err(trailing)}

    # the same prefixes read into the PyTorch and TensorFlow bodies (a sample of the cuts: header end, body start, inside the data
    # block, the data / confidence boundary, inside the confidence block, the last bytes): "every full read raises" holds for
    # every body class, and each has its own tensor reader (unpack_torch / unpack_tensorflow)
    def _backend_classes(self):
        if not hasattr(self, "_bes"):
            from pose_format.torch.pose_body import TorchPoseBody
            from pose_format.tensorflow.pose_body import TensorflowPoseBody
            self._bes = {"torch": TorchPoseBody, "tensorflow": TensorflowPoseBody}
        return self._bes

    @staticmethod
    def _tensor_dump(body):
        d = body.data
        vals = np.asarray(d.tensor)
        return [list(vals.shape), np.ascontiguousarray(vals).tobytes(), np.asarray(d.mask).tobytes(), np.asarray(body.confidence).tobytes(),
                float(body.fps)]

    def _other_backends(self, case, kind):
        import io
        from pose_format import Pose
        n = len(case["file"])
        cuts = case["cuts"]
        step = max(1, len(cuts) // 14)
        sample = sorted(set(cuts[::step] + cuts[-6:]))
        args = {k: v for k, v in case["args"].items() if v is not None}
        out = {}
        for be, cls in self._backend_classes().items():
            def read(b):
                self._prime(case)
                src = bytes(b) if kind == "bytes" else io.BytesIO(bytes(b))
                try:
                    return ["ok", self._tensor_dump(Pose.read(src, pose_body=cls, **args).body)]
                except Exception as e:
                    return ["err", type(e).__name__]
            intact = read(case["file"])
            out[be] = {"intact": intact[0], "cuts": [(c, r[0], r == intact) for c in sample for r in [read(case["file"][:c])]]}
        return out

    def run_model(self, case, runner):
        k = 0 if case["src"] == "bytes" else 1
        rep = runner.ask([6, case["file"], case["cuts"] + [len(case["file"])], k, pg.args_tree(case["args"]), 1 if case["prime"] else 0])
        res = [pg.result_of_tree(t, pg.pose_of_tree) for t in rep]
        rep2 = runner.ask([6, case["file"] + case["suffix"], [len(case["file"]) + len(case["suffix"])], k, pg.args_tree(case["args"]), 0])
        # priming for the trailing read is by the intact file in the implementation; the model primes with the extended file's
        # own full read, which stores the same header slice
        if case["prime"]:
            rep2 = runner.ask([5, [case["file"], case["file"] + case["suffix"]], [[0, 0, pg.args_tree(None)], [1, k, pg.args_tree(case["args"])]]])
            trailing = pg.result_of_tree(rep2[-1][0], pg.pose_of_tree)
        else:
            trailing = pg.result_of_tree(rep2[0], pg.pose_of_tree)
        return {"cuts": res[:-1], "intact": res[-1], "trailing": trailing}

    def compare(self, case, io, mo):
        for i, (a, b) in enumerate(zip(io["cuts"], mo["cuts"])):
            if a != b:
                return "prefix of length %d: implementation %s, model %s" % (case["cuts"][i], a[0], b[0])
        if io["intact"] != mo["intact"]:
            return "intact file read differs"
        if io["trailing"] != mo["trailing"]:
            return "read with trailing bytes differs"
        return None

    def oracle(self, case):
        out, intact, trailing = case["_impl"]
        full = not case["args"]
        for c, r in zip(case["cuts"], out):
            if full:
                if r[0] == "ok":
                    return {"what": "full read of the %d-byte prefix of a %d-byte file returned a pose (%s reader, memo %s)"
                            % (c, len(case["file"]), case["src"], "primed" if case["prime"] else "empty"), "kind": "prefix-accepted", "cut": c}
            else:
                if r[0] == "ok" and (intact[0] != "ok" or r[1] != intact[1]):
                    return {"what": "windowed stream read of the %d-byte prefix returned a pose different from the intact file's" % c,
                            "kind": "prefix-window-differs", "cut": c}
        for be, rec in (case.get("_impl_be") or {}).items():
            for c, st, same in rec["cuts"]:
                if st == "ok" and (full or not same):
                    return {"what": "%s read of the %d-byte prefix of a %d-byte file into the %s body returned a pose%s"
                                    % ("full" if full else "windowed stream", c, len(case["file"]), be, "" if full else " different from the intact file's"),
                            "kind": "prefix-accepted-" + be if full else "prefix-window-differs-" + be, "cut": c}
            if full and rec["intact"] != "ok":
                return {"what": "full read of the intact written file into the %s body raises" % be, "kind": "intact-raises-" + be}
        if intact[0] == "ok" and (trailing[0] != "ok" or trailing[1] != intact[1]):
            return {"what": "bytes appended after a complete file changed what is read", "kind": "trailing"}
        if full and intact[0] != "ok":
            return {"what": "full read of the intact written file raises %s" % intact[1], "kind": "intact-raises"}
        return None

    def classify(self, case, f):
        return "%s-%s-%s" % (f.get("kind", "other"), case["src"], "window" if case["args"] else "full")


PROP = C07
