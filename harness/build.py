"""Build support: _CoqProject / Makefile generation, incremental make, runner compilation.

Everything is rebuilt from files on disk; nothing is fetched.  Used by setup.sh and by every check."""
import fcntl
import os
import subprocess
import sys
import time

ROOT = os.path.dirname(os.path.dirname(os.path.abspath(__file__)))
COQ = os.path.join(ROOT, "coq")
RUNNER = os.path.join(ROOT, "runner")
JOBS = str(min(16, os.cpu_count() or 4))


class BuildError(Exception):
    def __init__(self, what, output):
        super().__init__(what)
        self.what = what
        self.output = output


class _Lock:
    """Serialise builds (several checks may run concurrently)."""

    def __enter__(self):
        self.f = open(os.path.join(ROOT, ".build.lock"), "w")
        fcntl.flock(self.f, fcntl.LOCK_EX)
        return self

    def __exit__(self, *a):
        fcntl.flock(self.f, fcntl.LOCK_UN)
        self.f.close()


def coq_files():
    out = []
    for d, _, fs in os.walk(COQ):
        for f in fs:
            if f.endswith(".v"):
                out.append(os.path.relpath(os.path.join(d, f), COQ))
    return sorted(out)


def write_if_changed(path, text):
    try:
        if open(path).read() == text:
            return False
    except FileNotFoundError:
        pass
    os.makedirs(os.path.dirname(path), exist_ok=True)
    with open(path, "w") as f:
        f.write(text)
    return True


def ensure_makefile():
    files = coq_files()
    text = "-R . Pose\n-arg -w -arg -notation-overridden,-deprecated-hint-without-locality,-extraction-default-directory\n" + "\n".join(files) + "\n"
    changed = write_if_changed(os.path.join(COQ, "_CoqProject"), text)
    if changed or not os.path.exists(os.path.join(COQ, "Makefile")):
        r = subprocess.run(["coq_makefile", "-f", "_CoqProject", "-o", "Makefile"], cwd=COQ,
                           capture_output=True, text=True)
        if r.returncode != 0:
            raise BuildError("coq_makefile", r.stdout + r.stderr)


def make(targets, timeout=900, keep_going=False):
    """make the given .vo targets (paths relative to coq/). Returns combined output."""
    with _Lock():
        ensure_makefile()
        cmd = ["timeout", str(timeout), "make", "-j", JOBS] + (["-k"] if keep_going else []) + list(targets)
        r = subprocess.run(cmd, cwd=COQ, capture_output=True, text=True)
        if r.returncode != 0:
            raise BuildError("make " + " ".join(targets), r.stdout + r.stderr)
        return r.stdout + r.stderr


def coqc_capture(vfile, timeout=600):
    """(Re)compile one file with coqc directly and return (ok, output) - used for props/*.v so that the
    Print Assumptions output of this very run is captured."""
    with _Lock():
        r = subprocess.run(["timeout", str(timeout), "coqc", "-R", ".", "Pose",
                            "-w", "-notation-overridden,-deprecated-hint-without-locality", vfile],
                           cwd=COQ, capture_output=True, text=True)
    return r.returncode == 0, r.stdout + r.stderr


def coqchk(vfile, timeout=1500):
    """Re-check the compiled theorem file and everything it depends on with Coq's independent checker.
    -> (status, axioms, tail) with status in ok | timeout | failed.  No build lock: it only reads .vo files."""
    vo = vfile[:-2] + ".vo"
    try:
        r = subprocess.run(["coqchk", "-silent", "-o", "-R", ".", "Pose", vo], cwd=COQ, capture_output=True, text=True, timeout=timeout)
    except subprocess.TimeoutExpired:
        return "timeout", [], "coqchk did not finish within %d s" % timeout
    out = r.stdout + r.stderr
    axioms = []
    if "* Axioms:" in out:
        sec = out.split("* Axioms:", 1)[1].split("* Constants/Inductives relying on type-in-type", 1)[0]
        axioms = [l.strip() for l in sec.splitlines() if l.strip() and l.strip() != "<none>"]
    flags = []
    for key in ("relying on type-in-type:", "relying on unsafe (co)fixpoints:", "whose positivity is assumed:"):
        if key in out:
            first = out.split(key, 1)[1].strip().splitlines()[0].strip() if out.split(key, 1)[1].strip() else ""
            if first and first != "<none>":
                flags.append(key + " " + first)
    status = "ok" if r.returncode == 0 and not flags else "failed"
    return status, axioms, (out[-1500:] if status != "ok" else "; ".join(flags))


def build_runner(name, floats=False, timeout=900):
    """Extract coq/extract/X_<name>.v and compile runner/build/<name>/runner. Returns its path."""
    bdir = os.path.join(RUNNER, "build", name)
    os.makedirs(bdir, exist_ok=True)
    vo = os.path.join(COQ, "extract", "X_%s.vo" % name)
    ml = os.path.join(bdir, "model.ml")
    if not os.path.exists(ml) and os.path.exists(vo):
        os.remove(vo)
    make(["extract/X_%s.vo" % name], timeout=timeout)
    exe = os.path.join(bdir, "runner")
    drv = os.path.join(RUNNER, "driver.ml")
    with _Lock():
        stale = (not os.path.exists(exe) or os.path.getmtime(exe) < os.path.getmtime(ml)
                 or os.path.getmtime(exe) < os.path.getmtime(drv))
        if stale:
            subprocess.run(["cp", drv, os.path.join(bdir, "driver.ml")], check=True)
            pk = ["-thread", "-package", "coq-core.kernel", "-linkpkg"] if floats else []
            cmd = ["ocamlfind", "ocamlopt", "-O3", "-rectypes", "-w", "-a"] + pk + \
                  ["model.mli", "model.ml", "driver.ml", "-o", "runner"]
            r = subprocess.run(cmd, cwd=bdir, capture_output=True, text=True)
            if r.returncode != 0:
                raise BuildError("ocaml " + name, r.stdout + r.stderr)
    return exe


if __name__ == "__main__":
    t0 = time.time()
    try:
        if sys.argv[1] == "all":
            ensure_makefile()
            # keep going: a file that no longer compiles (e.g. a tie lemma broken by an edit of /repo) must not stop
            # the other properties from building; the affected check reports it as a broken obligation
            try:
                print(make([f[:-2] + ".vo" for f in coq_files() if not f.startswith("extract/")], timeout=3000, keep_going=True)[-2000:])
            except BuildError as e:
                print("SOME FILES DID NOT BUILD (reported by the affected checks):")
                print("\n".join(l for l in e.output.splitlines() if l.startswith("File ") or "Error" in l)[-3000:])
            for f in coq_files():
                if f.startswith("extract/X_"):
                    nm = os.path.basename(f)[2:-2]
                    fl = "ExtrOCamlFloats" in open(os.path.join(COQ, f)).read()
                    try:
                        print("runner", nm, build_runner(nm, floats=fl))
                    except BuildError as e:
                        print("runner", nm, "FAILED:", e.what)
        elif sys.argv[1] == "make":
            print(make(sys.argv[2:])[-3000:])
        elif sys.argv[1] == "runner":
            print(build_runner(sys.argv[2], floats=len(sys.argv) > 3))
    except BuildError as e:
        print("BUILD FAILED:", e.what)
        print(e.output[-6000:])
        sys.exit(2)
    print("build ok in %.1fs" % (time.time() - t0))
