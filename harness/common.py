"""Shared machinery of every property check (DESIGN.md section 2).

A property module (harness/cNN.py) defines a subclass of `Prop`; `run_check` drives one run:
  1. regenerate coq/gen/*.v from /repo (translator, fail-closed)
  2. build the proof obligations (coq/props/<ID>.v, Print Assumptions captured) and the extracted model
  3. correspondence: corpus + generated cases through the implementation and the extracted model
  4. direct oracle (the property statement evaluated on the implementation alone) on every case
  5. classify failures against KNOWN_FINDINGS.txt, write evidence, print VIOLATION lines
"""
import hashlib
import json
import os
import random
import re
import subprocess
import sys
import time
import traceback

ROOT = os.path.dirname(os.path.dirname(os.path.abspath(__file__)))
sys.path.insert(0, os.path.join(ROOT, "harness"))
import build  # noqa: E402

REPO = os.environ.get("POSE_REPO", "/repo")
REPO_PY = os.path.join(REPO, "src", "python")
if REPO_PY not in sys.path:
    sys.path.insert(0, REPO_PY)

ALLOWED_AXIOMS_DISCRETE = set()
REALS_AXIOMS = {
    "ClassicalDedekindReals.sig_forall_dec",
    "ClassicalDedekindReals.sig_not_dec",
    "FunctionalExtensionality.functional_extensionality_dep",
}
# Primitive integers / floats are kernel primitives, not axioms of ours; Print Assumptions lists them.
PRIMITIVE_PREFIXES = ("Uint63.", "PrimFloat.", "PrimInt63.", "Sint63.", "PArray.", "Float64.", "FloatAxioms.", "FloatOps.",
                      "Int63", "float", "int")


# ----------------------------------------------------------------------------------------------
# trees <-> s-expressions
def tree_to_sexp(t, out=None):
    top = out is None
    if top:
        out = []
    if isinstance(t, bool):
        out.append("1" if t else "0")
    elif isinstance(t, int):
        out.append(("-%x" % -t) if t < 0 else ("%x" % t))
    else:
        out.append("(")
        first = True
        for x in t:
            if not first:
                out.append(" ")
            first = False
            tree_to_sexp(x, out)
        out.append(")")
    if top:
        return "".join(out)


_TOK = re.compile(r"\(|\)|[^\s()]+")


def sexp_to_tree(s):
    stack = [[]]
    for tok in _TOK.findall(s):
        if tok == "(":
            stack.append([])
        elif tok == ")":
            x = stack.pop()
            stack[-1].append(x)
        else:
            stack[-1].append(int(tok, 16))
    if len(stack) != 1 or len(stack[0]) != 1:
        raise ValueError("bad reply from model runner: %r" % s[:200])
    return stack[0][0]


class Runner:
    """Client of an extracted model binary (one request per line)."""

    def __init__(self, exe):
        self.exe = exe
        self.p = subprocess.Popen(["/bin/sh", "-c", "ulimit -s unlimited 2>/dev/null; exec '%s'" % exe],
                                  stdin=subprocess.PIPE, stdout=subprocess.PIPE, text=True, bufsize=1 << 20)

    def ask(self, tree):
        self.p.stdin.write(tree_to_sexp(tree) + "\n")
        self.p.stdin.flush()
        line = self.p.stdout.readline()
        if not line:
            raise RuntimeError("model runner died")
        line = line.strip()
        if line.startswith("!"):
            raise RuntimeError("model runner error: " + line)
        return sexp_to_tree(line)

    def close(self):
        try:
            self.p.stdin.close()
            self.p.wait(timeout=5)
        except Exception:
            self.p.kill()


# ----------------------------------------------------------------------------------------------
# known findings
def load_known_findings():
    """-> (open: {prop: [(key, text)]}, fixed: {prop: [text]})"""
    open_, fixed = {}, {}
    path = os.path.join(ROOT, "KNOWN_FINDINGS.txt")
    if not os.path.exists(path):
        return open_, fixed
    for line in open(path):
        line = line.strip()
        if not line or line.startswith("#"):
            continue
        m = re.match(r"finding:\s+property=(\S+)\s+key=(\S+)\s+(.*)$", line)
        if m:
            open_.setdefault(m.group(1), []).append((m.group(2), m.group(3)))
            continue
        m = re.match(r"fixed:\s+property=(\S+)\s+(.*)$", line)
        if m:
            fixed.setdefault(m.group(1), []).append(m.group(2))
    return open_, fixed


# ----------------------------------------------------------------------------------------------
class Prop:
    ID = "C00"
    RUNNER = None          # name of coq/extract/X_<name>.v, or None
    RUNNER_FLOATS = False
    PROPS = None           # coq file with the theorems, default props/<ID>.v
    ALLOWED_AXIOMS = set()  # besides kernel primitives
    LEVEL = "proof"
    RULE = ""
    TRUSTED = []
    ASSUMPTIONS = []
    MODEL_FILES = []       # coq files (relative to coq/) whose definitions are the model (for the evidence)

    # -- tie (a): translator.  Return {relative path under coq/gen: text}; raise TranslateError to fail closed.
    def translate(self):
        return {}

    # -- cases
    def corpus_cases(self):
        d = os.path.join(ROOT, "corpus", self.ID)
        out = []
        if os.path.isdir(d):
            for f in sorted(os.listdir(d)):
                if f.endswith(".json"):
                    c = json.load(open(os.path.join(d, f)))
                    c = c.get("case", c)
                    c["_corpus"] = f
                    out.append(c)
        return out

    def gen_cases(self, rng, tier):
        return []

    def features(self, case):
        return ()

    def nontrivial(self, case):
        return True

    # -- implementation / model / oracle
    def run_impl(self, case):
        raise NotImplementedError

    def model_request(self, case):
        return None

    def model_output(self, case, reply):
        return reply

    def run_model(self, case, runner):
        req = self.model_request(case)
        if req is None:
            return None
        return self.model_output(case, runner.ask(req))

    def compare(self, case, impl_out, model_out):
        """-> None if they agree, else a short description"""
        return None if impl_out == model_out else "implementation and model differ"

    def oracle(self, case):
        """Direct statement of the property on the implementation alone. -> None or failure dict."""
        return None

    def classify(self, case, failure):
        return "unclassified"

    def setup(self):
        pass

    def teardown(self):
        pass


class TranslateError(Exception):
    pass


def vary_layout(arr, k):
    """The same values in another memory layout (what slicing, selection or transposition leave behind): 0 as given,
    1 Fortran order, 2 a strided view (every second element of a doubled leading axis).  No library operation may depend on the
    layout of its input.  (Negative strides are left out: torch.from_numpy cannot represent them, so .torch() of such a body
    raises - a limitation of the framework the properties do not speak about.)"""
    import numpy as np
    k = k % 3
    if k == 0 or arr.ndim < 2 or arr.size == 0:
        return arr
    if k == 1:
        return np.asfortranarray(arr)
    big = np.repeat(arr, 2, axis=0)
    return big[::2]


def vary_torch(t, k):
    """The same tensor values in another memory layout: 0 as given, 1 transposed storage (non-contiguous), 2 a strided view
    of a tensor twice as long.  (PyTorch has no negative strides.)"""
    k = k % 3
    if k == 0 or t.dim() < 2 or t.numel() == 0:
        return t
    if k == 1:
        return t.transpose(0, -1).contiguous().transpose(0, -1)
    return t.repeat_interleave(2, dim=0)[::2]


def case_digest(case):
    c = {k: v for k, v in case.items() if not k.startswith("_")}
    return hashlib.sha1(json.dumps(c, sort_keys=True, default=str).encode()).hexdigest()[:12]


def parse_assumptions(output):
    """Parse coqc output of a props file: -> list of (theorem, [axioms]) in order."""
    res = []
    # coqc prints either 'Closed under the global context' or 'Axioms:\n name : type ...'
    blocks = re.split(r"(?m)^(?=Closed under the global context|Axioms:)", output)
    for b in blocks:
        if b.startswith("Closed under the global context"):
            res.append([])
        elif b.startswith("Axioms:"):
            names = re.findall(r"(?m)^([A-Za-z_][\w.']*)\s*:", b[len("Axioms:"):])
            res.append(names)
    return res


def theorem_names(vtext):
    return re.findall(r"(?m)^\s*(?:Theorem|Lemma|Corollary|Example)\s+([\w']+)", vtext)


FORBIDDEN = re.compile(r"\b(Admitted|admit|Axiom|Axioms|Parameter|Parameters|Conjecture|Conjectures|Admit Obligations|bypass_check|"
                       r"Unset Guard Checking|Unset Positivity Checking|Unset Universe Checking|type-in-type|impredicative-set)\b")


def dep_closure(vfiles):
    """transitive .v dependencies (relative to coq/) of the given .v files, from coq_makefile's .Makefile.d"""
    deps = {}
    path = os.path.join(build.COQ, ".Makefile.d")
    if os.path.exists(path):
        for line in open(path).read().replace("\\\n", " ").splitlines():
            if ":" not in line:
                continue
            lhs, rhs = line.split(":", 1)
            tg = [x for x in lhs.split() if x.endswith(".vo")]
            if not tg:
                continue
            deps[tg[0][:-1]] = [x[:-1] for x in rhs.split() if x.endswith(".vo")]
    seen, todo = set(), list(vfiles)
    while todo:
        f = todo.pop()
        if f in seen:
            continue
        seen.add(f)
        todo.extend(deps.get(f, []))
    return sorted(seen)


def scan_forbidden(vfiles):
    """grep the dependency closure of this property's files for constructs that would make a proof unsound"""
    bad = []
    for f in dep_closure(vfiles):
        try:
            txt = open(os.path.join(build.COQ, f)).read()
        except OSError:
            continue
        txt = re.sub(r"\(\*.*?\*\)", "", txt, flags=re.S)
        for m in FORBIDDEN.finditer(txt):
            bad.append("%s: %s" % (f, m.group(0)))
        depth = 0
        for line in txt.splitlines():
            s = line.strip()
            if re.match(r"(Section|Module)\s+\w+\s*\.", s):
                depth += 1
            elif re.match(r"End\s", s):
                depth -= 1
            elif depth <= 0 and re.match(r"(Variable|Variables|Hypothesis|Hypotheses|Context)\b", s):
                bad.append("%s: top-level %s" % (f, s[:40]))
    return bad


def write_replay(prop_id, payload):
    d = os.path.join(ROOT, "replays")
    os.makedirs(d, exist_ok=True)
    body = json.dumps(payload, sort_keys=True, default=str, indent=1)
    sha = hashlib.sha1(body.encode()).hexdigest()[:10]
    path = os.path.join(d, "%s-%s.json" % (prop_id, sha))
    with open(path, "w") as f:
        f.write(body)
    return path


def write_evidence(prop_id, ev):
    # evidence/ only ever describes runs against /repo itself; a run against a scratch tree (POSE_REPO, used by
    # harness/eval_seeded.py for seeded changes) writes to replays/scratch-evidence/ instead
    scratch = os.environ.get("POSE_REPO") not in (None, "", "/repo")
    d = os.path.join(ROOT, "replays", "scratch-evidence") if scratch else os.path.join(ROOT, "evidence")
    os.makedirs(d, exist_ok=True)
    path = os.path.join(d, "%s.json" % prop_id)
    tmp = path + ".tmp"
    with open(tmp, "w") as f:
        json.dump(ev, f, indent=1, sort_keys=True, default=str)
    os.replace(tmp, path)
    return path


def small(x, limit=400):
    s = json.dumps(x, default=str)
    return x if len(s) <= limit else (s[:limit] + "...")


def run_check(prop, tier, seed, replay=None):
    t0 = time.time()
    pid = prop.ID
    rng = random.Random(seed)
    broken = []        # broken ties / obligations: (kind, name, text)
    notes = []
    open_k, fixed_k = load_known_findings()
    open_here = open_k.get(pid, [])

    # ---- 1. translator
    gen_changed = []
    try:
        gen_files = dict(prop.translate())
        import translate_classes                     # class structure (overrides, attribute hooks): shared by all checks
        gen_files.update(translate_classes.gen())
        for rel, text in gen_files.items():
            if build.write_if_changed(os.path.join(build.COQ, "gen", rel), text):
                gen_changed.append(rel)
    except TranslateError as e:
        broken.append(("translator", "translate", str(e)))
    except Exception as e:  # any crash of the translator is a broken tie, never silently ignored
        broken.append(("translator", "translate", "translator crashed: %r\n%s" % (e, traceback.format_exc()[-1500:])))

    # ---- 2. obligations
    props_v = prop.PROPS or ("props/%s.v" % pid)
    obligations, discharged, assumptions_seen = 0, 0, {}
    thm_names = []
    if os.path.exists(os.path.join(build.COQ, props_v)):
        thm_names = theorem_names(open(os.path.join(build.COQ, props_v)).read())
        obligations = len(thm_names)
        try:
            # dependencies first (incremental), then this file with its output captured
            deps = build.make([props_v[:-2] + ".vo"], timeout=3000 if tier == "thorough" else 1500)
            ok, out = build.coqc_capture(props_v)
            if not ok:
                raise build.BuildError("coqc " + props_v, out)
            bad = scan_forbidden([props_v])
            if bad:
                broken.append(("hygiene", "forbidden-construct", "; ".join(bad[:10])))
            ass = parse_assumptions(out)
            if len(ass) != obligations:
                notes.append("Print Assumptions blocks (%d) != theorems (%d)" % (len(ass), obligations))
            allowed = set(prop.ALLOWED_AXIOMS)
            for i, name in enumerate(thm_names):
                ax = ass[i] if i < len(ass) else ["<no Print Assumptions>"]
                extra = [a for a in ax if a not in allowed and not a.startswith(PRIMITIVE_PREFIXES)]
                assumptions_seen[name] = ax
                if extra:
                    broken.append(("axioms", name, "depends on axioms outside the allow-list: %s" % extra))
                else:
                    discharged += 1
        except build.BuildError as e:
            m = re.search(r'File "\./([^"]+)", line (\d+)', e.output)
            where = ("%s:%s" % (m.group(1), m.group(2))) if m else props_v
            broken.append(("proof", where, e.output[-2500:]))
    else:
        broken.append(("proof", props_v, "theorem file missing"))

    # ---- thorough tier: Coq's independent checker on the compiled theorem file and all its dependencies
    coqchk_info = None
    if tier == "thorough" and not replay and os.path.exists(os.path.join(build.COQ, props_v[:-2] + ".vo")):
        st, ax, tail = build.coqchk(props_v, timeout=int(os.environ.get("VERIF_COQCHK_TIMEOUT", "1500")))
        coqchk_info = {"status": st, "axioms": ax, "note": tail if st != "ok" else ""}
        if st == "failed":
            broken.append(("coqchk", props_v, tail))
        # the axioms coqchk lists are those of every library loaded (wider than Print Assumptions of the theorems): they are
        # recorded in the evidence, the per-theorem allow-list is enforced on Print Assumptions above

    # ---- model runner
    runner = None
    if prop.RUNNER:
        try:
            exe = build.build_runner(prop.RUNNER, floats=prop.RUNNER_FLOATS)
            runner = Runner(exe)
        except build.BuildError as e:
            broken.append(("model-build", prop.RUNNER, e.output[-2500:]))

    # ---- 3./4. cases
    prop.setup()
    cases = []
    if replay:
        rp = json.load(open(replay))
        c = rp.get("case")
        if c is None:
            print("replay file names no concrete input: %s" % rp.get("broken"))
            cases = []
        else:
            cases = [c]
    else:
        cases = list(prop.corpus_cases()) + list(prop.gen_cases(rng, tier))
    hist = {}
    seen = set()
    distinct_nontrivial = 0
    disagreements = []   # (case, description, impl_out, model_out)
    failures = []        # (case, failure)
    validated = 0
    samples = []
    for case in cases:
        dg = case_digest(case)
        feat = prop.features(case)
        hist[str(feat)] = hist.get(str(feat), 0) + 1
        if dg not in seen:
            seen.add(dg)
            if prop.nontrivial(case):
                distinct_nontrivial += 1
        if len(samples) < 3:
            samples.append(small({k: v for k, v in case.items() if not k.startswith("_")}))
        impl_out = None
        try:
            impl_out = prop.run_impl(case)
        except Exception as e:
            disagreements.append((case, "harness crashed running the implementation: %r" % (e,), None, None))
            notes.append(traceback.format_exc()[-800:])
            continue
        if runner is not None:
            if True:
                try:
                    model_out = prop.run_model(case, runner)
                    if model_out is not None:
                        d = prop.compare(case, impl_out, model_out)
                        if d is None:
                            validated += 1
                        else:
                            disagreements.append((case, d, impl_out, model_out))
                except Exception as e:
                    disagreements.append((case, "model run failed: %r" % (e,), impl_out, None))
                    try:
                        runner.close()
                    except Exception:
                        pass
                    runner = Runner(runner.exe)
        try:
            f = prop.oracle(case)
        except Exception as e:
            f = {"what": "oracle crashed: %r" % (e,), "trace": traceback.format_exc()[-800:]}
        if f is not None:
            failures.append((case, f))
    if runner is not None:
        runner.close()
    prop.teardown()

    # ---- 5. classify
    known_hit = {}
    violations = []
    for case, f in failures:
        key = prop.classify(case, f)
        match = [k for (k, _) in open_here if k == key]
        if match:
            known_hit.setdefault(key, []).append(case_digest(case))
        else:
            violations.append((key, case, f))
    printed = []
    out_lines = []
    for key, text in open_here:
        out_lines.append("KNOWN-FINDING: property=%s %s%s" % (pid, text, "" if key in known_hit else " (witness not exercised in this run)"))
    # distinct violation keys: one replay each (smallest case)
    by_key = {}
    for key, case, f in violations:
        cur = by_key.get(key)
        size = len(json.dumps(case, default=str))
        if cur is None or size < cur[0]:
            by_key[key] = (size, case, f)
    for key, (_, case, f) in sorted(by_key.items()):
        path = write_replay(pid, {"property": pid, "seed": seed, "tier": tier, "key": key,
                                  "case": {k: v for k, v in case.items() if not k.startswith("_")},
                                  "failure": f,
                                  "broken": [b[:2] for b in broken]})
        out_lines.append("VIOLATION property=%s replay=%s" % (pid, path))
        printed.append(path)
    # broken obligations / correspondence with no failing input found
    unexplained_dis = []
    failing_digests = {case_digest(c) for c, _ in failures}
    for case, d, io, mo in disagreements:
        if case_digest(case) not in failing_digests:
            unexplained_dis.append((case, d, io, mo))
    if (broken or unexplained_dis) and not by_key:
        # nothing concrete found by the search: still a violation (the property is no longer shown to hold)
        # unless every broken item is explained by open known findings exercised in this run
        payload = {"property": pid, "seed": seed, "tier": tier, "case": None,
                   "broken": [{"kind": b[0], "name": b[1], "text": b[2]} for b in broken],
                   "correspondence_cases_that_no_longer_check": [
                       {"case": small({k: v for k, v in c.items() if not k.startswith("_")}, 4000), "difference": d,
                        "implementation": small(io, 1500), "model": small(mo, 1500)} for c, d, io, mo in unexplained_dis[:5]],
                   "note": "no failing input of the property itself was found by the search on this run"}
        path = write_replay(pid, payload)
        out_lines.append("VIOLATION property=%s replay=%s no-failing-input-found" % (pid, path))
        printed.append(path)
    elif (broken or unexplained_dis) and by_key:
        notes.append("broken ties alongside concrete violations: %s" % [b[:2] for b in broken])

    nviol = len([l for l in out_lines if l.startswith("VIOLATION")])
    ev = {
        "property_id": pid, "tier": tier, "seed": seed, "level": prop.LEVEL,
        "coverage": {
            "obligations": obligations, "discharged": discharged,
            "checker_cmd": "make -C coq %s.vo && coqc -R . Pose %s   (Coq 8.16.1 kernel; full .vo build)" % (props_v[:-2], props_v),
            "trusted_base": list(prop.TRUSTED),
            "theorems": thm_names,
            "print_assumptions": assumptions_seen,
            "model_files": list(prop.MODEL_FILES),
            "regenerated_from_source": sorted(prop.translate_outputs()) if hasattr(prop, "translate_outputs") else [],
            "generated_files_changed_this_run": gen_changed,
            "functions_reconciled_with_pinned_source": sorted(set(getattr(__import__("translate_py"), "RECONCILED", []))),
            "evaluations": len(cases),
            "distinct_nontrivial": distinct_nontrivial,
            "rule": prop.RULE,
            "samples": samples,
            "traces_validated_against_impl": validated,
            "correspondence_disagreements": len(disagreements),
            "oracle_failures": len(failures),
            "known_findings_exercised": {k: len(v) for k, v in known_hit.items()},
            "feature_histogram": hist,
            "broken_ties": [list(b[:2]) for b in broken],
            "coqchk": coqchk_info if coqchk_info is not None else "quick tier: not run (thorough tier runs coqchk -o on the theorem file)",
            "exhaustive": False,
        },
        "assumptions": list(prop.ASSUMPTIONS),
        "wall_s": round(time.time() - t0, 2),
        "violations": nviol,
        "notes": notes[:20],
    }
    write_evidence(pid, ev)
    for l in out_lines:
        print(l)
    print("%s tier=%s seed=%d obligations=%d/%d cases=%d validated=%d disagreements=%d oracle_failures=%d violations=%d wall=%.1fs"
          % (pid, tier, seed, discharged, obligations, len(cases), validated, len(disagreements), len(failures), nviol, time.time() - t0))
    return 1 if nviol else 0
