"""C09 - missing points never influence results (two-run non-interference).

A case is one operation on one backend, applied to the same pose under several *fillings* of its missing
slots (finite garbage, 1e30, NaN, +-inf).  The visible result - confidences, missing pattern, values with the
missing ones zero-filled - must be bit-identical over the fillings (the oracle, implementation only), and must
agree with the extracted Gallina model (the correspondence; exact on patterns, tolerance on values)."""
import io
import math
import os
import struct
import warnings

import numpy as np
import numpy.ma as ma

import common

warnings.simplefilter("ignore")
np.seterr(all="ignore")

NAN64 = 0x7FF8000000000000
FILL_KINDS = ["zero", "finite", "huge", "nan", "pinf", "ninf", "mixed"]
BACKENDS = ["np", "torch", "tf"]
# operation -> backends that implement it (a backend whose body has no such method does not "offer" it)
OPS = {
    "get_components": ["np", "torch", "tf"],          # selection (Pose.get_components -> body.get_points)
    "select_frames": ["np", "torch", "tf"],           # selection of frames
    "normalize": ["np", "tf"],                        # Pose.normalize (Torch: MaskedTensor.mean is not defined -> NotImplementedError)
    "normalize_distribution": ["np", "tf"],           # Pose.normalize_distribution (+ returned mu, std); Torch as above
    "unnormalize_distribution": ["np", "torch", "tf"],   # with plain (T, D) operands of the backend's own kind
    "flip": ["np"],
    "matmul": ["np", "torch", "tf"],
    "augment2d": ["np", "torch", "tf"],
    "interpolate": ["np"],
    "bbox": ["np"],
    "focus": ["np"],
    "zero_filled": ["np", "torch", "tf"],
    "roundtrip": ["np"],                              # Pose.write -> Pose.read
    "rep_distance": ["np", "torch"],                  # feature representations (TF ones take plain tensors: no missing points)
    "rep_angle": ["torch"],
    "rep_inner_angle": ["torch"],
    "rep_point_line": ["torch"],
    "rep_points": ["torch"],
}
REP_ARITY = {"rep_distance": 2, "rep_angle": 2, "rep_inner_angle": 3, "rep_point_line": 3, "rep_points": 1}


# ------------------------------------------------------------------------------------------------
# float helpers: float32 words on the case side, binary64 words on the model wire
def w32(x):
    return struct.unpack("<I", struct.pack("<f", x))[0]


def f32(w):
    return struct.unpack("<f", struct.pack("<I", w))[0]


def b64(x):
    return struct.unpack("<Q", struct.pack("<d", float(x)))[0]


def from_b64(w):
    return struct.unpack("<d", struct.pack("<Q", w))[0]


def canon_words(a):
    """bit pattern of every element of a float array as a list of ints; NaN -> one word, -0.0 -> +0.0 (numerically
    equal: the statement speaks of values, not of sign bits of zero)"""
    a = np.ascontiguousarray(a)
    if a.dtype == np.float32:
        w = a.view(np.uint32).astype(np.uint64)
        w = np.where((w & 0x7FFFFFFF) > 0x7F800000, 0x7FC00000, w)
        w = np.where(w == 0x80000000, 0, w)
    else:
        if a.dtype != np.float64:
            a = a.astype(np.float64)
        w = a.view(np.uint64)
        w = np.where((w & 0x7FFFFFFFFFFFFFFF) > 0x7FF0000000000000, NAN64, w)
        w = np.where(w == 0x8000000000000000, 0, w)
    return [int(x) for x in w.reshape(-1)]


def dtag(a):
    return "float32" if np.asarray(a).dtype == np.float32 else "float64"


def gen_fill(rng, kind, n):
    """n float32 words of garbage of the given kind"""
    out = []
    for _ in range(n):
        k = kind if kind != "mixed" else rng.choice(["finite", "huge", "nan", "pinf", "ninf", "zero"])
        if k == "zero":
            out.append(0)
        elif k == "finite":
            out.append(w32(rng.uniform(-500, 500)))
        elif k == "huge":
            out.append(w32(rng.choice([1e30, -1e30, 3e38])))
        elif k == "nan":
            out.append(0x7FC00000)
        elif k == "pinf":
            out.append(0x7F800000)
        else:
            out.append(0xFF800000)
    return out


# ------------------------------------------------------------------------------------------------
class Vis:
    """canonical visible result: {'shape':…, 'conf': words, 'mask': 0/1 (1 = missing), 'vals': words (zero-filled),
    'extra': {...}} or {'error': class}"""


def vis_np_body(body):
    data = body.data
    m = ma.getmaskarray(data)
    raw = np.asarray(ma.getdata(data))
    conf = np.asarray(body.confidence)
    return {"shape": list(raw.shape), "conf": canon_words(conf), "cshape": list(conf.shape), "conf_dtype": dtag(conf),
            "mask": [int(x) for x in m.reshape(-1)],
            "vals": canon_words(np.where(m, np.zeros((), dtype=raw.dtype), raw)), "dtype": dtag(raw)}


def vis_marr(x):
    """visible part of a numpy masked array / plain array / numpy scalar / masked constant"""
    if x is ma.masked:
        return {"shape": [], "mask": [1], "vals": [0], "dtype": "float64"}
    m = ma.getmaskarray(x)
    raw = np.asarray(ma.getdata(x))
    return {"shape": list(raw.shape), "mask": [int(v) for v in m.reshape(-1)],
            "vals": canon_words(np.where(m, np.zeros((), dtype=raw.dtype), raw)), "dtype": dtag(raw)}


def vis_masked_pair(tensor, valid, conf=None):
    """torch / tf: numpy views of (tensor, validity mask)"""
    t = np.asarray(tensor)
    v = np.asarray(valid).astype(bool)
    out = {"shape": list(t.shape), "mask": [int(not x) for x in v.reshape(-1)],
           "vals": canon_words(np.where(v, t, np.zeros((), dtype=t.dtype))), "dtype": dtag(t)}
    if conf is not None:
        c = np.asarray(conf)
        out["conf"] = canon_words(c)
        out["cshape"] = list(c.shape)
        out["conf_dtype"] = dtag(c)
    return out


def vis_plain(t):
    t = np.asarray(t)
    return {"shape": list(t.shape), "vals": canon_words(t), "dtype": dtag(t)}


class Impl:
    """drives pose_format through its public API"""

    def __init__(self):
        self.torch = None
        self.tf = None

    def need(self, backend):
        if backend == "torch" and self.torch is None:
            import torch
            torch.set_num_threads(1)
            self.torch = torch
        if backend == "tf" and self.tf is None:
            # TensorFlow 2.21's oneDNN matmul primitive cache corrupts the heap when tf.matmul(rank 4, rank 2) is
            # called with varying shapes in one process (library defect, reproduced without pose_format)
            os.environ.setdefault("TF_ENABLE_ONEDNN_OPTS", "0")
            import tensorflow as tf
            self.tf = tf

    # -- building the input
    def header(self, case):
        from pose_format.pose_header import PoseHeader, PoseHeaderComponent, PoseHeaderDimensions
        D = case["shape"][3]
        fmt = "XYZW"[:D] + "C"
        comps = []
        for ci, n in enumerate(case["comps"]):
            pts = ["p%d" % i for i in range(n)]
            limbs = [(i, i + 1) for i in range(n - 1)]
            comps.append(PoseHeaderComponent("c%d" % ci, pts, limbs, [(255, 0, 0)] * len(limbs), fmt))
        return PoseHeader(0.2, PoseHeaderDimensions(640, 480, 10), comps)

    @staticmethod
    def filled_data(case, fill):
        """float32 array: the case's values with the missing slots replaced by the filling"""
        F, P, T, D = case["shape"]
        data = np.array(case["data"], dtype=np.uint32).view(np.float32).reshape(F, P, T, D).copy()
        conf = np.array(case["conf"], dtype=np.uint32).view(np.float32).reshape(F, P, T)
        miss = np.repeat((conf == 0).reshape(-1), D)
        g = np.array(fill["words"], dtype=np.uint32).view(np.float32)
        flat = data.reshape(-1)
        flat[miss] = g[:int(miss.sum())]
        lay = len(case["data"]) + F + 2 * P + 3 * T          # memory layout handed to the constructor: a function of the case only
        return common.vary_layout(flat.reshape(F, P, T, D), lay), common.vary_layout(conf.copy(), lay + 1)

    def pose(self, case, fill):
        from pose_format.numpy.pose_body import NumPyPoseBody
        from pose_format.pose import Pose
        data, conf = self.filled_data(case, fill)
        # the array reaches the constructor as a caller may hold it: a plain ndarray, a masked array without a mask, or a masked
        # array whose own mask covers only some of the zero-confidence points (the constructor ORs `confidence == 0` into it).
        # The choice depends on the case only, so that both fillings of a case take the same route.
        mode = (sum(case["conf"]) + len(case["data"])) % 3
        if mode == 1:
            data = ma.masked_array(data)
        elif mode == 2 and data.ndim == 4 and data.shape[3] > 0:
            zero = np.repeat((conf == 0)[..., None], data.shape[3], axis=-1)
            keep = np.random.RandomState(len(case["data"]) * 31 + 7).random_sample(zero.shape) < 0.5
            data = ma.masked_array(data, mask=zero & keep)
        return Pose(self.header(case), NumPyPoseBody(from_b64(case["fps"]), data, conf))

    def to_backend(self, pose, backend):
        if backend == "np":
            return pose
        self.need(backend)
        return pose.torch() if backend == "torch" else pose.tensorflow()

    def vis_body(self, body, backend):
        if backend == "np":
            return vis_np_body(body)
        d = body.data
        conf = body.confidence.numpy()
        if hasattr(d, "mask") and hasattr(d, "tensor"):
            return vis_masked_pair(d.tensor.numpy(), d.mask.numpy(), conf)
        # a plain tensor (zero_filled on torch / tf replaces the masked tensor by a plain one)
        out = vis_plain(d.numpy())
        out["conf"] = canon_words(conf)
        out["cshape"] = list(conf.shape)
        out["conf_dtype"] = dtag(conf)
        return out

    # -- masked inputs of the representations
    def rep_inputs(self, case, fill, backend):
        shape = case["shape"]
        n = int(np.prod(shape))
        outs = []
        for k, (vals, msk) in enumerate(zip(case["rep_vals"], case["rep_masks"])):
            a = np.array(vals, dtype=np.uint32).view(np.float32).copy()
            m = np.array(msk, dtype=bool)
            g = np.array(fill["rep_words"][k], dtype=np.uint32).view(np.float32)
            a[m] = g[:int(m.sum())]
            a = a.reshape(shape)
            m = m.reshape(shape)
            if backend == "np":
                outs.append(ma.masked_array(a, mask=m))
            else:
                self.need("torch")
                from pose_format.torch.masked.tensor import MaskedTensor
                outs.append(MaskedTensor(self.torch.from_numpy(a), self.torch.from_numpy(~m)))
        return outs

    # -- one run of the operation
    def run(self, case, fill):
        try:
            return self._run(case, fill)
        except Exception as e:  # noqa: BLE001 - errors are one class
            return {"error": type(e).__name__, "msg": str(e)[:200]}

    def _run(self, case, fill):
        op, backend, prm = case["op"], case["backend"], case.get("params", {})
        if op.startswith("rep_"):
            return self._run_rep(case, fill)
        pose = self.to_backend(self.pose(case, fill), backend)
        body = pose.body
        extra = {}
        if op == "get_components":
            names = ["c%d" % i for i in prm["comps"]]
            points = None
            if prm.get("points") is not None:
                points = {"c%s" % k: ["p%d" % i for i in v] for k, v in prm["points"].items()}
            res = pose.get_components(names, points).body
        elif op == "select_frames":
            res = body.select_frames(list(prm["frames"]))
        elif op == "normalize":
            from pose_format.pose_header import PoseNormalizationInfo
            res = pose.normalize(PoseNormalizationInfo(prm["p1"], prm["p2"]), scale_factor=prm.get("scale", 1)).body
        elif op == "normalize_distribution":
            mu, std = pose.normalize_distribution(axis=tuple(prm.get("axis", (0, 1))))
            if backend == "np":
                extra = {"mu": vis_marr(mu), "std": vis_marr(std)}
            else:       # TensorFlow: the statistics are MaskedTensors (validity masks)
                extra = {"mu": vis_masked_pair(mu.tensor.numpy(), mu.mask.numpy()), "std": vis_masked_pair(std.tensor.numpy(), std.mask.numpy())}
            res = pose.body
        elif op == "unnormalize_distribution":
            T, D = case["shape"][2], case["shape"][3]
            mu = np.array([from_b64(w) for w in prm["mu"]]).reshape(T, D)
            std = np.array([from_b64(w) for w in prm["std"]]).reshape(T, D)
            if backend == "torch":      # a torch.Tensor does not multiply with an ndarray: operands of the backend's own kind
                mu, std = self.torch.from_numpy(mu.astype(np.float32)), self.torch.from_numpy(std.astype(np.float32))
            elif backend == "tf":
                mu, std = self.tf.constant(mu, dtype=self.tf.float32), self.tf.constant(std, dtype=self.tf.float32)
            pose.unnormalize_distribution(mu, std)
            res = pose.body
        elif op == "flip":
            res = pose.flip(prm["axis"]).body
        elif op == "matmul":
            D, E = prm["mshape"]
            m = np.array([from_b64(w) for w in prm["matrix"]], dtype=np.float32).reshape(D, E)
            res = body.matmul(m)
        elif op == "augment2d":
            np.random.seed(prm["seed"])
            seen = []
            orig = body.matmul
            body.matmul = lambda mat: (seen.append(np.array(mat)), orig(mat))[1]   # spy on the drawn matrix
            res = pose.augment2d(rotation_std=prm["rot"], shear_std=prm["shear"], scale_std=prm["scale"]).body
            extra = {"matrix": vis_plain(seen[0].astype(np.float64))}
        elif op == "interpolate":
            res = pose.interpolate(prm["new_fps"], kind=prm["kind"]).body
        elif op == "bbox":
            res = pose.bbox().body
        elif op == "focus":
            pose.focus()
            d = pose.header.dimensions
            extra = {"dims": [d.width, d.height, d.depth]}
            res = pose.body
        elif op == "zero_filled":
            res = body.zero_filled()
            # exactness: the stored value at every missing slot of the input must be exactly 0
            _, conf = self.filled_data(case, fill)
            miss = np.repeat((conf == 0).reshape(-1), case["shape"][3])
            raw = np.asarray(ma.getdata(res.data)) if backend == "np" else (res.data.tensor if hasattr(res.data, "tensor") else res.data).numpy()
            stored = raw.reshape(-1)[miss]
            extra = {"zero_exact": bool(np.all(stored == 0)) and not bool(np.any(np.isnan(stored))),
                     "stored_at_missing": canon_words(stored)[:8]}
        elif op == "roundtrip":
            from pose_format.pose import Pose
            from pose_format.numpy.pose_body import NumPyPoseBody
            if len(case["data"]) % 2 == 0 and case["shape"][3] > 0:
                # a binary64 body in memory whose stored coordinates at missing points are finite but far outside binary32
                # (what is stored there is nobody's business: the file is written, and reads back to the same visible pose)
                d64 = np.asarray(ma.getdata(pose.body.data)).astype(np.float64)
                c64 = np.asarray(pose.body.confidence).astype(np.float64)
                miss4 = np.repeat((c64 == 0)[..., None], d64.shape[-1], axis=-1)
                with np.errstate(all="ignore"):
                    d64 = np.where(miss4 & np.isfinite(d64), d64 * 1e30 + np.sign(d64) * 1e39, d64)
                pose = Pose(pose.header, NumPyPoseBody(pose.body.fps, d64, c64))
            buf = io.BytesIO()
            with warnings.catch_warnings():
                warnings.simplefilter("ignore")          # NumPy warns about the overflow in the cast of such garbage
                pose.write(buf)
            res = Pose.read(buf.getvalue()).body
        else:
            raise ValueError("unknown op " + op)
        out = self.vis_body(res, backend)
        out["extra"] = extra
        return out

    def _run_rep(self, case, fill):
        op, backend = case["op"], case["backend"]
        ins = self.rep_inputs(case, fill, backend)
        if backend == "np":
            from pose_format.numpy.representation.distance import DistanceRepresentation
            res = DistanceRepresentation()(*ins)
            return {"rep": vis_marr(res), "extra": {}}
        mod = {"rep_distance": ("distance", "DistanceRepresentation"), "rep_angle": ("angle", "AngleRepresentation"),
               "rep_inner_angle": ("inner_angle", "InnerAngleRepresentation"),
               "rep_point_line": ("point_line_distance", "PointLineDistanceRepresentation"),
               "rep_points": ("points", "PointsRepresentation")}[op]
        import importlib
        cls = getattr(importlib.import_module("pose_format.torch.representation." + mod[0]), mod[1])
        res = cls()(*ins)
        return {"rep": vis_plain(res.numpy()), "extra": {}}


# ------------------------------------------------------------------------------------------------
# generator
def gen_value_word(rng):
    r = rng.random()
    if r < 0.7:
        return w32(round(rng.uniform(-60, 60), 3))
    if r < 0.9:
        return w32(float(rng.randrange(-8, 9)))
    return w32(rng.uniform(0.5, 2.0))


def gen_conf(rng, n, q):
    return [0 if rng.random() < q else w32(rng.choice([1.0, 0.5, 0.25, 0.875, round(rng.uniform(0.05, 1), 3)])) for _ in range(n)]


def gen_fills(rng, nmiss_list, tier):
    """fillings: each is {'kind', 'words' (body) , 'rep_words' (per representation input)}"""
    kinds = ["finite"] + rng.sample(["huge", "nan", "pinf", "ninf", "mixed", "zero"], 3 if tier == "quick" else 4)
    fills = []
    for k in kinds:
        fills.append({"kind": k, "lists": [gen_fill(rng, k, n) for n in nmiss_list]})
    return fills


def gen_case(rng, tier, op=None, backend=None, fixed=None):
    op = op or rng.choice(list(OPS))
    backend = backend or rng.choice(OPS[op])
    case = {"op": op, "backend": backend, "params": {}, "fps": b64(rng.choice([30.0, 25.0, 24.0, 12.5]))}
    prm = case["params"]
    if op.startswith("rep_"):
        shape = [rng.randrange(1, 4), rng.randrange(1, 3), rng.randrange(1, 4), rng.choice([2, 3] if op != "rep_points" else [1, 2, 3])]
        n = shape[0] * shape[1] * shape[2] * shape[3]
        q = rng.choice([0.0, 0.1, 0.1, 0.2, 0.2, 0.3, 0.4, 0.7, 1.0])
        uniform = rng.random() < 0.7     # masks uniform over the coordinate axis (as bodies have) or free per element
        vals, masks = [], []
        for _ in range(REP_ARITY[op]):
            vals.append([gen_value_word(rng) for _ in range(n)])
            if uniform:
                pm = [rng.random() < q for _ in range(n // shape[3])]
                masks.append([int(pm[i // shape[3]]) for i in range(n)])
            else:
                masks.append([int(rng.random() < q) for _ in range(n)])
        if rng.random() < 0.15 and REP_ARITY[op] >= 2:      # coincident points: 0/0 in angles and heights
            vals[1] = list(vals[0])
        case.update({"shape": shape, "rep_vals": vals, "rep_masks": masks})
        fills = gen_fills(rng, [sum(m) for m in masks], tier)
        case["fills"] = [{"kind": f["kind"], "rep_words": f["lists"]} for f in fills]
        return case
    D = rng.choice([2, 2, 3, 3, 1] if op in ("get_components", "select_frames", "matmul", "zero_filled", "roundtrip", "flip") else [2, 2, 3])
    if op == "augment2d":
        D = rng.choice([2, 2, 3])
    comps = [rng.randrange(1, 4) for _ in range(rng.choice([1, 1, 2, 3]))]
    T = sum(comps)
    F = rng.choice([1, 2, 3, 4, 5]) if op != "interpolate" else rng.choice([2, 3, 4, 5, 6, 7])
    P = rng.choice([1, 1, 2])
    if fixed:
        F, P, comps, D = fixed
        T = sum(comps)
    q = rng.choice([0.0, 0.1, 0.1, 0.2, 0.2, 0.3, 0.3, 0.5, 0.5, 0.8, 1.0])
    conf = gen_conf(rng, F * P * T, q)
    if rng.random() < 0.2 and T > 1:      # one point missing in every frame / one frame wholly missing
        t = rng.randrange(T)
        for f in range(F):
            for p in range(P):
                conf[(f * P + p) * T + t] = 0
    data = [gen_value_word(rng) for _ in range(F * P * T * D)]
    case.update({"shape": [F, P, T, D], "comps": comps, "conf": conf, "data": data})
    nmiss = sum(1 for c in conf if f32(c) == 0) * D
    case["fills"] = [{"kind": f["kind"], "words": f["lists"][0]} for f in gen_fills(rng, [nmiss], tier)]
    if op == "get_components":
        k = rng.randrange(1, len(comps) + 1)
        sel = rng.sample(range(len(comps)), k)
        prm["comps"] = sel
        prm["points"] = None
        if rng.random() < 0.6:
            prm["points"] = {}
            for c in sel:
                if rng.random() < 0.7:
                    pts = list(range(comps[c]))
                    rng.shuffle(pts)
                    prm["points"][str(c)] = pts[:rng.randrange(0 if rng.random() < 0.15 else 1, comps[c] + 1)]
    elif op == "select_frames":
        prm["frames"] = [rng.randrange(F) for _ in range(rng.randrange(0, F + 2))]
    elif op == "normalize":
        prm["p1"], prm["p2"] = rng.randrange(T), rng.randrange(T)
        prm["scale"] = rng.choice([1, 1, 2, 100])
    elif op == "normalize_distribution":
        prm["axis"] = rng.choice([[0, 1], [0, 1], [0, 1, 2]])
    elif op == "unnormalize_distribution":
        prm["mu"] = [b64(round(rng.uniform(-5, 5), 2)) for _ in range(T * D)]
        prm["std"] = [b64(round(rng.uniform(0.5, 3), 2)) for _ in range(T * D)]
    elif op == "flip":
        prm["axis"] = rng.randrange(D)
    elif op == "matmul":
        E = D if rng.random() < 0.7 else rng.choice([1, 2, 3])
        prm["mshape"] = [D, E]
        prm["matrix"] = [b64(rng.choice([0.0, 1.0, -1.0, 0.5, 2.0, round(rng.uniform(-2, 2), 2)])) for _ in range(D * E)]
    elif op == "augment2d":
        prm["seed"] = rng.randrange(1 << 30)
        prm["rot"], prm["shear"], prm["scale"] = [rng.choice([0.2, 0.2, 0.0, 0.5]) for _ in range(3)]
    elif op == "interpolate":
        prm["new_fps"] = rng.choice([from_b64(case["fps"]), 2 * from_b64(case["fps"]), 15.0, 50.0, 10.0])
        prm["kind"] = rng.choice(["linear", "linear", "quadratic", "cubic"])
    return case


# ------------------------------------------------------------------------------------------------
# model side
OPCODE = {"get_components": 1, "select_frames": 2, "normalize": 3, "normalize_distribution": 4, "unnormalize_distribution": 5,
          "flip": 6, "matmul": 7, "augment2d": 7, "interpolate": 8, "bbox": 9, "focus": 10, "zero_filled": 11, "roundtrip": 12,
          "rep_distance": 20, "rep_angle": 21, "rep_inner_angle": 22, "rep_point_line": 23, "rep_points": 24}
KIND = {"linear": 0, "quadratic": 1, "cubic": 2}


def f32w_to_b64(w):
    return b64(f32(w))


def flat_indexes(case):
    """the point indexes Pose.get_components hands to body.get_points (pose.py:267-298), recomputed independently"""
    prm = case["params"]
    offs, o = [], 0
    for n in case["comps"]:
        offs.append(o)
        o += n
    out = []
    for c in prm["comps"]:
        pts = (prm.get("points") or {}).get(str(c))
        out += [offs[c] + p for p in pts] if pts is not None else list(range(offs[c], offs[c] + case["comps"][c]))
    return out


def py_round_frames(F, new_fps, fps):
    return round(F * new_fps / fps)


def model_request(case, fill, impl_out):
    op, backend, prm = case["op"], case["backend"], case.get("params", {})
    code = OPCODE[op]
    be = {"np": 0, "torch": 1, "tf": 2}[backend]
    shape = list(case["shape"])
    if op.startswith("rep_"):
        ins = []
        for k, (vals, msk) in enumerate(zip(case["rep_vals"], case["rep_masks"])):
            v = list(vals)
            g = iter(fill["rep_words"][k])
            v = [next(g) if m else x for x, m in zip(v, msk)]
            ins.append([[f32w_to_b64(w) for w in v], [int(m) for m in msk]])
        return [code, be, shape, ins]
    D = shape[3]
    g = iter(fill["words"])
    vals = []
    for i, w in enumerate(case["data"]):
        vals.append(next(g) if f32(case["conf"][i // D]) == 0 else w)
    p = []
    if op == "get_components":
        p = [flat_indexes(case)]
    elif op == "select_frames":
        p = [list(prm["frames"])]
    elif op == "normalize":
        p = [prm["p1"], prm["p2"], b64(prm.get("scale", 1))]
    elif op == "normalize_distribution":
        p = [len(prm.get("axis", (0, 1)))]
    elif op == "unnormalize_distribution":
        if backend == "np":
            p = [list(prm["mu"]), list(prm["std"])]
        else:       # Torch / TensorFlow operands are float32 tensors
            p = [[b64(np.float32(from_b64(w))) for w in prm["mu"]], [b64(np.float32(from_b64(w))) for w in prm["std"]]]
    elif op == "flip":
        p = [prm["axis"]]
    elif op == "matmul":
        p = [prm["mshape"][1], [b64(np.float32(from_b64(w))) for w in prm["matrix"]]]
    elif op == "augment2d":
        # the drawn matrix is an explicit argument of the model; it is read back from the implementation's run
        m = impl_out.get("extra", {}).get("matrix") if impl_out else None
        if m is None:
            return None
        p = [D, list(m["vals"])]
    elif op == "interpolate":
        p = [KIND[prm["kind"]], py_round_frames(shape[0], prm["new_fps"], from_b64(case["fps"]))]
    elif op == "bbox":
        p = [list(case["comps"])]
    return [code, be, shape, [f32w_to_b64(w) for w in vals], [f32w_to_b64(w) for w in case["conf"]], p]


def fl(w):
    return from_b64(w)


def model_vis(case, reply):
    """canonical visible result from the model's reply (floats as Python floats)"""
    if reply[0] == 0:
        return {"error": True}
    pay = reply[1]
    op, backend = case["op"], case["backend"]

    def body(t):
        shape, vals, masks, cshape, conf = t
        return {"shape": list(shape), "mask": [int(m) for m in masks],
                "vals": [0.0 if m else fl(v) for v, m in zip(vals, masks)], "cshape": list(cshape), "conf": [fl(c) for c in conf]}

    def cells(t):
        vals, masks = t
        return {"mask": [int(m) for m in masks], "vals": [0.0 if m else fl(v) for v, m in zip(vals, masks)]}

    if op.startswith("rep_"):
        return {"rep": {"shape": list(pay[0]), "vals": [fl(v) for v in pay[1]]}, "extra": {}}
    if op == "zero_filled" and backend != "np":
        return {"shape": list(pay[0]), "vals": [fl(v) for v in pay[1]], "plain": True, "extra": {}}
    if op == "normalize_distribution":
        out = body(pay[0])
        out["extra"] = {"mu": cells(pay[1]), "std": cells(pay[2])}
        return out
    if op == "focus":
        out = body(pay[0])
        out["extra"] = {"dims_raw": [fl(v) for v in pay[1]]}
        return out
    out = body(pay)
    out["extra"] = {}
    return out


def words_to_floats(words, dtype):
    if dtype == "float32":
        return [float(x) for x in np.array(words, dtype=np.uint32).view(np.float32)]
    return [from_b64(w) for w in words]


def close(a, b, rtol, atol):
    if a != a or b != b:
        return a != a and b != b
    if math.isinf(a) or math.isinf(b):
        return a == b
    return abs(a - b) <= atol + rtol * max(abs(a), abs(b))


def cmp_floats(name, got, exp, rtol, atol):
    """atol: a number, or a function of the flat index (condition-aware tolerance)"""
    if len(got) != len(exp):
        return "%s: length %d (implementation) vs %d (model)" % (name, len(got), len(exp))
    for i, (a, b) in enumerate(zip(got, exp)):
        if not close(a, b, rtol, atol(i) if callable(atol) else atol):
            return "%s[%d]: implementation %r, model %r" % (name, i, a, b)
    return None


def compare_vis(case, impl, model):
    """implementation's visible result vs the model's: patterns exactly, values within tolerance"""
    op = case["op"]
    ierr, merr = "error" in impl, "error" in model
    if ierr or merr:
        return None if ierr == merr else "implementation %s, model %s" % ("raises" if ierr else "returns", "raises" if merr else "returns")
    rtol, atol = 2e-4, 2e-4
    if op == "rep_inner_angle":
        atol = 5e-3
    if op == "rep_point_line":
        atol = 0.25
    if "rep" in impl:
        r, m = impl["rep"], model["rep"]
        if list(r["shape"]) != list(m["shape"]):
            return "shape %s vs %s" % (r["shape"], m["shape"])
        if "mask" in r:       # numpy distance returns filled(0) -> plain
            pass
        return cmp_floats("rep", words_to_floats(r["vals"], r["dtype"]), m["vals"], rtol, atol)
    if list(impl["shape"]) != list(model["shape"]):
        return "data shape %s vs %s" % (impl["shape"], model["shape"])
    values_ok = not (op == "interpolate" and case["params"]["kind"] != "linear")
    if model.get("plain"):
        return cmp_floats("vals", words_to_floats(impl["vals"], impl["dtype"]), model["vals"], rtol, atol)
    if not values_ok:
        # quadratic / cubic: the model runs the linear interpolant.  Outside a track's support both give zeros (missing);
        # inside, linear interpolation of positive confidences is positive, while a spline may cross 0 exactly
        # (e.g. the parabola through (0, .25), (.5, .25), (.75, 1) at .25) - so only "missing in the model => missing" is compared
        if len(impl["mask"]) != len(model["mask"]):
            return "missing pattern has %d slots, model %d" % (len(impl["mask"]), len(model["mask"]))
        bad = [k for k, (a, b) in enumerate(zip(impl["mask"], model["mask"])) if b and not a]
        if bad:
            return "slot %d lies outside the track's support (missing in the model) but is present in the implementation" % bad[0]
    elif impl["mask"] != model["mask"]:
        i = next(k for k in range(len(model["mask"])) if k >= len(impl["mask"]) or impl["mask"][k] != model["mask"][k])
        return "missing pattern differs at flat index %d" % i
    if list(impl["cshape"]) != list(model["cshape"]):
        return "confidence shape %s vs %s" % (impl["cshape"], model["cshape"])
    if op == "normalize_distribution" and "std" in model.get("extra", {}):
        # (x - mu) / std cancels: the float32 rounding of x and mu (about 6e-8 |x|) is divided by std
        sd = model["extra"]["std"]["vals"]
        big = max([abs(v) for v in model["extra"]["mu"]["vals"]] + [1.0]) + 60.0
        base = atol
        atol = (lambda k: base + 4e-7 * big / max(abs(sd[k % len(sd)]), 1e-12)) if sd else base
    if values_ok:
        d = cmp_floats("conf", words_to_floats(impl["conf"], impl["conf_dtype"]), model["conf"], rtol, atol)
        if d:
            return d
        d = cmp_floats("vals", words_to_floats(impl["vals"], impl["dtype"]), model["vals"], rtol, atol)
        if d:
            return d
    ex_i, ex_m = impl.get("extra", {}), model.get("extra", {})
    for k in ("mu", "std"):
        if k in ex_m:
            a, b = ex_i[k], ex_m[k]
            if a["mask"] != b["mask"]:
                return "%s: missing pattern differs" % k
            d = cmp_floats(k, words_to_floats(a["vals"], a["dtype"]), b["vals"], rtol, atol)
            if d:
                return d
    if "dims_raw" in ex_m:
        for got, raw in zip(ex_i["dims"], ex_m["dims_raw"] + [0.0]):
            if abs(raw - round(raw)) < 1e-3:
                if got not in (round(raw), round(raw) + 1):
                    return "header dimension %r vs ceil(%r)" % (got, raw)
            elif got != math.ceil(raw):
                return "header dimension %r vs ceil(%r)" % (got, raw)
    return None


# ------------------------------------------------------------------------------------------------
def strip(o):
    return {k: v for k, v in o.items() if k != "msg"}


class C09(common.Prop):
    ID = "C09"
    RUNNER = "c09"
    RUNNER_FLOATS = True
    # kernel primitives of PrimFloat that Print Assumptions prints unqualified (the concrete binary64 Examples and the refutation use them)
    ALLOWED_AXIOMS = {"of_uint63", "ldshiftexp", "frshiftexp", "normfr_mantissa", "next_up", "next_down", "classify", "compare"}
    MODEL_FILES = ["base/Num.v", "base/Tensor.v", "model/C09_Masked.v", "model/C09_Ops.v", "model/C09_TfNorm.v", "model/C09_Facts.v", "model/C09_Src.v", "model/C09_Run.v"]
    RULE = ("one operation x backend per case (selection, normalisation, linear transforms, interpolation, bounding boxes, focus, "
            "zero-filling, write/read, feature representations; NumPy / Torch / TensorFlow where the backend offers it) on a float32 pose "
            "(F<=7, P<=2, <=3 components, D 1..3, missing rate 0..1 incl. wholly missing points) under 4-5 fillings of the missing slots "
            "(finite, 1e30, NaN, +inf, -inf, mixed, zero); oracle: visible results bit-identical over the fillings (NaN one word, -0.0 = +0.0); "
            "model: missing pattern / shapes / errors exact, values within rtol 2e-4 + atol 2e-4 (inner angle 5e-3, point-line 0.25: "
            "ill-conditioned near degenerate triangles; normalize_distribution: + 4e-7 (|mu| + 60) / std, the float32 cancellation of "
            "x - mu divided by std; TensorFlow / Torch compute in float32, the model in binary64); non-trivial = at least one missing slot and the operation returns " "The NumPy body is built from a plain array, an unmasked masked array or a partially masked one, in C / Fortran / strided layout.")
    TRUSTED = ["Coq 8.16.1 kernel", "harness/translate_c09.py (fail-closed ast translator)",
               "extraction: ExtrOcamlBasic, ExtrOCamlFloats, ExtrOCamlInt63; runner/driver.ml",
               "harness/c09.py canonicalisers (NaN -> one word, -0.0 -> +0.0, errors -> one class, Torch/TF validity -> numpy mask polarity)"]
    ASSUMPTIONS = ["numpy.ma / torch / tensorflow kernels behave as transcribed in model/C09_Masked.v and model/C09_TfNorm.v (sampled by the correspondence)",
                   "value/mask shapes of a masked tensor agree (C10); masks of a body are uniform over the coordinate axis (constructor)",
                   "rounding, float32/float64 mixing, summation order, scipy quadratic/cubic splines: not modelled",
                   "serialisation: the file keeps exactly the stored values and confidences (C01), the mask is rebuilt from the confidences"]

    def __init__(self):
        self.impl = Impl()

    def translate(self):
        import translate_c09
        return translate_c09.gen()

    def zero_filled_kind(self, backend):
        import translate_c09
        import translate_py
        rel = "torch/masked/tensor.py" if backend == "torch" else "tensorflow/masked/tensor.py"
        try:
            mt = translate_py.cls(translate_py.parse(rel), "MaskedTensor")
            return translate_c09.zf_kind(translate_c09.ret_expr(translate_py.fn(mt, "zero_filled"), rel), rel)
        except common.TranslateError:
            return "unknown"

    def translate_outputs(self):
        return ["Gen_C09.v"]

    def gen_cases(self, rng, tier):
        n = 600 if tier == "quick" else 60000
        import translate_c09
        changed = translate_c09.digests_changed()
        if changed:      # DESIGN 3(c): a changed anchor never alarms by itself, it buys a larger differential run
            print("NOTE C09: anchored functions changed since the model was written: %s - using the larger correspondence budget" % changed)
            n = max(n, 3000)
        ops = list(OPS)
        for i in range(n):
            op = ops[i % len(ops)] if i < 4 * len(ops) else None      # every operation is exercised early
            yield gen_case(rng, tier, op=op)
        # LARGE PyTorch tensors (2^24 / 2^25 coordinates, a long recording) with a single missing point holding junk: a shortcut that
        # decides "nothing is missing" from a float32 statistic of the mask cannot see one element in 16 or 33 million (oracle only)
        for n in (2 ** 24 + 5, 2 ** 25 + 5):
            yield {"op": "zero_filled", "backend": "torch", "large": n, "shape": [1, 1, 1, 1], "conf": [0],
                   "fills": [{"kind": "finite", "words": []}, {"kind": "nan", "words": []}]}
        if tier == "thorough":
            # small scope, exhaustively: every missing pattern of a 2-frame, 1-person, 2-point pose, every body operation x backend
            for op in ops:
                if op.startswith("rep_"):
                    continue
                for be in OPS[op]:
                    for pat in range(16):
                        c = gen_case(rng, tier, op=op, backend=be, fixed=(2, 1, [2], 2))
                        for i in range(4):
                            c["conf"][i] = 0 if (pat >> i) & 1 else w32(0.5)
                        nmiss = 2 * bin(pat).count("1")
                        c["fills"] = [{"kind": k, "words": gen_fill(rng, k, nmiss)} for k in ("finite", "nan", "pinf", "mixed")]
                        yield c

    def features(self, case):
        kinds = ",".join(sorted(f["kind"] for f in case["fills"]))
        return (case["op"], case["backend"], case["shape"][3])

    def nontrivial(self, case):
        if case["op"].startswith("rep_"):
            return any(any(m) for m in case["rep_masks"])
        return any(f32(c) == 0 for c in case["conf"])

    # ---- implementation: one run per filling
    def run_large(self, case):
        self.impl.need("torch")
        torch = self.impl.torch
        from pose_format.torch.masked.tensor import MaskedTensor
        outs = []
        for f in case["fills"]:
            n, at = case["large"], 7
            t = torch.ones(n, dtype=torch.float32)
            t[at] = 12345.0 if f["kind"] == "finite" else float("nan")
            m = torch.ones(n, dtype=torch.bool)
            m[at] = False
            try:
                z = MaskedTensor(t, m).zero_filled()
                got = float(z[at])
                ok = got == 0.0 and float(z[at + 1]) == 1.0 and float(z[0]) == 1.0 and tuple(z.shape) == (n,)
                outs.append({"extra": {"zero_exact": bool(ok), "stored_at_missing": repr(got)}, "n": n})
            except Exception as e:
                outs.append({"error": type(e).__name__, "extra": {}})
            del t, m
        return outs

    def run_impl(self, case):
        if case.get("large"):
            outs = self.run_large(case)
            case["_impl"] = outs
            return [strip(o) for o in outs]
        outs = [self.impl.run(case, f) for f in case["fills"]]
        case["_impl"] = outs
        return [strip(o) for o in outs]

    def run_model(self, case, runner):
        if case.get("large"):
            return None
        outs = []
        for f, io in zip(case["fills"], case["_impl"]):
            req = model_request(case, f, io)
            if req is None:
                outs.append(None)
                continue
            outs.append(model_vis(case, runner.ask(req)))
        return outs

    def compare(self, case, impl_out, model_out):
        for k, (io, mo) in enumerate(zip(case["_impl"], model_out)):
            if mo is None:
                continue
            d = compare_vis(case, io, mo)
            if d:
                return "filling %d (%s): %s" % (k, case["fills"][k]["kind"], d)
        return None

    # ---- oracle: the statement itself, on the implementation alone
    def oracle(self, case):
        outs = case.get("_impl") or [self.impl.run(case, f) for f in case["fills"]]
        base = strip(outs[0])
        for k, o in enumerate(outs):
            ex = o.get("extra", {})
            if ex.get("zero_exact") is False:
                return {"what": "zero_filled left a non-zero value at a missing point (filling %s)" % case["fills"][k]["kind"],
                        "kind": "zero-not-exact", "filling": case["fills"][k]["kind"], "stored": ex.get("stored_at_missing")}
        for k in range(1, len(outs)):
            o = strip(outs[k])
            if ("error" in o) != ("error" in base):
                return {"what": "the operation raises under one filling of the missing slots and returns under another",
                        "kind": "error-differs", "filling": case["fills"][k]["kind"]}
            if "error" in o:
                continue
            if o != base:
                fields = sorted(f for f in set(o) | set(base) if o.get(f) != base.get(f))
                return {"what": "visible result changes with the filling of the missing slots: %s vs %s, fields %s"
                                % (case["fills"][0]["kind"], case["fills"][k]["kind"], fields),
                        "kind": "visible-differs", "filling": case["fills"][k]["kind"], "fields": fields,
                        "a": common.small({f: base.get(f) for f in fields}, 500), "b": common.small({f: o.get(f) for f in fields}, 500)}
        return None

    def classify(self, case, failure):
        # F9 is keyed by its call site: the backend's MaskedTensor.zero_filled multiplies by the mask (a finite filling
        # reaches the same defect through 1/0 = inf in the masked lanes); anything else gets its own key
        ends_in_zero_fill = case["op"] in ("zero_filled", "rep_distance", "rep_angle", "rep_inner_angle", "rep_point_line", "rep_points")
        if case["backend"] in ("torch", "tf") and ends_in_zero_fill and self.zero_filled_kind(case["backend"]) == "ZF_mul":
            return "masked-tensor-zero-filled-by-multiplication"
        return "%s-%s-%s" % (failure.get("kind", "other"), case["op"], case["backend"])


PROP = C09
