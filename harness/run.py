import argparse
import importlib
import os
import sys

sys.path.insert(0, os.path.dirname(os.path.abspath(__file__)))
import common  # noqa: E402


def main():
    ap = argparse.ArgumentParser()
    ap.add_argument("prop")
    ap.add_argument("--tier", default=os.environ.get("VERIF_TIER", "quick"), choices=["quick", "thorough"])
    ap.add_argument("--replay", default=None)
    ap.add_argument("--seed", type=int, default=None)
    a = ap.parse_args()
    seed = a.seed if a.seed is not None else int(os.environ.get("VERIF_SEED", "20260929"))
    mod = importlib.import_module(a.prop.lower())
    prop = mod.PROP()
    sys.exit(common.run_check(prop, a.tier, seed, replay=a.replay))


if __name__ == "__main__":
    main()
