"""Tie robustness: edits that cannot change behaviour do not break a tie.

The translators compare the CURRENT source of the tied functions, statement by statement, with the text the Coq model was
transcribed from.  A maintainer's clean-up that provably cannot change what a function does - a type hint added or removed, a
docstring or comment touched, a local variable renamed - used to break such a tie (and the check then reported `VIOLATION ...
no-failing-input-found`, the documented path for a harmless rewrite).  This module removes that class of alarms soundly:

  harness/pinned_src/   a copy of the tied source files as they were when the model's literals were written
  reconcile(rel, tree)  for every function (module level or method) present in both the current and the pinned file whose
                        NORMAL FORMS are equal, the pinned function's AST is substituted for the current one before a
                        translator looks at it; every other function is handed over as it is (so a real edit still breaks the
                        tie, fail-closed)

Normal form of a function = its AST with docstring removed, annotations removed (parameter and return annotations; an
annotated assignment becomes a plain one), and local variables renamed to _L0, _L1, ... in order of first appearance.
"Local variable" = a name bound inside the function by assignment / for / with / except / comprehension / walrus that is not a
parameter and not declared global / nonlocal.  Renaming is by identifier, applied to every Name node of the function, so it is
consistent; attribute names and keyword-argument names are strings in the AST and are never touched.  Functions that contain
nested function / class definitions, lambdas, global / nonlocal declarations, or calls to locals / vars / eval / exec are never
reconciled (their locals may be observable).  The substitution is sound for exactly that reason: two functions with equal normal
forms differ only by alpha-renaming of unobservable locals and by annotations that Python does not evaluate at call time
(`from __future__ import annotations` or not: parameter annotations are evaluated at definition time only, and only their
evaluation could matter - names used there must exist, which the import of the module under test checks on every run)."""
import ast
import copy
import os

HERE = os.path.dirname(os.path.abspath(__file__))
PINNED = os.path.join(HERE, "pinned_src")


class _Unsafe(Exception):
    pass


def _strip_doc(body):
    if body and isinstance(body[0], ast.Expr) and isinstance(body[0].value, ast.Constant) and isinstance(body[0].value.value, str):
        return body[1:]
    return body


def normal_form(fn):
    """-> str (ast.dump of the normalised function) or None when the function must not be reconciled"""
    f = copy.deepcopy(fn)
    try:
        f.body = _strip_doc(f.body) or [ast.Pass()]
        params = set()
        a = f.args
        for arg in list(a.posonlyargs) + list(a.args) + list(a.kwonlyargs) + ([a.vararg] if a.vararg else []) + ([a.kwarg] if a.kwarg else []):
            params.add(arg.arg)
            arg.annotation = None
        f.returns = None
        f.decorator_list = list(f.decorator_list)
        bound = []

        def bind(t):
            if isinstance(t, ast.Name):
                if t.id not in bound:
                    bound.append(t.id)
            elif isinstance(t, (ast.Tuple, ast.List)):
                for e in t.elts:
                    bind(e)
            elif isinstance(t, ast.Starred):
                bind(t.value)

        for n in ast.walk(f):
            if n is not f and isinstance(n, (ast.FunctionDef, ast.AsyncFunctionDef, ast.ClassDef, ast.Lambda, ast.Global, ast.Nonlocal)):
                raise _Unsafe()
            if isinstance(n, ast.Call) and isinstance(n.func, ast.Name) and n.func.id in ("locals", "vars", "eval", "exec", "globals", "dir"):
                raise _Unsafe()
        # annotated assignments -> plain assignments (or nothing)
        class _Ann(ast.NodeTransformer):
            def visit_AnnAssign(self, node):
                if node.value is None:
                    return None
                return ast.copy_location(ast.Assign(targets=[node.target], value=node.value), node)
        f = _Ann().visit(f)
        ast.fix_missing_locations(f)
        # binding order: source order of the binding constructs
        for n in ast.walk(f):
            if isinstance(n, ast.Assign):
                for t in n.targets:
                    bind(t)
            elif isinstance(n, (ast.AugAssign,)):
                bind(n.target)
            elif isinstance(n, (ast.For, ast.AsyncFor)):
                bind(n.target)
            elif isinstance(n, (ast.With, ast.AsyncWith)):
                for it in n.items:
                    if it.optional_vars is not None:
                        bind(it.optional_vars)
            elif isinstance(n, ast.ExceptHandler):
                if n.name and n.name not in bound:
                    bound.append(n.name)
            elif isinstance(n, ast.comprehension):
                bind(n.target)
            elif isinstance(n, ast.NamedExpr):
                bind(n.target)
            elif isinstance(n, (ast.Import, ast.ImportFrom)):
                for al in n.names:
                    nm = (al.asname or al.name).split(".")[0]
                    if nm not in bound:
                        bound.append(nm)
        local = [b for b in bound if b not in params]
        # rename in order of FIRST APPEARANCE in a deterministic traversal (not binding order of ast.walk, which is breadth first)
        order = []
        class _Seen(ast.NodeVisitor):
            def visit_Name(self, node):
                if node.id in local and node.id not in order:
                    order.append(node.id)
            def visit_ExceptHandler(self, node):
                if node.name in local and node.name not in order:
                    order.append(node.name)
                self.generic_visit(node)
            def visit_alias(self, node):
                nm = (node.asname or node.name).split(".")[0]
                if nm in local and nm not in order:
                    order.append(nm)
        _Seen().visit(f)
        ren = {name: "_L%d" % i for i, name in enumerate(order)}
        class _Ren(ast.NodeTransformer):
            def visit_Name(self, node):
                if node.id in ren:
                    return ast.copy_location(ast.Name(id=ren[node.id], ctx=node.ctx), node)
                return node
            def visit_ExceptHandler(self, node):
                if node.name in ren:
                    node.name = ren[node.name]
                self.generic_visit(node)
                return node
            def visit_alias(self, node):
                nm = (node.asname or node.name).split(".")[0]
                if nm in ren:
                    # `import numpy as np` with np renamed: keep the module, rename the binding
                    node.asname = ren[nm] if (node.asname or "." not in node.name) else node.asname
                    if node.asname is None:
                        raise _Unsafe()
                return node
        f = _Ren().visit(f)
        f.name = "_F"
        return ast.dump(f, include_attributes=False)
    except _Unsafe:
        return None


def _functions(tree):
    """-> {qualified name: (container body list, index, node)} for module-level functions and methods of module-level classes"""
    out = {}
    for i, n in enumerate(tree.body):
        if isinstance(n, ast.FunctionDef):
            out[n.name] = (tree.body, i, n)
        elif isinstance(n, ast.ClassDef):
            for j, m in enumerate(n.body):
                if isinstance(m, ast.FunctionDef):
                    out["%s.%s" % (n.name, m.name)] = (n.body, j, m)
    return out


def reconcile(rel, tree, log=None):
    """substitute pinned ASTs for the functions of `tree` (current source of pose_format/<rel>) that differ from the pinned ones
    only by edits that cannot change behaviour"""
    path = os.path.join(PINNED, rel)
    if os.environ.get("VERIF_NO_RECONCILE") or not os.path.exists(path):
        return tree
    try:
        pinned = ast.parse(open(path).read())
    except (OSError, SyntaxError):
        return tree
    cur, old = _functions(tree), _functions(pinned)
    for q, (body, i, node) in cur.items():
        if q not in old:
            continue
        pn = old[q][2]
        if ast.dump(node) == ast.dump(pn):
            continue
        a, b = normal_form(node), normal_form(pn)
        if a is not None and a == b:
            body[i] = pn
            if log is not None:
                log.append("%s:%s" % (rel, q))
    return tree
