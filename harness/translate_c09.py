"""placeholder - replaced below"""


def gen():
    return {}
